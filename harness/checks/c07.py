"""C07: one fresh session key per file, wrapped identically by every auth block.
MC: abstract key-management model (MC_Bec2): SameKeyEverywhere, SpliceRejected, pass-through (in ReadRecovers),
    Fresh / FreshKeys / FreshEph over all bounded scenarios.
C->S: (a) histories of file creations and repeated writes recorded through the RNG / key-generator seams,
    validated by the stateful Trace_KeyMgmt (nonce set); (b) every written header: each block unwraps to the key
    that authenticates the directory (Trace_Bec2 bec2.write); (c) headers spliced from two files are rejected;
    (d) read with a decryptor subset then write again: unopened blocks byte-identical."""
import os, io

from ..common import SPEC, Scratch, rng, MachineryError, B
from ..report import Report
from .. import tlc, bf3lib as L, bec2lib as B2, bec2gen as G, errpaths as E
from ..oracle_openssl import Oracle
from . import bec2common as C
from .mc_bec2 import run_mc_bec2

from bec2format import Bec2File, Bf3File
from bec2format.bec2file import UnknownAuthBlock, BEC2_FILE_SIG


def splice_text(fa, ta, fb, tb):
    """header = first block of A + first block of B, body authenticated under A's key."""
    ba = B2.split_header(B2.to_binary_of_text(ta))[0]
    bb = B2.split_header(B2.to_binary_of_text(tb))[0]
    hdr = BEC2_FILE_SIG + bytes([ba[0], len(ba[1])]) + ba[1] + bytes([bb[0], len(bb[1])]) + bb[1] + b"\x00\x00"
    body = fa.bf3file.to_binary(len(hdr), fa.session_key)
    s = io.StringIO()
    Bf3File.write_bf3_format(s, {}, hdr + body)
    return s.getvalue()


_FORK = {}


def _fork_worker(k):
    """runs in a forked child: two files without an explicit session key; returns (draws, key) per file"""
    seams = _FORK["seams"]
    out = []
    for _ in range(2):
        seams.take()
        f = Bec2File(_FORK["content"], [], None)
        out.append(([bytes(e["val"]) for e in seams.take() if e["ev"] == "rng"], bytes(f.session_key)))
    return out


def run(tier):
    rep = Report("C07", tier)
    r = rng("c07")
    with Scratch("c07") as wd, B2.Seams() as seams:
        run_mc_bec2(rep, wd, tier, ["SameKeyEverywhere", "SpliceRejected", "ReadRecovers", "Fresh", "FreshKeys", "FreshEph"],
                    selftest=("SameKeyEverywhere", "ADAPTER_STRIPS"), two_files=True)
        orc = Oracle(wd)
        rcpts = G.Recipients(orc, r, 2)
        rec = L.Rec()          # Trace_Bec2 events
        hist = L.Rec()         # Trace_KeyMgmt events
        ngroups = 8 if tier == "quick" else 16
        for grp in range(1, ngroups + 1):
            for n in range(8 if tier == "quick" else 25):
                kinds = r.choice(C.ORDERINGS)
                explicit = r.random() < 0.4
                plan = G.Plan(r, rcpts, kinds, key_cls=r.choice(["generic", "z1"]), explicit_key=explicit,
                              use_default_rcpt=r.random() < 0.3)
                seams.take()
                f = Bec2File(G.gen_content(r), plan.blocks, plan.key)
                draws = [e["val"] for e in seams.take() if e["ev"] == "rng"]
                hist.add({"op": "newfile", "grp": grp, "explicit": 1 if explicit else 0, "draws": [B(d) for d in draws],
                          "key": B(f.session_key), "given": B(plan.key or b""), "ephs": [], "necc": 0, "key_before": [], "key_after": []})
                for w in range(r.choice([1, 2, 3])):           # repeated writes of the same object
                    kb = bytes(f.session_key)
                    seams.take()
                    s = io.StringIO()
                    f.write_file(s, plan.encs_w)
                    evs = seams.take()
                    hist.add({"op": "pack", "grp": grp, "explicit": 0, "draws": [B(e["val"]) for e in evs if e["ev"] == "rng"], "key": [], "given": [],
                              "ephs": [B(e["pub"]) for e in evs if e["ev"] == "gen"], "necc": sum(1 for k in kinds if k == "ecc"),
                              "key_before": B(kb), "key_after": B(f.session_key)})
                # (b) the written header, judged block by block
                if n % 2 == 0:
                    text, _ = G.rec_bec2_write(rec, seams, orc, f, plan.meta, plan.encs_w, C.enc_specs(plan))
                    # (d) read with a proper subset of decryptors, write again: unopened blocks must be byte-identical
                    subs = [d for d in C.dec_subsets(plan)]
                    if subs:
                        decs = r.choice(subs)
                        ev = B2.rec_bec2_read(rec, text, decs, plan.ecc_privs, orc, True, auth=B2.proj_bec2(f))
                        if ev["kind"] == "ok":
                            g = Bec2File.read_file(io.StringIO(text), [d[0] for d in decs])
                            opened = {d[1]["kind"] for d in decs}
                            metas = []
                            for m, k, blk in zip(plan.meta, kinds, B2.split_header(B2.to_binary_of_text(text))):
                                kk = {"cust": "cust", "ecc": "ecc", "update": "code"}[k]
                                if kk in opened:
                                    metas.append(m)
                                else:
                                    metas.append({"tag": blk[0], "raw": B(blk[1]), "passthru": True})
                            encs_w = [e for e in plan.encs_w]
                            if list(g.auth_blocks.keys()) == [m["tag"] for m in metas]:
                                G.rec_bec2_write(rec, seams, orc, g, metas, encs_w, C.enc_specs(plan))
        # (a') one history spread over SEVERAL PROCESSES: the parent creates files (so that anything the library keeps
        # between draws is in place), then forked workers each create files; all keys of the history must be distinct
        # (a fork duplicates whatever the parent had buffered)
        import multiprocessing as _mp
        grp = ngroups + 1
        ngroups += 1
        for _ in range(2):
            seams.take()
            f0 = Bec2File(G.gen_content(r), [], None)
            draws = [e["val"] for e in seams.take() if e["ev"] == "rng"]
            hist.add({"op": "newfile", "grp": grp, "explicit": 0, "draws": [B(d) for d in draws], "key": B(f0.session_key), "given": [],
                      "ephs": [], "necc": 0, "key_before": [], "key_after": []})
        _FORK["seams"], _FORK["content"] = seams, G.gen_content(r)
        with _mp.get_context("fork").Pool(3) as pool:
            for evs in pool.map(_fork_worker, range(3)):
                for draws, key in evs:
                    hist.add({"op": "newfile", "grp": grp, "explicit": 0, "draws": [B(d) for d in draws], "key": B(key), "given": [],
                              "ephs": [], "necc": 0, "key_before": [], "key_after": []})
        # (a'') the application (or a test fixture) seeds Python's global `random` before each file: session keys and ephemeral
        # ECC keys come from the operating system's generator and are fresh all the same
        import random as _random
        grp = ngroups + 1
        ngroups += 1
        st0 = _random.getstate()
        try:
            for _w in range(3):
                _random.seed(4711)
                pl = G.Plan(r, rcpts, ["ecc", "update"], explicit_key=False, use_default_rcpt=(_w == 2))
                seams.take()
                fs = Bec2File(G.gen_content(r), pl.blocks, None)
                draws = [e["val"] for e in seams.take() if e["ev"] == "rng"]
                hist.add({"op": "newfile", "grp": grp, "explicit": 0, "draws": [B(d) for d in draws], "key": B(fs.session_key), "given": [],
                          "ephs": [], "necc": 0, "key_before": [], "key_after": []})
                _random.seed(4711)
                kb = bytes(fs.session_key)
                seams.take()
                fs.write_file(io.StringIO(), pl.encs_w)
                evs = seams.take()
                hist.add({"op": "pack", "grp": grp, "explicit": 0, "draws": [B(e["val"]) for e in evs if e["ev"] == "rng"], "key": [], "given": [],
                          "ephs": [B(e["pub"]) for e in evs if e["ev"] == "gen"], "necc": 1, "key_before": B(kb), "key_after": B(fs.session_key)})
        finally:
            _random.setstate(st0)
        # (a3) several threads write BEC2 files with ECC blocks at the same time (separate file and encryptor objects): each file's
        # ECC block carries ITS ephemeral point and unwraps, under the recipient's private key, to ITS session key
        from .. import errpaths as E
        tplans = [G.Plan(r, rcpts, ["ecc", "update"], explicit_key=True, use_default_rcpt=False) for _ in range(8)]
        tfiles = [Bec2File(G.gen_content(r), pl.blocks, pl.key) for pl in tplans]
        touts = [None] * len(tplans)

        def _mkw(i):
            def work():
                s_ = io.StringIO()
                tfiles[i].write_file(s_, tplans[i].encs_w)
                touts[i] = s_.getvalue()
            return work
        for lo in (0, 4):
            E.run_threads([_mkw(i) for i in range(lo, lo + 4)])
        seams.take()
        for pl, fobj, text in zip(tplans, tfiles, touts):
            if not text:
                rec.add({"op": "bec2.write", "key": B(fobj.session_key), "blocks": [], "encs": C.enc_specs(pl), "comps": [], "comments": [], "text": [], "threaded": 1})
                continue
            try:
                hb = B2.split_header(B2.to_binary_of_text(text))
            except Exception:                                # noqa: BLE001
                hb = []
            evs_ = []
            for (tg, raw_), m in zip(hb, pl.meta):
                if m["tag"] == 3:
                    evs_ += [{"ev": "gen", "pub": bytes(raw_[2:66])}, {"ev": "dh", "peer_der": bytes(m["pub_der"])}]
            pj = L.proj_file(fobj.bf3file)
            rec.add({"op": "bec2.write", "key": B(fobj.session_key), "blocks": [G.block_rec(m, evs_, orc) for m in pl.meta], "encs": C.enc_specs(pl),
                     "comps": pj["comps"], "comments": pj["comments"], "text": L.chars(text), "threaded": 1})
        # (b') ONE firmware package (with a session-key encrypted component of 64 KiB) delivered as two BEC2 files with two
        # session keys: in each file the key the blocks wrap is the key that authenticates the directory AND encrypts the component
        pkg = Bf3File({}, [L.mk_comp({0xC3: b"\x03", 0xC2: b"\x02"}, bytes((j * 89 + j // 253) % 256 for j in range(65536 + 16)), 65536 + 16, True)])
        for _k in range(0 if os.environ.get("VERIF_ENVPASS") else 2):     # (a matter of size, not of the interpreter mode: first pass only)
            pl = G.Plan(r, rcpts, ["update"], explicit_key=True)
            fb = Bec2File(pkg, pl.blocks, pl.key)
            tb, evb = G.rec_bec2_write(rec, seams, orc, fb, pl.meta, pl.encs_w, C.enc_specs(pl))
            evb["_cost"] = 1500
            B2.rec_bec2_read(rec, tb, list(pl.decs.values()), pl.ecc_privs, orc, True, auth=B2.proj_bec2(fb), _cost=800)
        # (c) spliced headers
        nspl = 0
        # key pairs: random pairs, and pairs that differ in exactly ONE byte position (every position) or one bit:
        # a comparison that looks at only part of the key must still see them as different
        base_key = G.key_with_class(r, "generic")
        near = []
        for pos in range(16):
            kk = bytearray(base_key)
            kk[pos] ^= (1 << r.randrange(8)) if r.random() < 0.5 else (r.randrange(1, 256))
            near.append((base_key, bytes(kk)))
        pairs = [None] * (6 if tier == "quick" else 40) + near
        for pair in pairs:
            ka, kb2 = r.sample(["cust", "update", "ecc"], 2)
            pa = G.Plan(r, rcpts, [ka], explicit_key=True)
            pb = G.Plan(r, rcpts, [kb2], explicit_key=True)
            if pair:
                pa.key, pb.key = pair
            fa = Bec2File(G.gen_content(r), pa.blocks, pa.key)
            fb = Bec2File(fa.bf3file, pb.blocks, pb.key)
            sa, sb = io.StringIO(), io.StringIO()
            fa.write_file(sa, pa.encs_w)
            fb.write_file(sb, pb.encs_w)
            seams.take()
            text = splice_text(fa, sa.getvalue(), fb, sb.getvalue())
            privs = dict(pa.ecc_privs)
            privs.update(pb.ecc_privs)
            B2.rec_bec2_read(rec, text, list(pa.decs.values()) + list(pb.decs.values()), privs, orc, True, splice=1)
            B2.rec_bec2_read(rec, text, list(pa.decs.values()), privs, orc, True, splice=1)      # only A opened: accepted, B passes through
            nspl += 1
        # one decryptor object reads a genuine file and then forged ones that REUSE material of the genuine ECC block:
        # (1) same ephemeral point, altered wrapped-key bytes (the ECC block now unwraps to another key than the update block),
        # (2) a header with the SAME tag twice (two ECC blocks for two selectors) whose first block carries another key
        for _ in range(3 if tier == "quick" else 20):
            pe = G.Plan(r, rcpts, ["ecc", "update"], explicit_key=True)
            fe = Bec2File(G.gen_content(r), pe.blocks, pe.key)
            se = io.StringIO()
            fe.write_file(se, pe.encs_w)
            seams.take()
            decs = list(pe.decs.values())                      # the SAME decryptor objects for all reads below
            B2.rec_bec2_read(rec, se.getvalue(), decs, pe.ecc_privs, orc, True, auth=B2.proj_bec2(fe), label="genuine-first")
            blks = B2.split_header(B2.to_binary_of_text(se.getvalue()))
            (t_ecc, raw_ecc), (t_upd, raw_upd) = blks[0], blks[1]
            forged = bytearray(raw_ecc)
            forged[-1] ^= 1
            hdr = BEC2_FILE_SIG + bytes([t_ecc, len(forged)]) + bytes(forged) + bytes([t_upd, len(raw_upd)]) + raw_upd + b"\x00\x00"
            s2 = io.StringIO()
            Bf3File.write_bf3_format(s2, {}, hdr + fe.bf3file.to_binary(len(hdr), fe.session_key))
            B2.rec_bec2_read(rec, s2.getvalue(), decs, pe.ecc_privs, orc, True, splice=1, label="same-ephemeral-other-wrapped-key")
            B2.rec_bec2_read(rec, se.getvalue(), decs, pe.ecc_privs, orc, True, auth=B2.proj_bec2(fe), label="genuine-again")
            # (2) duplicate tag: ECC(sel a -> K') + ECC(sel b -> K), body under K, both selectors decryptable
            sa, sb = r.sample(range(4), 2)
            (pra, pua), (prb, pub) = rcpts.pick(r), rcpts.pick(r)
            kprime = G.key_with_class(r, "generic")
            from bec2format.bec2file import InitEccAuthBlock as _IE
            ra = _IE(sa).pack(kprime, [B2.enc_ecc_pub(sa, pua)[0]])
            rb = _IE(sb).pack(fe.session_key, [B2.enc_ecc_pub(sb, pub)[0]])
            seams.take()
            hdr = BEC2_FILE_SIG + bytes([3, len(ra)]) + ra + bytes([3, len(rb)]) + rb + b"\x00\x00"
            s3 = io.StringIO()
            Bf3File.write_bf3_format(s3, {}, hdr + fe.bf3file.to_binary(len(hdr), fe.session_key))
            B2.rec_bec2_read(rec, s3.getvalue(), [B2.dec_ecc(sa, pra), B2.dec_ecc(sb, prb)], {sa: pra, sb: prb}, orc, True, splice=1, label="duplicate-tag-different-keys")
        # (c') crafted blocks at the edge of the value domain (round 7):
        # (1) a well-formed customer-key block whose container carries a SHORT payload (0, 1, 15 bytes): it unwraps to a key that
        #     differs from the update block's 16-byte key, in either block order -> the file must be refused;
        # (2) foreign blocks (a tag the library does not know) with a value of 0, 1 and 255 bytes, before and after the opened
        #     block: read, written again -> kept byte for byte
        for ci, short in enumerate((b"", b"\x00", bytes(range(1, 16)))):
            pu = G.Plan(r, rcpts, ["update"], explicit_key=True)
            dcust = B2.dec_cust(G.key_with_class(r, "generic"))       # no customer-key slot: the container's payload is the key alone
            fu = Bec2File(G.gen_content(r), pu.blocks, pu.key)
            su = io.StringIO()
            fu.write_file(su, pu.encs_w)
            (t_upd, raw_upd), = B2.split_header(B2.to_binary_of_text(su.getvalue()))[:1]
            raw_c = bytes(dcust[0].encrypt(short))
            seams.take()
            for order in (0, 1):
                two = [(1, raw_c), (t_upd, raw_upd)]
                if order:
                    two.reverse()
                hdr = BEC2_FILE_SIG + b"".join(bytes([t, len(v)]) + v for t, v in two) + b"\x00\x00"
                sx = io.StringIO()
                Bf3File.write_bf3_format(sx, {}, hdr + fu.bf3file.to_binary(len(hdr), fu.session_key))
                B2.rec_bec2_read(rec, sx.getvalue(), [dcust, pu.decs["update"]], {}, orc, True, splice=1,
                                 label="short-key-block-%d-order-%d" % (len(short), order))
                B2.rec_bec2_read(rec, sx.getvalue(), [dcust, pu.decs["update"]], {}, orc, False, splice=1,
                                 label="short-key-block-%d-order-%d-nocheck" % (len(short), order))
                nspl += 1
            val = (b"", b"\x5a", bytes(range(255)))[ci]
            for order in (0, 1):
                two = [(0x7F - ci, val, None), (t_upd, raw_upd, pu.meta[0])]
                if order:
                    two.reverse()
                hdr = BEC2_FILE_SIG + b"".join(bytes([t, len(v)]) + v for t, v, _m in two) + b"\x00\x00"
                sx = io.StringIO()
                Bf3File.write_bf3_format(sx, {}, hdr + fu.bf3file.to_binary(len(hdr), fu.session_key))
                evr = B2.rec_bec2_read(rec, sx.getvalue(), [pu.decs["update"]], {}, orc, True, label="foreign-block-%d-order-%d" % (len(val), order))
                if evr["kind"] == "ok":
                    g = Bec2File.read_file(io.StringIO(sx.getvalue()), [pu.decs["update"][0]])
                    metas = [m if m is not None else {"tag": t, "raw": B(v), "passthru": True} for t, v, m in two]
                    if list(g.auth_blocks.keys()) == [m["tag"] for m in metas]:
                        G.rec_bec2_write(rec, seams, orc, g, metas, list(pu.encs_w), C.enc_specs(pu))
        # ephemeral keys whose shared secret has leading zero bytes (see C09): every block must still wrap the file key
        from ..ephsearch import find_leading_zero_ephemerals
        for (priv, pub) in rcpts.pairs[-2:]:
            for e_scalar in find_leading_zero_ephemerals(pub, r, want=1):
                sel = r.randrange(4)
                pl = G.Plan(r, rcpts, ["update"], explicit_key=True)
                from bec2format.bec2file import InitEccAuthBlock as _IE2
                pl.blocks.append(_IE2(sel))
                e, spec = B2.enc_ecc_pub(sel, pub)
                pl.encs_w.append(e)
                pl.meta.append({"tag": 3, "sel": sel, "explicit": True, "pub_der": B(G.HDR + pub), "priv": priv})
                fz = Bec2File(G.gen_content(r), pl.blocks, pl.key)
                seams.forced.append(e_scalar)
                G.rec_bec2_write(rec, seams, orc, fz, pl.meta, pl.encs_w, C.enc_specs(pl))
        # error-path histories: refused write then correct write of the same object; reads without a usable decryptor
        # (MAC checking on and off); three-block headers whose outer blocks disagree
        E.bec2_error_paths(rec, seams, orc, r, rcpts, C, 6 if tier == "quick" else 40)
        # binding self-tests
        can = dict(hist.events[0])
        can.update({"op": "newfile", "explicit": 0, "draws": [hist.events[0]["key"] or [1] * 16], "key": [9] * 16, "grp": 999})
        hist.add(can)
        can2 = dict([e for e in rec.events if e["op"] == "bec2.write"][0])
        can2["key"] = list(can2["key"])
        can2["key"][3] ^= 4
        rec.add(can2)
        rejh, sth = tlc.validate_trace(os.path.join(SPEC, "Trace_KeyMgmt.tla"), "INIT Init\nNEXT Next\nPROPERTY Monotone\n", hist.events,
                                       os.path.join(wd, "hist"), shards=min(16, ngroups + 1), by="grp")
        C.report_rejections(rep, "C07", hist, rejh, {can["tid"]})
        rej, st = C.validate(rec.events, wd)
        C.report_rejections(rep, "C07", rec, rej, {can2["tid"]})
        spl = [e for e in rec.events if e.get("splice")]
        rep.add_trace("Trace_KeyMgmt: creation / repeated-write histories through the RNG and key-generator seams", sth, len(hist.events) - 1,
                      extra={"histories": ngroups})
        rep.add_trace("Trace_Bec2: written headers block by block, subset read + rewrite (pass-through), spliced headers", st, len(rec.events) - 1,
                      extra={"spliced_headers": nspl, "spliced_rejected_by_impl": sum(1 for e in spl if e["kind"] == "raise")})
        rep.sample({k: v for k, v in hist.events[0].items()})
        rep.sample({k: v for k, v in hist.events[1].items()})
    rep.assumptions += ["AES.tla, CRC16.tla", "OpenSSL ECDH + hashlib SHA-256 for ECC blocks (oracle relation)",
                        "nonce collisions of the OS RNG (probability 2^-64 per run) ignored"]
    return rep
