"""C16: bundled AES = FIPS-197 / SP 800-38A, feeders independent of the chunking, adapter = pure zero-padded CBC.

MC (TLC, exhaustive on bounded instances)
  MC_AESTables / MC_AESVectors / MC_AESModesVectors   literal tables = GF(2^8) definitions; FIPS-197 and SP 800-38A answers
  MC_AESModes   mode objects (state machines) = SP 800-38A whole-message functions for every chunking (tiny cipher)
  MC_Feeder     Encrypter/Decrypter: every split into <= 4 chunks ends with the whole-stream specification
  MC_FeedStream encrypt_stream/decrypt_stream as a loop over read() results: every way a raw stream may hand the data out
                (short reads anywhere) ends with the whole-stream specification; "short read = end of stream" refuted
  MC_Adapter    every history of <= 4 calls on 2 objects returns the pure functions of (key, iv, data)
C->S (events recorded from the code in /repo, every expected value computed by TLC)
  Trace_AES       14 tables x 256 entries + rcon, random/NIST blocks for 128/192/256-bit keys, OpenSSL cross-check of AES.tla
  Trace_AESModes  mode objects and feeders replayed call by call; whole streams vs the specification and vs OpenSSL;
                  feeder chunkings = every chunking TLC enumerated in MC_Feeder (S->C) + random byte-granular ones;
                  stream helpers on BytesIO and raw streams with short reads, block_size 1/15/16/17/8192/...;
                  deterministic revisits: the same inputs again under another chunking / object history / stream kind
  Trace_Adapter   create_AES128 histories on shared / separate objects, pad, unregistered base class
The harness holds no model: it generates inputs, calls the real code / openssl and logs.  No recording step assumes
that the library behaves: a call that raises or returns something that is not a byte string becomes an event TLC rejects
(exit 1), never a harness crash (exit 2 is for TLC / openssl / java failures only).
Two habits of the recorders: (1) objects the library returns are KEPT, not copied, until every call of the history is done
(Raw / Rec.settle): a result that a later call on the same object overwrites, or that is the same mutable object as another
result or an argument, is then seen; (2) every option compared with a constant (padding strings, mode names, block_size,
segment size, keys) is handed over both as the module constant / literal and as an EQUAL object built at run time."""
import io, os, sys, json, zlib, shutil, threading, subprocess, concurrent.futures as cf

from ..common import SPEC, Scratch, rng, MachineryError
from ..report import Report
from .. import tlc

TINY = "E <- TinyE\nD <- TinyD\nINIT Init\nNEXT Next\n"
TRIV = "INIT Init\nNEXT Next\n"
ALLMODES = '{"ecb", "cbc", "cfb", "ofb", "ctr"}'


def modes_cfg(blk, full, maxlen, allivs=False, wrong=""):
    return ("CONSTANTS BLK = %d  CM = 4  FullLen = %d  MaxLen = %d  MaxCalls = 4  AllIvs = %s  WRONG = \"%s\"\n" % (
        blk, full, maxlen, "TRUE" if allivs else "FALSE", wrong) + TINY + "INVARIANT ChunkingIndependent\nINVARIANT RejectsExactlyBadSizes\n")


def feeder_cfg(blk, maxblocks=5, gen=False, wrong="", modesel=ALLMODES):
    return ("CONSTANTS BLK = %d  CM = 4  MaxBlocks = %d  MaxChunks = 4  GEN = %s  WRONG = \"%s\"\nModeSel = %s\n" % (
        blk, maxblocks, "TRUE" if gen else "FALSE", wrong, modesel) + TINY
        + "INVARIANT Outcome\nINVARIANT PrefixSoFar\nINVARIANT KeepsBack\nINVARIANT RoundTrip\nINVARIANT AfterFinish\n")


def adapter_cfg(blk, maxcalls=4, strips=False, stateful=False):
    return ("CONSTANTS BLK = %d  CM = 4  MaxCalls = %d  ADAPTER_STRIPS = %s  STATEFUL_IV = %s\n" % (
        blk, maxcalls, "TRUE" if strips else "FALSE", "TRUE" if stateful else "FALSE") + TINY
        + "INVARIANT PureResult\nINVARIANT RoundTrip\nINVARIANT MacLast\nPROPERTY KeepsParams\n")


def stream_cfg(blk, maxblocks=3, bsizes="{1, 2, 3, 8}", short_ends=False):
    return ("CONSTANTS BLK = %d  CM = 4  MaxBlocks = %d  BSizes = %s  SHORT_ENDS = %s\n" % (
        blk, maxblocks, bsizes, "TRUE" if short_ends else "FALSE") + TINY + "INVARIANT StreamOutcome\n")


# ------------------------------------------------------------------------------------------------ real code
def _real():
    import register_crypto_plugin                                  # registers the back ends
    from register_crypto_plugin.pyaes import aes, blockfeeder
    import bec2format.crypto as bc
    return aes, blockfeeder, bc


def ossl(cipher, key, iv, data, decrypt=False):
    cmd = ["openssl", "enc", "-" + cipher, "-nopad", "-K", key.hex()]
    if iv is not None:
        cmd += ["-iv", iv.hex()]
    if decrypt:
        cmd += ["-d"]
    try:
        p = subprocess.run(cmd, input=data, stdout=subprocess.PIPE, stderr=subprocess.PIPE, timeout=60)
    except (OSError, subprocess.TimeoutExpired) as ex:
        raise MachineryError("openssl failed: %r" % (ex,))
    if p.returncode != 0 or len(p.stdout) != len(data):
        raise MachineryError("openssl %s failed (rc %d, %d of %d bytes): %s" % (cipher, p.returncode, len(p.stdout), len(data), p.stderr[-300:]))
    return p.stdout


class Raw:
    """Objects handed back by the library (role "res"), fresh mutable argument objects handed to it ("arg"), or earlier
    results passed on as arguments ("fwd") - kept AS THE OBJECTS THEMSELVES until the whole history is over.  Rec.settle()
    converts them (several objects = their concatenation), so a result that a LATER call overwrites is recorded as it is
    then, and notes when two results, or a result and an argument, are one and the same mutable object."""
    __slots__ = ("objs", "role")

    def __init__(self, role, *objs):
        self.role, self.objs = role, objs


IMMUTABLE = (bytes, str, tuple, int, type(None), frozenset)


def rlen(x):
    try:
        return len(x)
    except Exception:                                              # noqa
        return 0


def byteslike(x):
    return isinstance(x, (bytes, bytearray, list, tuple))


class Rec:
    def __init__(self):
        self.evs, self.tid, self.grp, self.pending = [], 0, 0, []

    def add(self, ev, cost=1):
        self.tid += 1
        ev["tid"] = self.tid
        ev["_cost"] = max(1, cost)
        self.evs.append(ev)
        if any(isinstance(v, Raw) for v in ev.values()):
            self.pending.append(ev)
        return ev

    def settle(self):
        """End of a history: convert every retained object now; alias = 1 on events whose result object is shared."""
        settle_events(self.pending)
        self.pending = []

    def newgrp(self):
        self.grp += 1
        return self.grp


def settle_events(pending):
    if True:
        seen = {}                                                    # id -> [(event, role)]
        for ev in pending:
            for v in ev.values():
                if isinstance(v, Raw) and v.role in ("res", "arg"):
                    for o in v.objs:
                        if not isinstance(o, IMMUTABLE):
                            seen.setdefault(id(o), []).append((ev, v.role))
        for uses in seen.values():
            if len(uses) > 1 and any(role == "res" for _, role in uses):
                for ev, _ in uses:
                    if "alias" in ev:
                        ev["alias"] = 1
        for ev in pending:
            for k, v in list(ev.items()):
                if isinstance(v, Raw):
                    parts = [BL(o) for o in v.objs]
                    ev[k] = [-1] if any(p == [-1] for p in parts) else [b for p in parts for b in p]


def BL(x):
    """bytes-like / list of ints -> JSON list; anything else the library may hand back (None, wrong type, values out of
    range) -> [-1], which no specification value equals: the event is rejected instead of the harness crashing."""
    try:
        v = [int(b) for b in x]
        return v if all(0 <= b < 256 for b in v) else [-1]
    except Exception:                                              # noqa
        return [-1]


def built(x):
    """An object EQUAL to the option value x but created at run time (never the interned literal / module constant): a
    library must compare options by value.  str: joined from its characters; int: parsed from its digits; bytes: copied."""
    if isinstance(x, str):
        return "".join(list(x))
    if isinstance(x, bool) or x is None:
        return x
    if isinstance(x, int):
        return int(str(x))
    if isinstance(x, bytes):
        return bytes(bytearray(x))
    return x


PAD_CONST = {"none": "PADDING_NONE", "default": "PADDING_DEFAULT"}


def pad_option(bf, padding, form):
    """form "const": the module constant blockfeeder.PADDING_*; "built": an equal string object made at run time."""
    return getattr(bf, PAD_CONST[padding], padding) if form == "const" else built(padding)


def rb(r, n):
    return bytes(r.randrange(256) for _ in range(n))


def blocks(n):
    return (n + 15) // 16


# ------------------------------------------------------------------------------------------------ keys that collide under cheap digests
def collision_pairs(r):
    """Pairs of DIFFERENT keys of equal length (16, 24, 32) that agree under the cheap digests somebody might key a cache
    or a table with: CRC-32, Adler-32, low 32 bits of hash() (birthday search, < 1 s), sum / xor / multiset of the bytes, first /
    last 4 and 8 bytes.  Both keys of a pair are used back to back on fresh objects; every result is judged as any other."""
    def birthday(n, digest, limit=800000):
        seen = {}
        for _ in range(limit):
            k = r.randbytes(n)
            d = digest(k)
            o = seen.get(d)
            if o is not None and o != k:
                return o, k
            seen[d] = k
        return None

    pairs = []
    for n in (16, 24, 32):
        for name, dg in (("crc32", zlib.crc32), ("adler32", zlib.adler32), ("hash32", lambda k: hash(k) & 0xFFFFFFFF)):
            pr = birthday(n, dg)
            if pr:
                pairs.append((name, pr[0], pr[1]))
        k = bytearray(r.randbytes(n))
        i, j = r.sample(range(n), 2)
        while k[i] == k[j]:
            k[j] = (k[j] + 1) % 256
        q = bytearray(k)
        q[i], q[j] = k[j], k[i]
        pairs.append(("same-bytes-permuted", bytes(k), bytes(q)))     # equal sum, xor, sorted bytes
        q = bytearray(k)
        q[i] ^= 0x5A
        q[j] ^= 0x5A
        pairs.append(("xor-of-bytes", bytes(k), bytes(q)))
        k[i], k[j] = (k[i] % 200) + 1, (k[j] % 200) + 20
        q = bytearray(k)
        q[i] += 17
        q[j] -= 17
        pairs.append(("sum-of-bytes", bytes(k), bytes(q)))
        for name, keep in (("first-4-bytes", slice(0, 4)), ("last-4-bytes", slice(n - 4, n)), ("first-8-bytes", slice(0, 8)), ("all-but-last-byte", slice(0, n - 1))):
            a, b = bytearray(r.randbytes(n)), bytearray(r.randbytes(n))
            b[keep] = a[keep]
            if a == b:
                b[n - 1 if keep.stop != n else 0] ^= 1
            pairs.append((name, bytes(a), bytes(b)))
    return pairs


# ------------------------------------------------------------------------------------------------ part 1: block cipher
NIST_BLOCKS = [  # (key, plaintext): FIPS-197 App. B, C.1-C.3; SP 800-38A F.1.1/F.1.3/F.1.5 first block.  Inputs only.
    ("2b7e151628aed2a6abf7158809cf4f3c", "3243f6a8885a308d313198a2e0370734"),
    ("000102030405060708090a0b0c0d0e0f", "00112233445566778899aabbccddeeff"),
    ("000102030405060708090a0b0c0d0e0f1011121314151617", "00112233445566778899aabbccddeeff"),
    ("000102030405060708090a0b0c0d0e0f101112131415161718191a1b1c1d1e1f", "00112233445566778899aabbccddeeff"),
    ("2b7e151628aed2a6abf7158809cf4f3c", "6bc1bee22e409f96e93d7e117393172a"),
    ("8e73b0f7da0e6452c810f32b809079e562f8ead2522c6b7b", "6bc1bee22e409f96e93d7e117393172a"),
    ("603deb1015ca71be2b73aef0857d77811f352c073b6108d72d9810a30914dff4", "6bc1bee22e409f96e93d7e117393172a"),
    ("00" * 16, "00" * 16), ("ff" * 24, "ff" * 16), ("00" * 32, "ff" * 16),
]


def record_cipher(rec, rep, r, tier, pool, pairs=()):
    aes, _, _ = _real()
    AES = aes.AES
    # tables, entry by entry
    for name in ["S", "Si"] + ["T%d" % i for i in range(1, 9)] + ["U%d" % i for i in range(1, 5)] + ["rcon"]:
        try:
            tab = list(getattr(AES, name))
        except Exception:                                          # noqa: missing / not a sequence -> length event is rejected
            tab = []
        rec.add({"op": "tablen", "name": name, "n": len(tab)})
        wide = name[0] in "TU"
        for x, e in enumerate(tab):
            if not isinstance(e, int) or not (0 <= e < (1 << 32 if wide else 256)):
                rep.violation("C16:table-entry-range", "pyaes.AES.%s[%d] = %r is not a %s" % (name, x, e, "32-bit word" if wide else "byte"), {"name": name, "x": x})
                continue
            rec.add({"op": "tab", "name": name, "x": x, "v": list(e.to_bytes(4, "big")) if wide else [e]}, cost=3)
    # blocks through the real cipher
    n = 700 if tier == "thorough" else 60
    cases = [(bytes.fromhex(k), bytes.fromhex(p)) for k, p in NIST_BLOCKS]
    for ks in (16, 24, 32):
        cases += [(rb(r, ks), rb(r, 16)) for _ in range(n)]
        cases += [(rb(r, ks), bytes([r.choice([0, 255])] * 16)) for _ in range(4)]

    hist = [0]

    def history(key, pts, one_object, decrypt_only=False, tag=""):
        """Several blocks through ONE cipher object (or a fresh one per call): all encrypt calls, then all decrypt calls
        (each fed with the very object encrypt returned), and only then is anything converted or recorded."""
        hist[0] += 1

        def obj():
            try:
                return AES(built(key) if hist[0] % 2 else key)
            except Exception:                                      # noqa: every call on None raises -> [-1] -> rejected
                return None
        a = obj()
        cs, args = [], []
        if not decrypt_only:
            for pt in pts:
                arg = list(pt) if r.random() < 0.5 else pt           # bytes or list of ints, both are used by the modes
                args.append(arg)
                try:
                    cs.append((a if one_object else obj()).encrypt(arg))
                except Exception:                                  # noqa
                    cs.append(None)
        else:
            cs = args = [list(x) if r.random() < 0.5 else x for x in pts]
        ds = []
        for c in cs:
            try:
                ds.append((a if one_object else obj()).decrypt(c))
            except Exception:                                      # noqa
                ds.append(None)
        for j, pt in enumerate(pts):
            if decrypt_only:
                rec.add({"op": "dblk", "key": list(key), "ct": list(pt), "arg": Raw("arg", args[j]), "pt": Raw("res", ds[j]), "alias": 0,
                         "hist": hist[0], "one": int(one_object), "tag": tag}, cost=12)
            else:
                rec.add({"op": "blk", "key": list(key), "pt": list(pt), "arg": Raw("arg", args[j]), "ct": Raw("res", cs[j]), "dt": Raw("res", ds[j]),
                         "alias": 0, "hist": hist[0], "one": int(one_object), "tag": tag}, cost=12)
        rec.settle()

    for j, (key, pt) in enumerate(cases):
        history(key, [pt, rb(r, 16)] if j % 2 else [pt], one_object=(j % 4 != 3))
    # the same (key, block) again on ONE cipher object after it has processed other blocks: a block result never
    # depends on what the object did before or does afterwards
    for ks in (16, 24, 32):
        todo = [rb(r, 16) for _ in range(4)]
        history(rb(r, ks), todo + todo[::-1], one_object=True)
    for ks in (16, 24, 32):
        for j in range(n // 4):
            history(rb(r, ks), [rb(r, 16), rb(r, 16)], one_object=(j % 3 != 2), decrypt_only=True)
    # keys that collide under cheap digests, back to back on fresh objects, in both orders (a schedule cached under a digest
    # of the key would be handed to the other key)
    for name, k1, k2 in pairs:
        pt = rb(r, 16)
        for key in (k1, k2, k2, k1):
            history(key, [pt], one_object=True, tag="key-collision-" + name)
        history(k1, [pt], one_object=True, decrypt_only=True, tag="key-collision-" + name)
        history(k2, [pt], one_object=True, decrypt_only=True, tag="key-collision-" + name)
    # oracle: AES.tla itself against OpenSSL (independent of pyaes)
    nk = 250 if tier == "thorough" else 70
    jobs = []
    for ks in (16, 24, 32):
        for _ in range(nk):
            jobs.append((rb(r, ks), rb(r, 16 * r.choice([1, 1, 2, 4]))))
    outs = list(pool.map(lambda j: ossl("aes-%d-ecb" % (8 * len(j[0])), j[0], None, j[1]), jobs))
    first = rec.tid
    for (key, pts), cts in zip(jobs, outs):
        for o in range(0, len(pts), 16):
            rec.add({"op": "oblk", "key": list(key), "pt": list(pts[o:o + 16]), "ct": list(cts[o:o + 16])}, cost=12)
    return rec.tid - first


# ------------------------------------------------------------------------------------------------ part 2: modes
def mk_mode(aes, mode, key, iv, seg, none_iv=False):
    """iv: 16 bytes (ctr: initial counter).  none_iv: pass None / the default counter instead (iv must then be the
    documented default: zeros, counter 1)."""
    via_table = (len(key) + sum(iv[:2]) if iv else len(key)) % 2 == 1   # deterministic mix of both ways to name the class
    cls = {"ecb": aes.AESModeOfOperationECB, "cbc": aes.AESModeOfOperationCBC, "cfb": aes.AESModeOfOperationCFB,
           "ofb": aes.AESModeOfOperationOFB, "ctr": aes.AESModeOfOperationCTR}[mode]
    if via_table:
        cls = aes.AESModesOfOperation[built(mode)]                  # documented lookup table, key string built at run time
        key = built(key)
    if mode == "ecb":
        return cls(key)
    if mode == "cbc":
        return cls(key, None if none_iv else iv)
    if mode == "cfb":
        return cls(key, None if none_iv else iv, built(seg) if via_table else seg)
    if mode == "ofb":
        return cls(key, None if none_iv else iv)
    if none_iv:
        return cls(key)
    return cls(key, aes.Counter(int.from_bytes(iv, "big")))


def ossl_name(mode, key, seg):
    suffix = {"ecb": "ecb", "cbc": "cbc", "ofb": "ofb", "ctr": "ctr"}.get(mode)
    if mode == "cfb":
        suffix = {1: "cfb8", 16: "cfb"}.get(seg)
    return None if suffix is None else "aes-%d-%s" % (8 * len(key), suffix)


def gran(mode, seg):
    return 16 if mode in ("ecb", "cbc") else seg if mode == "cfb" else 1


def aes_cost(mode, seg, nbytes):
    return nbytes // max(1, seg) + 1 if mode == "cfb" else blocks(nbytes) + 1


def drive_mode(rec, r, aes, mode, key, iv, seg, direction, stream, sizes, none_iv=False, tag="", oracle_jobs=None):
    """One mode object, one call per entry of sizes (a size the mode must reject consumes nothing)."""
    g = rec.newgrp()
    rec.add({"op": "m.new", "grp": g, "mode": mode, "key": list(key), "iv": list(iv), "seg": seg, "tag": tag}, cost=2)
    try:
        obj = mk_mode(aes, mode, key, iv, seg, none_iv)
    except Exception as ex:                                        # noqa: logged as a raising call of admissible size -> rejected by TLC
        rec.add({"op": "m.call", "grp": g, "dir": direction, "data": [0] * (16 * max(1, seg)), "out": [], "err": 1,
                 "cls": "constructor:" + type(ex).__name__, "alias": 0, "tag": tag}, cost=16)
        return g
    pos, acc_in, kept = 0, b"", []
    for n in sizes:
        chunk = stream[pos:pos + n]
        try:
            out = (obj.encrypt if direction == "enc" else obj.decrypt)(chunk)
            err, cls = 0, ""
        except Exception as ex:                                    # noqa: the class is logged, the spec judges raise / no raise
            out, err, cls = b"", 1, type(ex).__name__
        rec.add({"op": "m.call", "grp": g, "dir": direction, "data": list(chunk), "out": Raw("res", out), "err": err, "cls": cls, "alias": 0, "tag": tag},
                cost=aes_cost(mode, seg, len(chunk)))
        if not byteslike(out):
            break
        if not err:
            pos += len(chunk)
            acc_in += chunk
            kept.append(out)                                         # the object itself; converted after the last call
    rec.add({"op": "m.end", "grp": g, "dir": direction, "stream": list(acc_in), "outs": Raw("cat", *kept), "tag": tag}, cost=aes_cost(mode, seg, len(acc_in)))
    rec.settle()
    name = ossl_name(mode, key, seg)
    if oracle_jobs is not None and name and acc_in:
        oracle_jobs.append((g, name, key, None if mode == "ecb" else iv, acc_in, direction, tag, aes_cost(mode, seg, len(acc_in))))
    return g


def mode_sizes(r, mode, seg, total, with_bad=True):
    """random call sizes covering `total` bytes: admissible sizes, zero-size calls, now and then a size the mode must
    reject (the driver logs whatever happens; a rejected call consumes nothing)."""
    g = gran(mode, seg)
    sizes, left = [], total
    while left > 0:
        n = 16 if g == 16 else g * r.randint(1, max(1, min(left // g, r.choice([1, 2, 5, 40]))))
        if with_bad and g > 1 and r.random() < 0.12:
            sizes.append(r.choice([0, 1, 15, 17, 32]) if g == 16 else n + r.randint(1, g - 1))
        sizes.append(n)
        left -= n
    if r.random() < 0.3:
        sizes.insert(r.randrange(len(sizes) + 1), 0)
    return sizes


def record_modes(rec, r, tier, oracle_jobs, pairs=()):
    aes, _, _ = _real()
    reps = 24 if tier == "thorough" else 3
    segs = [1, 2, 3, 5, 8, 16] + ([4, 7, 11, 13] if tier == "thorough" else [])
    cfgs = [("ecb", 0), ("cbc", 0), ("ofb", 0), ("ctr", 0)] + [("cfb", s) for s in segs]
    top = (1 << 128) - 1
    ctr_specials = [top, top - 1, top - 2, top - 3, 0, 255, (1 << 64) - 1, (1 << 120) - 1, (1 << 128) - 256, 0x00FFFFFFFFFFFFFFFFFFFFFFFFFFFFFF]
    for mode, seg in cfgs:
        for direction in ("enc", "dec"):
            for j in range(reps):
                key = rb(r, r.choice([16, 16, 24, 32]))
                iv = b"" if mode == "ecb" else rb(r, 16)
                g = gran(mode, seg)
                maxb = 40 if (mode == "cfb" and seg <= 2) else 96
                total = g * r.randint(0, maxb // g) if j else g * (maxb // g)
                drive_mode(rec, r, aes, mode, key, iv, seg, direction, rb(r, total), mode_sizes(r, mode, seg, total), oracle_jobs=oracle_jobs)
    # counter values that carry / roll over (streams long enough to cross the boundary)
    for j, c in enumerate(ctr_specials + ([r.getrandbits(128) | (0xFFFF if i % 2 else 0xFF) for i in range(12)] if tier == "thorough" else [])):
        key = rb(r, r.choice([16, 24, 32]))
        total = r.randint(50, 90)
        drive_mode(rec, r, aes, "ctr", key, c.to_bytes(16, "big"), 0, "enc" if j % 2 == 0 else "dec", rb(r, total),
                   mode_sizes(r, "ctr", 0, total, with_bad=False), oracle_jobs=oracle_jobs)
    # the same key and data under the counter blocks 0, 1 (explicit) and the default counter, every key size; twice on
    # fresh objects with another chunking: a result depends on (key, counter, data) only
    for ks in (16, 24, 32):
        key, data = rb(r, ks), rb(r, 40)
        for c in (0, 1, 2, 255, 256, 1 << 64, top):
            for sizes in ([5, 15, 20], [40]):
                drive_mode(rec, r, aes, "ctr", key, c.to_bytes(16, "big"), 0, "enc", data, sizes, tag="ctr-%x" % c, oracle_jobs=oracle_jobs if sizes == [40] else None)
        drive_mode(rec, r, aes, "ctr", key, (1).to_bytes(16, "big"), 0, "enc", data, [7, 33], none_iv=True, tag="ctr-iv-none")
    # colliding keys through the modes: the same iv and data under k1 then k2 (thorough: every mode for every pair)
    allm = [("ecb", 0), ("cbc", 0), ("cfb", 16), ("ofb", 0), ("ctr", 0), ("cfb", 1)]
    for j, (name, k1, k2) in enumerate(pairs):
        for mode, seg in (allm if tier == "thorough" else [allm[j % 5]]):
            iv, data = (b"" if mode == "ecb" else rb(r, 16)), rb(r, 32)
            for key in (k1, k2):
                drive_mode(rec, r, aes, mode, key, iv, seg, "enc" if j % 2 == 0 else "dec", data, [16, 16], tag="key-collision-" + name, oracle_jobs=oracle_jobs)
    # documented defaults: iv None = zero IV, default counter = 1
    for mode, seg in (("cbc", 0), ("ofb", 0), ("ctr", 0), ("cfb", 1), ("cfb", 16)):
        key = rb(r, 16)
        iv = (1).to_bytes(16, "big") if mode == "ctr" else bytes(16)
        drive_mode(rec, r, aes, mode, key, iv, seg, "enc", rb(r, 48), mode_sizes(r, mode, seg, 48, with_bad=False), none_iv=True,
                   tag=mode + "-iv-none", oracle_jobs=oracle_jobs)


# ------------------------------------------------------------------------------------------------ part 3: feeders
FEEDER_MODES = [("ecb", 0), ("cbc", 0), ("cfb", 1), ("cfb", 3), ("cfb", 16), ("ofb", 0), ("ctr", 0)]
FEEDER_CFGS = [(m, s, d, p) for (m, s) in FEEDER_MODES for d in ("enc", "dec") for p in ("default", "none")]


def valid_cipher_text(r, aes, bf, mode, key, iv, seg, total):
    """cipher text of exactly `total` bytes with valid PKCS#7 padding inside, made by the real Encrypter (input
    generation only - every output is judged by TLC); random bytes if that is impossible or the library misbehaves."""
    if total >= 16 and total % 16 == 0:
        try:
            e = bf.Encrypter(mk_mode(aes, mode, key, iv, seg))
            pt = rb(r, total - 16 + r.randrange(16))
            stream = bytes(e.feed(pt)) + bytes(e.feed())
            if len(stream) == total:
                return stream
        except Exception:                                          # noqa
            pass
    return rb(r, total)


def drive_feeder(rec, r, aes, bf, mode, seg, direction, padding, total, sizes, valid=True, post=False, tag="", key=None, iv=None, stream=None,
                 padform=None):
    key = rb(r, r.choice([16, 16, 16, 24, 32])) if key is None else key
    iv = (b"" if mode == "ecb" else rb(r, 16)) if iv is None else iv
    if stream is None:
        if direction == "dec" and padding == "default" and mode in ("ecb", "cbc") and valid:
            stream = valid_cipher_text(r, aes, bf, mode, key, iv, seg, total)
        else:
            stream = rb(r, total)
    g = rec.newgrp()
    padform = padform or ("built" if g % 2 else "const")           # the option as module constant / as an equal run-time string
    tag = (tag + "+" if tag else "") + "padding-string-built-at-run-time" if padform == "built" else tag
    rec.add({"op": "f.new", "grp": g, "mode": mode, "key": list(key), "iv": list(iv), "seg": seg, "dir": direction, "pad": padding,
             "padform": padform, "tag": tag}, cost=2)
    try:
        f = (bf.Encrypter if direction == "enc" else bf.Decrypter)(mk_mode(aes, mode, key, iv, seg), padding=pad_option(bf, padding, padform))
    except Exception as ex:                                        # noqa: logged as a raising feed(b"") -> rejected by TLC
        rec.add({"op": "f.feed", "grp": g, "data": [], "fin": 0, "out": [], "err": 1, "cls": "constructor:" + type(ex).__name__, "alias": 0, "tag": tag})
        return g
    pos, kept, failed = 0, [], 0

    def call(data, fin):
        try:
            return f.feed(None if fin else data), 0, ""
        except Exception as ex:                                    # noqa
            return b"", 1, type(ex).__name__

    for n in sizes:
        chunk = stream[pos:pos + n]
        pos += n
        o, e, cls = call(chunk, 0)
        rec.add({"op": "f.feed", "grp": g, "data": list(chunk), "fin": 0, "out": Raw("res", o), "err": e, "cls": cls, "alias": 0, "tag": tag},
                cost=aes_cost(mode, seg, rlen(o)))
        if e or not byteslike(o):
            failed = 1
            break
        kept.append(o)
    if not failed:
        o, e, cls = call(b"", 1)
        rec.add({"op": "f.feed", "grp": g, "data": [], "fin": 1, "out": Raw("res", o), "err": e, "cls": cls, "alias": 0, "tag": tag}, cost=aes_cost(mode, seg, 32))
        failed = e
        if byteslike(o):
            kept.append(o)
        if post and not e:
            for d, fin in ((b"x", 0), (b"", 1)):
                o, e, cls = call(d, fin)
                rec.add({"op": "f.feed", "grp": g, "data": list(d) if not fin else [], "fin": fin, "out": Raw("res", o), "err": e, "cls": cls, "alias": 0, "tag": tag})
    rec.add({"op": "f.end", "grp": g, "stream": list(stream[:pos]), "outs": Raw("cat", *kept), "err": failed, "tag": tag}, cost=aes_cost(mode, seg, pos) + 1)
    rec.settle()
    return g


def record_feeders(rec, r, tier, shapes):
    aes, bf, _ = _real()
    n0 = rec.grp
    # S->C: every chunking TLC enumerated in MC_Feeder; one abstract cell = 8 bytes (2 cells = one AES block)
    per_shape = 8 if tier == "thorough" else 1
    for k, (L, sizes) in enumerate(shapes):
        for j in range(per_shape):
            mode, seg, d, p = FEEDER_CFGS[(k * per_shape + j * 11 + k // 28) % len(FEEDER_CFGS)]
            if mode == "cfb" and tier != "thorough" and ((seg == 1 and L > 4) or (seg == 3 and L > 7)):
                seg = 16                                             # quick tier: long streams byte by byte only in thorough
            drive_feeder(rec, r, aes, bf, mode, seg, d, p, 8 * L, [8 * s for s in sizes], valid=((k + j) % 3 != 0), post=((k + j) % 7 == 0))
    n_sc = rec.grp - n0
    # the same (configuration, key, iv, stream) under different chunkings on fresh feeders; counter blocks 0 and 1
    for (mode, seg, d, p) in FEEDER_CFGS:
        key = rb(r, 16)
        iv = b"" if mode == "ecb" else rb(r, 16)
        total = 24 if (mode == "cfb" and seg == 1) else 48
        stream = valid_cipher_text(r, aes, bf, mode, key, iv, seg, total) if (d == "dec" and p == "default" and mode in ("ecb", "cbc")) else rb(r, total)
        for j, sizes in enumerate(([total], [total], [1] * 17 + [total - 17], [16, 16, total - 32], [5, 0, total - 5])):
            drive_feeder(rec, r, aes, bf, mode, seg, d, p, total, sizes, key=key, iv=iv, stream=stream, tag="revisit", padform=("const", "built")[j % 2])
    for c in (0, 1):
        for ks in (16, 24, 32):
            key, data = rb(r, ks), rb(r, 16)
            drive_feeder(rec, r, aes, bf, "ctr", 0, "enc", "default", 16, [5, 11], key=key, iv=c.to_bytes(16, "big"), stream=data, tag="ctr-%x" % c)
    # random byte-granular chunkings: 0..5 blocks + 0..15 residual, <= 4 chunks (and some longer / finer ones)
    for j in range(3000 if tier == "thorough" else 224):
        mode, seg, d, p = FEEDER_CFGS[j % len(FEEDER_CFGS)]
        if mode == "cfb" and seg == 3 and j % 2:
            seg = r.choice([2, 5, 7, 8, 13])
        total = 16 * r.randint(0, 5) + r.randint(0, 15)
        if d == "dec" and mode in ("ecb", "cbc") and r.random() < 0.6:
            total -= total % 16
        if mode == "cfb" and seg == 1:
            total = min(total, 50)
        nch = r.randint(0, 4) if j % 5 else r.randint(5, 9)
        cuts = sorted(r.randint(0, total) for _ in range(max(0, nch - 1)))
        sizes = [b - a for a, b in zip([0] + cuts, cuts + [total])] if nch else []
        if not nch:
            total = 0
        drive_feeder(rec, r, aes, bf, mode, seg, d, p, total, sizes, valid=(j % 4 != 0), post=(j % 9 == 0))
    return n_sc


# ------------------------------------------------------------------------------------------------ part 3b: stream helpers
class ChunkedReader(io.RawIOBase):
    """A legal raw input stream (like an unbuffered file, pipe or socket): read(n) hands the data out in the given piece
    sizes (never more than n, at least 1 byte while data is left; full reads once the sizes are used up) and returns b''
    only at the real end.  Every result is logged."""

    def __init__(self, data, sizes, log):
        io.RawIOBase.__init__(self)
        self._data, self._pos, self._sizes, self._log = data, 0, list(sizes), log

    def readable(self):
        return True

    def readinto(self, buf):
        if self._pos >= len(self._data):
            self._log.append(b"")
            return 0
        want = self._sizes.pop(0) if self._sizes else len(buf)
        n = max(1, min(want, len(buf), len(self._data) - self._pos))
        buf[:n] = self._data[self._pos:self._pos + n]
        self._log.append(self._data[self._pos:self._pos + n])
        self._pos += n
        return n


class LoggedBytesIO(io.BytesIO):
    def __init__(self, data, log):
        io.BytesIO.__init__(self, data)
        self._log = log

    def read(self, n=-1):
        b = io.BytesIO.read(self, n)
        self._log.append(b)
        return b


STREAM_BS = [1, 15, 16, 17, 8192]


def drive_stream(rec, aes, bf, mode, seg, direction, padding, key, iv, data, bs, sizes, tag="", padform=None):
    """encrypt_stream / decrypt_stream on an input stream holding `data`; sizes None = io.BytesIO, else a raw stream
    handing the data out in pieces of these sizes.  One event; TLC judges output and error flag against FeederSpec(data)."""
    log = []
    src = LoggedBytesIO(data, log) if sizes is None else ChunkedReader(data, sizes, log)

    class KeepWrites:                                               # out_stream that keeps the very objects it is given
        def __init__(self):
            self.parts = []

        def write(self, b):
            self.parts.append(b)
            return rlen(b)

    out = KeepWrites()
    g = rec.newgrp()
    padform = padform or ("built" if g % 2 else "const")
    tag = (tag + "+" if tag else "") + "padding-string-built-at-run-time" if padform == "built" else tag
    try:
        obj = mk_mode(aes, mode, key, iv, seg)
        (bf.encrypt_stream if direction == "enc" else bf.decrypt_stream)(obj, src, out, block_size=built(bs) if padform == "built" else bs,
                                                                         padding=pad_option(bf, padding, padform))
        err, cls = 0, ""
    except Exception as ex:                                        # noqa: the spec judges raise / no raise
        err, cls = 1, type(ex).__name__
    rec.add({"op": "s.run", "grp": g, "mode": mode, "key": list(key), "iv": list(iv), "seg": seg, "dir": direction, "pad": padding, "bs": bs,
             "data": list(data), "reads": [list(x) for x in log], "out": Raw("cat", *out.parts), "err": err, "cls": cls,
             "src": "bytesio" if sizes is None else "raw", "padform": padform, "tag": tag}, cost=2 * aes_cost(mode, seg, len(data)) + 2)
    rec.settle()
    return g


def record_streams(rec, r, tier, shapes):
    aes, bf, _ = _real()
    n0 = rec.grp

    def inputs(mode, seg, d, p, total, valid=True):
        key = rb(r, r.choice([16, 16, 24, 32]))
        iv = b"" if mode == "ecb" else rb(r, 16)
        if d == "dec" and p == "default" and mode in ("ecb", "cbc") and valid:
            return key, iv, valid_cipher_text(r, aes, bf, mode, key, iv, seg, total)
        return key, iv, rb(r, total)

    # (a) deterministic: the same (configuration, key, iv, data) through every kind of input stream and block_size -
    #     BytesIO, one short read then the end, a short read FOLLOWED BY MORE DATA, reads of exactly block_size, single bytes
    for (mode, seg, d, p) in FEEDER_CFGS:
        total = 32 if (mode == "cfb" and seg == 1) else 80
        key, iv, data = inputs(mode, seg, d, p, total)
        for sizes, bs in ((None, 8192), (None, 16), (None, 17), ([total], 8192), ([total // 2], 8192), ([3, 1, 16], 8192), ([16] * (total // 16), 16),
                          ([], 15), ([5, 16, 1, 17, 3], 17), ([], 1), ([7, 16, 9], 16), (None, 8192)):
            drive_stream(rec, aes, bf, mode, seg, d, p, key, iv, data, bs, sizes, tag="stream-revisit")
        for form in ("const", "built"):
            drive_stream(rec, aes, bf, mode, seg, d, p, key, iv, data, 16, [20, 9], tag="stream-revisit", padform=form)
        key, iv, data = inputs(mode, seg, d, p, 0)
        drive_stream(rec, aes, bf, mode, seg, d, p, key, iv, b"", 16, None, tag="stream-empty")
        drive_stream(rec, aes, bf, mode, seg, d, p, key, iv, b"", 8192, [], tag="stream-empty")
    # (b) S->C: chunkings enumerated by TLC (MC_Feeder) as the piece sizes of a raw stream (1 cell = 8 bytes; empty pieces dropped)
    step = 1 if tier == "thorough" else 6
    for k, (Ln, sizes) in enumerate(shapes[::step]):
        mode, seg, d, p = FEEDER_CFGS[(k * 5 + k // 28) % len(FEEDER_CFGS)]
        if mode == "cfb" and seg == 1 and Ln > 4:
            seg = 16 if tier != "thorough" else 1
        key, iv, data = inputs(mode, seg, d, p, 8 * Ln, valid=(k % 3 != 0))
        drive_stream(rec, aes, bf, mode, seg, d, p, key, iv, data, (STREAM_BS + [8, 24, 40])[k % 8], [8 * x for x in sizes if x], tag="stream-tlc-chunking")
    # (c) random: lengths 0..95, random piece sizes (incl. 0 < n < block_size, n = block_size), random block_size
    for j in range(2000 if tier == "thorough" else 140):
        mode, seg, d, p = FEEDER_CFGS[(j * 3) % len(FEEDER_CFGS)]
        if mode == "cfb" and seg == 3 and j % 2:
            seg = r.choice([2, 5, 7, 8, 13])
        total = 16 * r.randint(0, 5) + r.randint(0, 15)
        if d == "dec" and mode in ("ecb", "cbc") and r.random() < 0.6:
            total -= total % 16
        if mode == "cfb" and seg == 1:
            total = min(total, 40)
        bs = r.choice(STREAM_BS + [r.randint(2, 40)])
        sizes = None if j % 5 == 0 else [r.choice([1, bs, max(1, bs - 1), r.randint(1, 40)]) for _ in range(r.randint(0, 8))]
        key, iv, data = inputs(mode, seg, d, p, total, valid=(j % 4 != 0))
        drive_stream(rec, aes, bf, mode, seg, d, p, key, iv, data, bs, sizes, tag="stream-random")
    return rec.grp - n0


# ------------------------------------------------------------------------------------------------ part 4: adapter
def record_adapter(rec, r, tier, pairs=()):
    _, _, bc = _real()

    class Broken:                                                  # stands in for an object the library failed to create
        def __init__(self, ex):
            self.ex = ex

        def __getattr__(self, name):
            def raiser(*a):
                raise self.ex
            return raiser

    def create(key, iv):
        try:
            return bc.create_AES128(key, iv)
        except Exception as ex:                                    # noqa: every call on it is then logged as raising -> rejected
            return Broken(ex)

    def call(o, key, iv, fn, data, **extra):
        try:
            out, err, cls = getattr(o, fn)(data), 0, ""
        except Exception as ex:                                    # noqa
            out, err, cls = b"", 1, type(ex).__name__
        # data may be the very object an earlier call returned (passed on without a copy); nothing is converted before settle()
        ev = {"op": "ad.call", "key": list(key), "iv": list(iv or b""), "fn": fn, "data": list(data) if isinstance(data, bytes) else Raw("fwd", data),
              "out": Raw("res", out), "err": err, "cls": cls, "alias": 0, "tag": ""}
        ev.update(extra)
        rec.add(ev, cost=blocks(rlen(data)) + 2)
        return out if byteslike(out) else b""

    def datum(kind, n):
        if kind == "zeros":
            return bytes(n)
        d = rb(r, n)
        if kind == "zero-tail":
            z = r.randint(1, n)
            d = d[:n - z] + bytes(z)
        return d

    # systematic: every length 1..64 x {random, ending in a run of 0x00, all zero} x {iv None, iv given} x {same object, two objects}
    for n in range(1, 65):
        for kind in ("random", "zero-tail", "zeros"):
            for with_iv in (False, True):
                key, iv = rb(r, 16), (rb(r, 16) if with_iv else None)
                shared = (n + with_iv) % 2
                o1 = create(key, iv)
                o2 = o1 if shared else create(key, iv)
                d = datum(kind, n)
                try:
                    enc = o1.encrypt(d)
                    dec = o2.decrypt(enc)
                    mac = o1.mac(d)
                    enc2 = o2.encrypt(d)
                except Exception as ex:                            # noqa
                    rec.add({"op": "ad.call", "key": list(key), "iv": list(iv or b""), "fn": "encrypt", "data": list(d), "out": [], "err": 1,
                             "cls": type(ex).__name__, "alias": 0, "hist": -1, "pos": 0, "shared": shared, "obj": 0, "tag": ""})
                    continue
                rec.add({"op": "ad.rt", "key": list(key), "iv": list(iv or b""), "data": list(d), "enc": Raw("res", enc), "dec": Raw("res", dec),
                         "kind": kind, "shared": shared}, cost=2 * blocks(n) + 2)
                rec.add({"op": "ad.call", "key": list(key), "iv": list(iv or b""), "fn": "mac", "data": list(d), "out": Raw("res", mac), "err": 0, "cls": "",
                         "alias": 0, "hist": -1, "pos": 2, "shared": shared, "obj": 0, "tag": ""}, cost=blocks(n) + 2)
                rec.add({"op": "ad.call", "key": list(key), "iv": list(iv or b""), "fn": "encrypt", "data": list(d), "out": Raw("res", enc2), "err": 0, "cls": "",
                         "alias": 0, "hist": -1, "pos": 3, "shared": shared, "obj": 1 - shared, "tag": ""}, cost=blocks(n) + 2)
                rec.settle()
    # deterministic histories on ONE object: the same inputs revisited after every other kind of call (mac after encrypt,
    # mac after mac, short mac after mac, decrypt after mac, encrypt after decrypt, ...), then once more on a fresh object
    hist = 1000000
    for iv in (rb(r, 16), None, bytes(16)):
        for n_long, n_short in ((64, 21), (16, 1), (33, 32)):
            key, P, sh = rb(r, 16), datum("random", n_long), datum("zero-tail", n_short)
            hist += 1
            o, pos = create(key, iv), 0
            C = b""
            for fn, d in (("encrypt", P), ("mac", P), ("mac", P), ("mac", sh), ("decrypt", None), ("mac", P), ("encrypt", sh), ("encrypt", P),
                          ("decrypt", None), ("decrypt", None), ("mac", sh), ("encrypt", P)):
                d = (C or bytes(16)) if d is None else d
                out = call(o, key, iv, fn, d, hist=hist, pos=pos, shared=1, obj=0)
                if fn == "encrypt" and d is P and rlen(out):
                    C = out                                          # the returned object itself is what decrypt gets later
                pos += 1
            for fn, d in (("mac", P), ("encrypt", sh)):
                call(create(key, iv), key, iv, fn, d, hist=hist, pos=pos, shared=0, obj=1)
                pos += 1
            rec.settle()
    # histories: two objects (equal parameters / same key other iv / unrelated), interleaved calls, recurring data
    for h in range(1500 if tier == "thorough" else 120):
        k1, iv1 = rb(r, 16), r.choice([None, bytes(16), rb(r, 16)])
        variant = h % 3
        k2, iv2 = (k1, iv1) if variant == 0 else (k1, rb(r, 16)) if variant == 1 else (rb(r, 16), r.choice([None, rb(r, 16)]))
        params = [(k1, iv1), (k2, iv2)]
        objs = [create(*p) for p in params]
        pool = [datum(r.choice(["random", "zero-tail", "zeros"]), r.randint(1, 64)) for _ in range(3)]
        encs = [[], []]
        for pos in range(r.randint(3, 8)):
            i = r.randrange(2)
            fn = r.choice(["encrypt", "decrypt", "mac", "encrypt"])
            if fn == "decrypt":
                src = encs[i] + encs[1 - i]
                d = r.choice(src) if src and r.random() < 0.7 else rb(r, 16 * r.randint(1, 4))
            else:
                d = r.choice(pool)
            out = call(objs[i], params[i][0], params[i][1], fn, d, hist=h, pos=pos, shared=int(variant == 0), obj=i)
            if fn == "encrypt" and rlen(out):
                encs[i].append(out)
        rec.settle()
    # long data (firmware sized): encrypt / mac / decrypt of more than 256 and more than 4096 bytes, one chaining over the whole input
    hist = 2000000
    for n in ((300, 4097, 4128) if tier != "thorough" else (257, 300, 1000, 4096, 4097, 4112, 4128, 8200, 12289)):
        for iv in (None, rb(r, 16)):
            hist += 1
            key, d = rb(r, 16), datum("random", n)
            o = create(key, iv)
            c = call(o, key, iv, "encrypt", d, hist=hist, pos=0, shared=1, obj=0)
            call(o, key, iv, "mac", d, hist=hist, pos=1, shared=1, obj=0)
            call(o, key, iv, "decrypt", c or bytes(16 * blocks(n)), hist=hist, pos=2, shared=1, obj=0)
            call(create(key, iv), key, iv, "decrypt", rb(r, 16 * blocks(n)), hist=hist, pos=3, shared=0, obj=1)
    # colliding 16-byte keys, back to back on fresh adapter objects (same iv and data), both orders
    hist = 2000000
    for name, k1, k2 in pairs:
        if len(k1) != 16:
            continue
        iv, d, c = r.choice([None, rb(r, 16)]), datum("random", r.randint(17, 48)), rb(r, 32)
        hist += 1
        for pos, key in enumerate((k1, k2, k2, k1)):
            o = create(key, iv)
            for fn, x in (("encrypt", d), ("mac", d), ("decrypt", c)):
                call(o, key, iv, fn, x, hist=hist, pos=pos, shared=0, obj=pos, tag="key-collision-" + name)
        rec.settle()
    # BEYOND THE STATED QUANTIFIER (calls, not instructions, interleave there): several threads pre-empted inside calls
    # (switch interval 10 us) on ONE shared adapter object and on per-thread objects with the same key and iv; inputs are
    # fixed beforehand, results are recorded per thread after all threads have ended and judged as ordinary ad.call events
    nthreads, ncalls = 4, (120 if tier == "thorough" else 52)
    key, iv = rb(r, 16), rb(r, 16)
    shared_obj = create(key, iv)
    plans = []
    for t in range(nthreads):
        plan = []
        for j in range(ncalls):
            fn = ("encrypt", "decrypt", "mac")[(j + t) % 3]
            n = r.randint(200, 2000)
            plan.append((fn, rb(r, n - n % 16 if fn == "decrypt" else n), j % 2))
        plans.append(plan)
    results = [[] for _ in range(nthreads)]
    start = threading.Barrier(nthreads)

    def worker(t):
        own = create(key, iv)
        try:
            start.wait(timeout=60)
        except Exception:                                          # noqa
            pass
        for fn, data, on_shared in plans[t]:
            try:
                results[t].append((getattr(shared_obj if on_shared else own, fn)(data), 0, ""))
            except Exception as ex:                                # noqa
                results[t].append((b"", 1, type(ex).__name__))

    old_interval = sys.getswitchinterval()
    sys.setswitchinterval(1e-5)
    try:
        ths = [threading.Thread(target=worker, args=(t,)) for t in range(nthreads)]
        for th in ths:
            th.start()
        for th in ths:
            th.join()
    finally:
        sys.setswitchinterval(old_interval)
    hist = 3000000
    for t in range(nthreads):
        for pos, ((fn, data, on_shared), res) in enumerate(zip(plans[t], results[t] + [(b"", 1, "thread-died")] * (ncalls - len(results[t])))):
            out, err, cls = res
            rec.add({"op": "ad.call", "key": list(key), "iv": list(iv), "fn": fn, "data": list(data), "out": Raw("res", out), "err": err, "cls": cls,
                     "alias": 0, "tag": "threads-preempted-inside-calls", "hist": -1, "pos": pos, "shared": on_shared, "obj": t}, cost=blocks(len(data)) + 2)
    rec.settle()
    # pad
    for n in list(range(0, 66)) + [r.randint(66, 300) for _ in range(10)]:
        d = datum(r.choice(["random", "zero-tail"]) if n else "zeros", n)
        try:
            out = BL(bc.pad(d))
        except Exception:                                          # noqa
            out = [-1]
        rec.add({"op": "pad", "data": list(d), "out": out})
    # unregistered base class; the registry is restored whatever happens
    try:
        saved = type(bc.create_AES128(bytes(16)))
    except Exception:                                              # noqa: fall back to the registry variable itself
        saved = bc.__dict__.get("__AES128", bc.AES128)
    try:
        bc.register_AES128(bc.AES128)
        o = create(bytes(16), None)
        for what in ("encrypt", "decrypt", "mac"):
            try:
                getattr(o, what)(bytes(16))
                cls = "no-exception"
            except Exception as ex:                                # noqa
                cls = type(ex).__name__
            rec.add({"op": "unreg", "what": what, "cls": cls})
    finally:
        bc.register_AES128(saved)
    if bc.__dict__.get("__AES128", saved) is not saved:
        raise MachineryError("could not restore the registered AES128 class")


# ------------------------------------------------------------------------------------------------ run
def _key(clause, ev):
    tag = ev.get("tag") or ""
    return "C16:" + clause + (":" + tag if tag else "")


def run(tier):
    rep = Report("C16", tier)
    if not shutil.which("openssl"):
        raise MachineryError("openssl CLI not found (oracle for AES.tla)")
    if not shutil.which("java"):
        raise MachineryError("java not found")
    thorough = tier == "thorough"
    r = rng("c16")
    S = lambda n: os.path.join(SPEC, n)
    with Scratch("c16") as wd, cf.ThreadPoolExecutor(max_workers=5 if thorough else 4) as mcpool, cf.ThreadPoolExecutor(max_workers=8) as iopool:
        sub = lambda n: os.path.join(wd, n)
        # ---- S->C source: TLC enumerates every complete chunking of MC_Feeder (one mode is enough: the shapes do not depend on it)
        gen = tlc.require_ok(tlc.run(S("MC_Feeder.tla"), feeder_cfg(2, gen=True, modesel='{"cbc"}'), sub("gen"), workers=1, timeout=300), "MC_Feeder (GEN)")
        shapes = sorted({(v[1], tuple(v[2])) for v in gen.printed if isinstance(v, tuple) and v and v[0] == "SHAPE"})
        if len(shapes) < 1000:
            raise MachineryError("TLC printed only %d chunkings" % len(shapes))
        # ---- MC jobs (background)
        W = 6 if thorough else 4
        jobs = {                                                    # heavy ones first
            "MC_Adapter BLK=2 (<= 4 calls, 2 objects)": (S("MC_Adapter.tla"), adapter_cfg(2), W),
            "MC_Feeder BLK=2 (0..5 blocks + residual, <= 4 chunks)": (S("MC_Feeder.tla"), feeder_cfg(2), W),
            "MC_AESModes BLK=2": (S("MC_AESModes.tla"), modes_cfg(2, 3, 8, True) if thorough else modes_cfg(2, 2, 6), W),
        }
        jobs["MC_FeedStream BLK=2 (stream helpers: every way a raw stream may hand out 0..3 blocks + residual; block_size 1, 2, 3, 8)"] = (
            S("MC_FeedStream.tla"), stream_cfg(2), 2 if not thorough else W)
        if thorough:
            jobs["MC_FeedStream BLK=3 (block_size 1, 2, 3, 4, 9)"] = (S("MC_FeedStream.tla"), stream_cfg(3, bsizes="{1, 2, 3, 4, 9}"), W)
            jobs["MC_AESModes BLK=3 (segment sizes 1..3)"] = (S("MC_AESModes.tla"), modes_cfg(3, 2, 10), W)
            jobs["MC_Feeder BLK=3 (segment sizes 1..3)"] = (S("MC_Feeder.tla"), feeder_cfg(3), W)
            jobs["MC_Adapter BLK=3"] = (S("MC_Adapter.tla"), adapter_cfg(3), W)
        else:
            jobs["MC_Feeder BLK=3 (segment sizes 1..3; 0..3 blocks)"] = (S("MC_Feeder.tla"), feeder_cfg(3, maxblocks=3), W)
        jobs.update({
            "MC_AESTables (14 literal tables and rcon = GF(2^8) definitions, 256 entries each)": (S("MC_AESTables.tla"), TRIV, 1),
            "MC_AESVectors (FIPS-197 App. B/C, SP 800-38A CBC; decrypt inverts encrypt)": (S("MC_AESVectors.tla"), TRIV, 1),
            "MC_AESModesVectors (SP 800-38A App. F, AES-128: ECB CBC CFB8 CFB128 OFB CTR; whole functions and mode objects)": (S("MC_AESModesVectors.tla"), TRIV, 1),
        })
        selftests = {
            "MC_AESModes WRONG=ctr-nocarry": (S("MC_AESModes.tla"), modes_cfg(2, 2, 5, wrong="ctr-nocarry"), "ChunkingIndependent"),
            "MC_AESModes WRONG=cbc-dec-chains-plaintext": (S("MC_AESModes.tla"), modes_cfg(2, 2, 5, wrong="cbc-dec-chains-plaintext"), "ChunkingIndependent"),
            "MC_Feeder WRONG=keeps-nothing-back": (S("MC_Feeder.tla"), feeder_cfg(2, maxblocks=2, wrong="keeps-nothing-back"), "KeepsBack"),
            "MC_Feeder WRONG=final-ignores-mode-state": (S("MC_Feeder.tla"), feeder_cfg(2, maxblocks=3, wrong="final-ignores-mode-state"), "Outcome"),
            "MC_FeedStream SHORT_ENDS=TRUE (a short read taken for the end of the stream)": (S("MC_FeedStream.tla"), stream_cfg(2, 2, short_ends=True), "StreamOutcome"),
            "MC_Adapter ADAPTER_STRIPS=TRUE": (S("MC_Adapter.tla"), adapter_cfg(2, 2, strips=True), "PureResult"),
            "MC_Adapter STATEFUL_IV=TRUE": (S("MC_Adapter.tla"), adapter_cfg(2, 2, stateful=True), "PureResult"),
        }
        futs = {}
        for n, (name, (mod, cfg, w)) in enumerate(jobs.items()):
            futs[name] = mcpool.submit(tlc.run, mod, cfg, sub("mc%d" % n), workers=w, timeout=3000)
        sfuts = {}
        for n, (name, (mod, cfg, inv)) in enumerate(selftests.items()):
            sfuts[name] = mcpool.submit(tlc.run, mod, cfg, sub("st%d" % n), workers=2, timeout=900)

        # ---- record events from the real code
        rc, rm, ra = Rec(), Rec(), Rec()
        pairs = collision_pairs(r)
        record_cipher(rc, rep, r, tier, iopool, pairs)
        oracle_jobs = []
        record_modes(rm, r, tier, oracle_jobs, pairs)
        n_mode_groups = rm.grp
        n_sc = record_feeders(rm, r, tier, shapes)
        n_feeders = rm.grp - n_mode_groups
        n_streams = record_streams(rm, r, tier, shapes)
        record_adapter(ra, r, tier, pairs)
        for rec_ in (rc, rm, ra):
            rec_.settle()                                            # (every driver settles its own histories; nothing may stay unconverted)
        # whole streams through OpenSSL
        oouts = list(iopool.map(lambda j: ossl(j[1], j[2], j[3], j[4], decrypt=(j[5] == "dec")), oracle_jobs))
        for (g, name, key, iv, stream, direction, tag, cost), o in zip(oracle_jobs, oouts):
            rm.add({"op": "m.ossl", "grp": g, "dir": direction, "stream": list(stream), "ossl": list(o), "cipher": name, "tag": tag}, cost=cost)
        # stateful trace: keep every group's events together and in call order
        order = {}
        for e in rm.evs:
            order.setdefault(e["grp"], []).append(e)

        # ---- binding self-test: corrupted canaries, one (or more) per trace spec
        canaries = {}

        skipped = []

        def canary(rec, src, mutate, want, grp_events=None):
            if src is None:                                          # no suitable recorded event (the library deviates badly): see below
                skipped.append(want)
                return
            if grp_events == "own":
                grp_events = order[src["grp"]]
            if grp_events is None:
                ev = dict(src)
                mutate(ev)
                rec.add(ev, cost=src.get("_cost", 1))
                canaries[(id(rec), ev["tid"])] = want
                return
            g = rec.newgrp()
            for e in grp_events:
                ev = dict(e)
                ev["grp"] = g
                ev["tag"] = "canary"
                if e is src:
                    mutate(ev)
                rec.add(ev, cost=e.get("_cost", 1))
                if e is src:
                    canaries[(id(rec), ev["tid"])] = want
                order.setdefault(g, []).append(ev)

        def flip(field, idx=0):
            def m(ev):
                v = list(ev[field])
                if idx < len(v):
                    v[idx] ^= 1
                else:
                    v.append(1)
                ev[field] = v
            return m

        first = lambda rec, pred: next((e for e in rec.evs if pred(e)), None)
        canary(rc, first(rc, lambda e: e["op"] == "blk"), flip("ct", 5), "encrypt-differs-from-fips197")
        canary(rc, first(rc, lambda e: e["op"] == "tab" and e["name"] == "T3" and e["x"] == 77), flip("v", 2), "table-T3")
        canary(rc, first(rc, lambda e: e["op"] == "tab" and e["name"] == "Si" and e["x"] == 9), flip("v", 0), "table-Si")
        canary(rc, first(rc, lambda e: e["op"] == "oblk"), flip("ct", 15), "spec-differs-from-openssl")
        canary(rm, first(rm, lambda e: e["op"] == "m.call" and e["err"] == 0 and len(e["out"]) >= 16), flip("out", 3), "mode-call-output", "own")
        canary(rm, first(rm, lambda e: e["op"] == "m.ossl" and len(e["ossl"]) >= 16), flip("ossl", 1), "spec-differs-from-openssl", "own")
        canary(rm, first(rm, lambda e: e["op"] == "f.feed" and e["fin"] == 1 and e["err"] == 0 and len(e["out"]) >= 16), flip("out", 0), "feed-output", "own")
        canary(rm, first(rm, lambda e: e["op"] == "f.end" and e["err"] == 0 and len(e["outs"]) >= 16), flip("outs", 7), "feeder-stream-differs-from-spec", "own")
        canary(rm, first(rm, lambda e: e["op"] == "s.run" and e["err"] == 0 and len(e["out"]) >= 16 and e["src"] == "raw"), flip("out", 2),
               "stream-helper-output-differs-from-spec", "own")

        def drop_tail(ev):                                          # what a helper that stops at the first short read would log and write
            ev["reads"] = ev["reads"][:1]
            ev["out"] = ev["out"][:16 * (len(ev["reads"][0]) // 16)]
        canary(rm, first(rm, lambda e: e["op"] == "s.run" and e["err"] == 0 and e["src"] == "raw" and len(e["reads"]) >= 3 and e["mode"] == "ctr"
                         and 16 <= len(e["reads"][0]) < len(e["data"])), drop_tail, "stream-helper-stopped-reading-before-end-of-stream", "own")
        canary(ra, first(ra, lambda e: e["op"] == "ad.call" and e["fn"] == "mac"), flip("out", 4), "adapter-mac-differs-from-pure-function")

        def strip(ev):                                              # what the plug-in did before the fix in /repo
            d = list(ev["dec"])
            while d and d[-1] == 0:
                d.pop()
            ev["dec"] = d
        canary(ra, first(ra, lambda e: e["op"] == "ad.rt" and e["kind"] == "zero-tail" and len(e["data"]) == 21), strip, "decrypt-strips-trailing-zeros")
        canary(ra, first(ra, lambda e: e["op"] == "pad" and len(e["data"]) == 5), flip("out", 9), "pad-not-zero-padding")
        canary(ra, first(ra, lambda e: e["op"] == "unreg"), lambda ev: ev.update(cls="ValueError"), "base-class-" + (first(ra, lambda e: e["op"] == "unreg") or {"what": ""})["what"])

        rm_events = [e for g in sorted(order) for e in order[g]]
        # ---- trace validation (TLC computes every expected value), the three specs side by side
        sh = 16 if thorough else 8
        tfuts = {
            "aes": iopool.submit(tlc.validate_trace, S("Trace_AES.tla"), TRIV, rc.evs, sub("t_aes"), shards=sh, timeout=3000),
            "modes": iopool.submit(tlc.validate_trace, S("Trace_AESModes.tla"), TRIV, rm_events, sub("t_modes"), shards=16 if thorough else 12, timeout=3000, by="grp"),
            "adapter": iopool.submit(tlc.validate_trace, S("Trace_Adapter.tla"), TRIV, ra.evs, sub("t_ad"), shards=12 if thorough else 8, timeout=3000),
        }
        res = {k: f.result() for k, f in tfuts.items()}
        for k in res:
            st = dict(res[k][1])
            st["events_in_tlc_run"] = st.pop("events")
            res[k] = (res[k][0], st)

        # ---- judge
        doubts = ["no recorded event to build the canary for %r from" % w for w in skipped]
        for tag, rec in (("aes", rc), ("modes", rm), ("adapter", ra)):
            rej, _ = res[tag]
            byid = {e["tid"]: e for e in rec.evs}
            seen = set()
            for x in rej:
                tid, clause = x[1], x[2]
                seen.add(tid)
                if (id(rec), tid) in canaries:
                    if canaries[(id(rec), tid)] != clause:
                        doubts.append("canary %d of %s rejected by clause %r, expected %r" % (tid, tag, clause, canaries[(id(rec), tid)]))
                    continue
                e = {k: v for k, v in byid[tid].items() if not k.startswith("_")}
                if e.get("tag") == "canary":
                    continue
                data = {"trace_spec": {"aes": "Trace_AES", "modes": "Trace_AESModes", "adapter": "Trace_Adapter"}[tag], "clause": clause, "event": e}
                if e["op"] == "ad.call" and e.get("hist", -1) >= 0:  # the history on the two objects up to and including the call
                    data["group"] = [{k: v for k, v in x.items() if not k.startswith("_")} for x in rec.evs
                                     if x["op"] == "ad.call" and x.get("hist") == e["hist"] and x["tid"] <= tid]
                if e["op"] in ("blk", "dblk"):                       # every call of the history on that cipher object
                    data["group"] = [{k: v for k, v in x.items() if not k.startswith("_")} for x in rec.evs
                                     if x["op"] == e["op"] and x.get("hist") == e.get("hist") and (id(rec), x["tid"]) not in canaries]
                if "grp" in e:                                       # stateful: the whole life of the object up to and including the event
                    data["group"] = [{k: v for k, v in x.items() if not k.startswith("_")} for x in order[e["grp"]] if x["tid"] <= tid]
                rep.violation(_key(clause, e), "%s event rejected by the specification: %s%s" % (
                    e["op"], clause, " (%s raised)" % e["cls"] if e.get("cls") else ""), data)
            for (rid, tid), want in canaries.items():
                if rid == id(rec) and tid not in seen:
                    raise MachineryError("binding self-test: corrupted %s event (%s) was accepted by the trace spec" % (tag, want))
        ncan = len(canaries)
        if doubts and not rep.violations:                            # with violations reported the deviating library explains them
            raise MachineryError("binding self-test: " + "; ".join(doubts))

        def count(rec, pred):
            return sum(1 for e in rec.evs if pred(e) and e.get("tag") != "canary" and (id(rec), e["tid"]) not in canaries)

        n_tab = count(rc, lambda e: e["op"] in ("tab", "tablen"))
        n_blk = count(rc, lambda e: e["op"] in ("blk", "dblk"))
        n_ob = count(rc, lambda e: e["op"] == "oblk")
        st = res["aes"][1]
        rep.add_trace("Trace_AES tables (S, Si, T1..T8, U1..U4, rcon entry by entry vs GF(2^8) definitions)", st, n_tab, extra={"exhaustive": True})
        rep.add_trace("Trace_AES blocks (pyaes.AES encrypt/decrypt, 128/192/256-bit keys, random + NIST inputs, vs FIPS-197 spec)", {}, n_blk)
        rep.add_trace("Trace_AES oracle (AES.tla vs openssl enc -aes-{128,192,256}-ecb -nopad)", {}, n_ob, spec_computed=False,
                      extra={"pairs": n_ob, "openssl": "3.x CLI"})
        st = res["modes"][1]
        n_m = count(rm, lambda e: e["op"] in ("m.new", "m.call", "m.end"))
        n_mo = count(rm, lambda e: e["op"] == "m.ossl")
        n_f = count(rm, lambda e: e["op"].startswith("f."))
        rep.add_trace("Trace_AESModes mode objects (ECB CBC CFB(s) OFB CTR replayed call by call + whole stream vs SP 800-38A functions)", st, n_m,
                      extra={"objects": n_mode_groups, "calls": count(rm, lambda e: e["op"] == "m.call"),
                             "rejected-size calls": count(rm, lambda e: e["op"] == "m.call" and e["err"] == 1)})
        rep.add_trace("Trace_AESModes oracle (whole streams vs openssl enc -aes-N-{ecb,cbc,cfb,cfb8,ofb,ctr} -nopad)", {}, n_mo, spec_computed=False)
        rep.add_trace("Trace_AESModes feeders (Encrypter/Decrypter.feed replayed; whole stream vs FeederSpec)", {}, n_f,
                      extra={"feeders": n_feeders, "S->C: feeders driven with a chunking enumerated by TLC": n_sc,
                             "TLC chunkings (all of MC_Feeder BLK=2)": len(shapes), "configurations": len(FEEDER_CFGS),
                             "error outcomes": count(rm, lambda e: e["op"] == "f.end" and e["err"] == 1)})
        n_s = count(rm, lambda e: e["op"] == "s.run")
        rep.add_trace("Trace_AESModes stream helpers (encrypt_stream / decrypt_stream on BytesIO and raw streams with short reads vs FeederSpec)", {}, n_s,
                      extra={"runs": n_streams, "block_size values": sorted({e["bs"] for e in rm.evs if e["op"] == "s.run"}),
                             "runs with a short read followed by more data": count(rm, lambda e: e["op"] == "s.run" and any(
                                 0 < len(x) < e["bs"] for x in e["reads"][:-2])),
                             "error outcomes": count(rm, lambda e: e["op"] == "s.run" and e["err"] == 1)})
        st = res["adapter"][1]
        rep.add_trace("Trace_Adapter (create_AES128 encrypt/decrypt/mac histories, round trips for every length 1..64, pad, base class)", st,
                      count(ra, lambda e: True), extra={"round trips": count(ra, lambda e: e["op"] == "ad.rt"),
                                                        "history calls": count(ra, lambda e: e["op"] == "ad.call" and e.get("hist", -1) >= 0),
                                                        "calls made by 4 threads pre-empted inside calls, shared and per-thread objects "
                                                        "(beyond the stated quantifier: there whole calls interleave)":
                                                            count(ra, lambda e: e.get("tag") == "threads-preempted-inside-calls")})
        kc = lambda rec: count(rec, lambda e: str(e.get("tag", "")).startswith("key-collision-"))
        rep.cov["parts"]["colliding keys"] = {
            "kind": "inputs", "pairs": len(pairs), "digests": sorted({p[0] for p in pairs}), "key lengths": [16, 24, 32],
            "events (block cipher / modes / adapter), counted in the parts above": [kc(rc), kc(rm), kc(ra)]}
        for e in (first(rc, lambda e: e["op"] == "tab" and e["name"] == "T1" and e["x"] == 1), first(rc, lambda e: e["op"] == "blk"),
                  first(rc, lambda e: e["op"] == "oblk"), first(rm, lambda e: e["op"] == "m.call" and e["err"] == 0 and 0 < len(e["data"]) <= 16),
                  first(rm, lambda e: e["op"] == "f.feed" and e["fin"] == 1 and e["err"] == 0), first(ra, lambda e: e["op"] == "ad.rt" and len(e["data"]) == 5)):
            if e is not None:
                rep.sample({k: v for k, v in e.items() if not k.startswith("_")})

        # ---- collect MC results
        rep.add_mc("MC_Feeder GEN (enumeration of all chunkings for S->C)", gen, {"chunkings": len(shapes)})
        for name, f in futs.items():
            rep.add_mc(name, tlc.require_ok(f.result(), name))
        done = []
        for name, f in sfuts.items():
            bad = f.result()
            if not bad.violated or bad.completed:
                raise MachineryError("self-test: %s was not refuted by TLC (%s):\n%s" % (name, bad.violated, bad.clean()[-1500:]))
            done.append(name + " refuted (" + ", ".join(bad.violated) + ")")
        rep.cov["parts"]["selftest"] = {"deviation switches / wrong variants refuted by TLC": done,
                                        "corrupted canary events rejected by the trace specs": ncan}
    rep.cov["exhaustive"] = True
    rep.cov["explanation"] = ("exhaustive: table entries (definitions and real tables), chunkings/histories of the bounded instances; "
                              "sampled: keys, blocks, IVs, counter values, stream contents on the 16-byte instance")
    rep.assumptions += [
        "TLC's Bitwise (^^), Sequences and integer arithmetic",
        "chunking/history independence does not depend on the block cipher: exhausted with an arbitrary keyed permutation on 2- and 3-cell blocks, "
        "bound to AES by replaying every TLC-enumerated chunking (1 cell = 8 bytes) and random byte-granular ones on the real code",
        "SP 800-38A / FIPS-197 literals typed from the standards and confirmed with OpenSSL (no network in the sandbox)",
        "feeder padding none is defined for >= 1 whole block (block modes); CFB with padding none and the lenient PKCS#7 strip "
        "(only the last byte is inspected, 0 removes the block) are modelled as pyaes behaves - not part of the property",
        "adapter domain: data length >= 1, decrypt input a positive multiple of 16 bytes, 16-byte keys",
        "the multi-thread adapter histories (pre-emption INSIDE a call on a shared object) go beyond the property's quantifier "
        "(interleavings of whole calls); they are judged like any other call and the clean tree passes them",
    ]
    return rep


# ------------------------------------------------------------------------------------------------ replay of a reported violation
def _redo(evs):
    """Re-execute the recorded calls on the code in /repo now; returns fresh events with the same inputs."""
    aes, bf, bc = _real()
    out, obj, acc, objs, batches = [], None, None, {}, {}
    for e in evs:
        n, op = dict(e), e["op"]
        if op == "tab":
            w = getattr(aes.AES, e["name"])[e["x"]]
            n["v"] = list(w.to_bytes(4, "big")) if e["name"][0] in "TU" else [w]
        elif op == "tablen":
            n["n"] = len(getattr(aes.AES, e["name"]))
        elif op in ("blk", "dblk"):
            hk = (op, e.get("hist"))
            if hk not in batches:                                    # the whole history at once: all encrypts, all decrypts, then read
                batch = [x for x in evs if x["op"] == op and x.get("hist") == e.get("hist")]
                one = bool(e.get("one", 1))
                a = aes.AES(bytes(e["key"]))
                fresh = lambda: a if one else aes.AES(bytes(e["key"]))
                args = [list(x["pt" if op == "blk" else "ct"]) for x in batch]
                cs = [fresh().encrypt(g) for g in args] if op == "blk" else args
                ds = [fresh().decrypt(c) for c in cs]
                batches[hk] = {x["tid"]: (args[j], cs[j], ds[j]) for j, x in enumerate(batch)}
            arg, c, d = batches[hk][e["tid"]]
            n["arg"], n["alias"] = Raw("arg", arg), 0
            if op == "blk":
                n["ct"], n["dt"] = Raw("res", c), Raw("res", d)
            else:
                n["pt"] = Raw("res", d)
        elif op == "oblk":
            n["ct"] = list(ossl("aes-%d-ecb" % (8 * len(e["key"])), bytes(e["key"]), None, bytes(e["pt"])))
        elif op in ("m.new", "f.new"):
            cfg = e
            obj = mk_mode(aes, e["mode"], bytes(e["key"]), bytes(e["iv"]), e["seg"], none_iv=e.get("tag", "").endswith("-iv-none"))
            if op == "f.new":
                obj = (bf.Encrypter if e["dir"] == "enc" else bf.Decrypter)(obj, padding=pad_option(bf, e["pad"], e.get("padform", "const")))
            acc = [b"", [], 0]
        elif op in ("m.call", "f.feed"):
            try:
                if op == "m.call":
                    o = (obj.encrypt if e["dir"] == "enc" else obj.decrypt)(bytes(e["data"]))
                else:
                    o = obj.feed(None if e["fin"] else bytes(e["data"]))
                n["out"], n["err"], n["cls"], n["alias"] = Raw("res", o), 0, "", 0
                if not (op == "f.feed" and acc[2]):
                    acc[0] += bytes(e["data"])
                    acc[1].append(o)
            except Exception as ex:                                # noqa
                n["out"], n["err"], n["cls"], n["alias"] = [], 1, type(ex).__name__, 0
                if op == "f.feed" and not (e["fin"] == 0 and e["data"] == [120] and acc[2] == 2):
                    acc[2] = 1
            if op == "f.feed" and e["fin"] and not n["err"]:
                acc[2] = 2                                           # finished; later feeds are the after-finish probes
        elif op == "s.run":
            tmp = Rec()
            sizes = None if e["src"] == "bytesio" else [len(x) for x in e["reads"] if x]
            drive_stream(tmp, aes, bf, e["mode"], e["seg"], e["dir"], e["pad"], bytes(e["key"]), bytes(e["iv"]), bytes(e["data"]), e["bs"], sizes,
                         tag="", padform=e.get("padform", "const"))
            tmp.evs[0]["tag"] = e.get("tag", "")
            n = {k: v for k, v in tmp.evs[0].items() if not k.startswith("_")}
            n["grp"], n["tid"] = e["grp"], e["tid"]
        elif op == "m.end":
            n["stream"], n["outs"] = list(acc[0]), Raw("cat", *acc[1])
        elif op == "f.end":
            n["outs"], n["err"] = Raw("cat", *acc[1]), 1 if acc[2] == 1 else 0
        elif op == "m.ossl":
            n["ossl"] = list(ossl(e["cipher"], bytes(cfg["key"]), None if cfg["mode"] == "ecb" else bytes(cfg["iv"]), bytes(e["stream"]), decrypt=(e["dir"] == "dec")))
        elif op == "ad.call":
            k = (e.get("hist", -1), e.get("obj", 0)) if e.get("hist", -1) >= 0 else ("x", len(out))
            if k not in objs:
                objs[k] = bc.create_AES128(bytes(e["key"]), bytes(e["iv"]) if e["iv"] else None)
            try:
                n["out"], n["err"], n["cls"], n["alias"] = Raw("res", getattr(objs[k], e["fn"])(bytes(e["data"]))), 0, "", 0
            except Exception as ex:                                # noqa
                n["out"], n["err"], n["cls"], n["alias"] = [], 1, type(ex).__name__, 0
        elif op == "ad.rt":
            o1 = bc.create_AES128(bytes(e["key"]), bytes(e["iv"]) if e["iv"] else None)
            o2 = o1 if e.get("shared") else bc.create_AES128(bytes(e["key"]), bytes(e["iv"]) if e["iv"] else None)
            enc = o1.encrypt(bytes(e["data"]))
            n["enc"], n["dec"] = Raw("res", enc), Raw("res", o2.decrypt(enc))
        elif op == "pad":
            n["out"] = list(bc.pad(bytes(e["data"])))
        elif op == "unreg":
            saved = type(bc.create_AES128(bytes(16)))
            try:
                bc.register_AES128(bc.AES128)
                try:
                    getattr(bc.create_AES128(bytes(16)), e["what"])(bytes(16))
                    n["cls"] = "no-exception"
                except Exception as ex:                            # noqa
                    n["cls"] = type(ex).__name__
            finally:
                bc.register_AES128(saved)
        out.append(n)
    settle_events(out)                                               # nothing was read from a returned object before this point
    return out


def replay(path):
    """bin/check C16 --replay <file>: re-executes the recorded calls on /repo and lets TLC judge them again.
    Exit 0 = accepted now, 1 = still rejected."""
    with open(path) as fh:
        d = json.load(fh)
    data = d["data"]
    evs = _redo(data.get("group") or [data["event"]])
    with Scratch("c16r") as wd:
        rej, _ = tlc.validate_trace(os.path.join(SPEC, data["trace_spec"] + ".tla"), TRIV, evs, wd, shards=1, by="grp" if "grp" in evs[0] else "tid")
    for x in rej:
        print("  rejected again: tid %s clause %s" % (x[1], x[2]))
    if rej:
        print("VIOLATION property=C16 replay=%s" % path)
        return 1
    print("replay %s: accepted by %s (%d events re-executed)" % (path, data["trace_spec"], len(evs)))
    return 0
