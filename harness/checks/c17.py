"""C17: elliptic-curve arithmetic, ECDH and public-point validation.

MC    MC_ECGroup: group axioms, Mul homomorphism, N*P = Inf, Jacobian classes, ECDH symmetry, ValidPub -- exhaustive
      on tiny curves (prime order; one curve of cofactor 2 for the public-key order check).
      Self-test: the law without the `a` term in the tangent slope must be refuted by TLC.
C->S  Trace_ECGroup: the tiny curves are instantiated with the library's own CurveFp / PointJacobi / Point / Curve /
      VerifyingKey / ECDH; every pair of group elements x Jacobian scalings through + double - * mul_add == ...,
      every (x, y) in (0..p+1)^2 as a public key in every encoding, ECDH for all key pairs.  TLC computes the
      expected result of every event from the affine law.
      Entry points: invalid / foreign points are offered through EVERY public loading entry point and argument form
      (from_public_point with PointJacobi, with affine Point, with a Point/PointJacobi living on another curve object;
      from_string raw/uncompressed/hybrid/compressed; from_der / from_pem; ECDH.load_received_public_key[_bytes|_der|_pem];
      the low-level ecdsa.Public_key constructor), all judged by the one rejection clause (ValidPub / OpenSSL pubcheck).
      Table path: generator=True points in several projective scalings (Z != 1), odd and even k (TLC on the tiny curves,
      OpenSSL on the shipped ones) next to the NAF path.
      Cofactor curves: model curve TH4 (|E| = 28, n = 7, h = 4): the group law on ALL finite points (most of them outside
      <G>), as objects without a declared order (any scalar: n, 2n, h*n, n+-1 ...) and with the declared order n (scalars
      below 2n), key loading / ECDH refusal for every point incl. objects that declare the order n; SECP112r2: crafted
      points of order 2, 2n, 4, 4n through every entry point, also as objects declaring order n (OpenSSL judges).
      Long-lived objects: one ECDH object through 60-70 peers loaded in turn (bytes / DER / PEM / object), no references
      kept, gc in between, private key re-loaded: every secret judged like a fresh one (TLC / openssl derive).
      Look-alike Curve objects (same OID / name / p and a, other b / generator / order value / missing OID) as peer curve
      in every ECDH call sequence; scalar value classes with long runs and periodic bit patterns through both point classes.
      Error paths: the first multiplication of a fresh generator=True point is interrupted (a private BaseException raised
      from a sys.settrace line event, EVERY position inside PointJacobi._maybe_precompute on the tiny curves, sampled
      positions on all shipped curves), the exception swallowed, and later multiplications on the same object are judged
      like any other (TLC / OpenSSL); also a refused generator (order None, AssertionError) followed by fresh valid ones.
      Trace_ECOracle: on the 17 shipped curves the library's byte strings are compared with OpenSSL's
      (k*G, P+Q, 2P, -P, mul_add, ECDH secrets both ways, accept/reject of crafted and mutated points)."""
import os, concurrent.futures as cf

from ..common import SPEC, Scratch, rng, MachineryError
from ..report import Report
from .. import tlc, eclib
from ..eclib import TINY

MC_INV = "Closure Commut Ident Inverse Assoc MulIsRep MulHom MulDistr MulAddDef OrderDiv PrimeOrder Jacobian".split()
TRACE_CFG = "INIT Init\nNEXT Next\n"


def _mc_cfg(name, invs):
    return "INIT Init\nNEXT Next\n" + eclib.consts(name) + "".join("INVARIANT %s\n" % i for i in invs)


# ====================================================================== tiny curves: recording
class Rec:
    def __init__(self):
        self.evs = []
        self.tid = 0

    def ev(self, op, via="", a=(0, 0, 0), b=(0, 0, 0), k=0, m=0, out=(1, 0, 0), s="ok", **kw):
        self.tid += 1
        e = {"tid": self.tid, "op": op, "via": via, "a": [int(x) for x in a], "b": [int(x) for x in b],
             "k": int(k), "m": int(m), "out": [int(x) for x in out], "s": s}
        e.update(kw)
        self.evs.append(e)
        return e


def _jac(p, pt, l):
    """input construction: the representative (l^2 x, l^3 y, l) of a finite point, (l^2, l^3, 0) of infinity"""
    if pt is None:
        return ((l * l) % p, (l * l * l) % p, 0)
    return ((l * l * pt[0]) % p, (l * l * l * pt[1]) % p, l % p)


K0_INT = 5          # multiplier of the interrupted first call in the error-path histories


class Tiny:
    """the library on one tiny curve; run() executes the call described by the fields of an event, so that a
    recorded event can be executed again (triage of rejected events against the proposed patch)"""

    def __init__(self, name):
        from register_crypto_plugin.ecdsa.ellipticcurve import PointJacobi, Point, INFINITY
        from register_crypto_plugin.ecdsa import keys, ecdh as ecdh_mod
        self.PointJacobi, self.Point, self.INFINITY, self.keys, self.ecdh = PointJacobi, Point, INFINITY, keys, ecdh_mod
        self.name = name
        self.p, _, _, _, _, self.n, self.h = TINY[name]
        self.c, self.G, self.cv = eclib.tiny_curve(name)

    def aff(self, res):
        INFINITY = self.INFINITY
        if res is INFINITY or res == INFINITY:
            return (1, 0, 0)
        if isinstance(res, self.PointJacobi):
            t = res.to_affine()
            if t is INFINITY:
                return (1, 0, 0)
            return (0, int(t.x()), int(t.y()))
        return (0, int(res.x()), int(res.y()))

    def build(self, kind, co, order=None, gen=False):
        if kind == "INF":
            return self.INFINITY
        if kind == "aff":
            return self.Point(self.c, co[0], co[1], order)
        return self.PointJacobi(self.c, co[0], co[1], co[2], order, gen)

    def _point(self, op, via, a, b, k, m):
        n, build = self.n, self.build
        if op == "add":
            ka, kb = via.split("+")
            return build(ka, a) + build(kb, b)
        if op == "negadd":
            ka, kb = via.split(",")
            return (-build(ka, a)) + build(kb, b)
        if op == "dbl":
            return build(via, a).double()
        if op == "neg":
            return -build(via, a)
        if op == "conv":
            if via == "to_affine":
                return build("jac", a).to_affine()
            if via == "scale":
                return build("jac", a).scale()
            o = build("jac", a)
            return self.Point(None, o.x(), o.y())
        if op == "mul":
            if via == "jac":
                return build("jac", a) * k
            if via == "jac-ord":
                return build("jac", a, n) * k
            if via == "gen":
                return build("jac", a, n, True) * k
            if via.startswith("gen-int"):
                # error-path history: the FIRST multiplication of a fresh generator=True point (which builds the table of
                # 2^i*P lazily) is interrupted at the N-th line of _maybe_precompute; the exception is swallowed; the
                # multiplication judged is a LATER, ordinary one on the same object (gen-int2: the second later one)
                g = build("jac", a, n, True)
                eclib.interrupted(eclib.precompute_code(), int(via.split(":")[1]), lambda: g * K0_INT)
                if via.startswith("gen-int2"):
                    g * (k + 3)
                return g * k
            if via == "gen-after-assert":
                # legitimate failure first: a generator without order cannot build its table (AssertionError) ...
                try:
                    build("jac", a, None, True) * 5
                except Exception:
                    pass
                return build("jac", a, n, True) * k          # ... a fresh valid generator must still work
            if via == "rmul":
                return k * build("jac", a, n)
            if via == "aff":
                return build("aff", a) * k
            if via == "aff-ord":
                return build("aff", a, n) * k
            if via == "INF":
                return self.INFINITY * k
        if op == "muladd":
            how, kb = via.split(":")
            g1, g2 = how in ("gen-self", "gen-both"), how == "gen-both"
            return build("jac", a, n, g1).mul_add(k, build(kb, b, n, g2), m)
        raise MachineryError("unknown tiny call %s %s" % (op, via))

    def run(self, op, via, a=(0, 0, 0), b=(0, 0, 0), k=0, m=0):
        """-> fields of the event that the call determines"""
        try:
            if op == "eq":
                ka, kb = via.split(",")
                return {"k": 1 if self.build(ka, a) == self.build(kb, b) else 0, "s": "ok"}
            if op == "ecdh":
                keys, cv = self.keys, self.cv
                skA = keys.SigningKey.from_secret_exponent(k, cv)
                skB = keys.SigningKey.from_secret_exponent(m, cv)
                eA = self.ecdh.ECDH(cv, skA, skB.get_verifying_key())
                eB = self.ecdh.ECDH(cv)
                eB.load_private_key(skB)
                eB.load_received_public_key_bytes(skA.get_verifying_key().to_string("uncompressed"))
                return {"a": (int(eA.generate_sharedsecret()), int.from_bytes(eB.generate_sharedsecret_bytes(), "big"), 0), "s": "ok"}
            return {"out": self.aff(self._point(op, via, a, b, k, m)), "s": "ok"}
        except MachineryError:
            raise
        except Exception as e:
            if op == "eq":
                return {"k": 2, "s": "raise:" + eclib.mro(e)}
            if op == "ecdh":
                return {"a": (0, 0, 0), "s": "raise:" + eclib.mro(e)}
            return {"out": (2, 0, 0), "s": "raise:" + eclib.mro(e)}


class PatchedAddZ1:
    """PointJacobi._add_with_z_1 with the proposed one-line patch, in memory only (/repo is not touched).
    Used to attribute rejected events: an event whose result equals the specification's once the patch is
    applied is an occurrence of finding C17:add-z1-unreduced-y; anything else stays a separate violation."""
    OLD, NEW = "r = 2 * (Y2 - Y1)\n", "r = 2 * (Y2 - Y1) % p\n"

    def __enter__(self):
        import inspect, textwrap
        from register_crypto_plugin.ecdsa import ellipticcurve as ec
        self.ec, self.orig, self.active = ec, ec.PointJacobi.__dict__.get("_add_with_z_1"), False
        if self.orig is None:
            return self                     # the helper has another name now: nothing to attribute (never an alarm by itself)
        try:
            src = textwrap.dedent(inspect.getsource(self.orig))
        except (OSError, TypeError):
            return self
        if self.OLD not in src:
            return self                     # already repaired (or rewritten): nothing to attribute
        ns = {}
        exec(compile("class PointJacobi:\n" + textwrap.indent(src.replace(self.OLD, self.NEW), "    "), "<proposed patch>", "exec"),
             dict(ec.__dict__), ns)
        ec.PointJacobi._add_with_z_1 = ns["PointJacobi"].__dict__["_add_with_z_1"]
        self.active = True
        return self

    def __exit__(self, *a):
        if self.active:
            self.ec.PointJacobi._add_with_z_1 = self.orig


def _record_tiny(name, tier, r):
    T = Tiny(name)
    PointJacobi, Point, INFINITY, keys, ecdh_mod = T.PointJacobi, T.Point, T.INFINITY, T.keys, T.ecdh
    p, a_, b_, gx, gy, n, h = TINY[name]
    c, G, cv = T.c, T.G, T.cv
    rec = Rec()
    pts = eclib.tiny_points(name)
    group = [None] + pts
    thorough = tier == "thorough"
    full = thorough and p <= 17
    lams = list(range(1, p)) if full else sorted({1, 2, p - 1, r.randrange(3, p - 1)} | ({r.randrange(3, p - 1), 3} if thorough else set()))
    lam_few = lams if not full else [1, 2, p - 1, 5]

    def do(op, via, a=(0, 0, 0), b=(0, 0, 0), k=0, m=0):
        f = dict(op=op, via=via, a=a, b=b, k=k, m=m)
        f.update(T.run(op, via, a, b, k, m))
        rec.ev(**f)

    def reps(pt, ls):
        """(kind, coords) of every representation driven for this group element"""
        if pt is None:
            return [("INF", (1, 1, 0)), ("jac", (0, 0, 1))] + [("jac", _jac(p, None, l)) for l in ls[:2]]
        return [("jac", _jac(p, pt, l)) for l in ls] + [("aff", (pt[0], pt[1], 1))]

    if h == 1:
        # ---------------- + / (-A)+B / == on every pair of group elements x representations
        for pa in group:
            for pb in group:
                for ka, ca in reps(pa, lams):
                    for kb, cb in reps(pb, lams):
                        do("add", ka + "+" + kb, ca, cb)
                for ka, ca in reps(pa, lam_few):
                    for kb, cb in reps(pb, lam_few):
                        do("negadd", ka + "," + kb, ca, cb)
                        if ka == "jac" and ca[2] != 0 and (kb != "jac" or cb[2] != 0):
                            # (X, Y, 0) is not a representation the library itself produces: not offered to ==
                            do("eq", ka + "," + kb, ca, cb)
        # ---------------- double, negation, conversions
        for pa in group:
            for ka, ca in reps(pa, lams):
                do("dbl", ka, ca)
                do("neg", ka, ca)
                if ka == "jac":
                    do("conv", "to_affine", ca)
                    if not (ca[1] == 0 or ca[2] == 0):
                        do("conv", "x(),y()", ca)
                        do("conv", "scale", ca)
        # ---------------- scalar multiplication
        ks = {0, 1, 2, 3, n - 1, n, n + 1, 2 * n - 1, 2 * n, 2 * n + 1}
        for j in range(1, 13 if thorough else 11):
            ks |= {2 ** j, 2 ** j - 1}
        ks |= {r.randrange(2 * n + 1) for _ in range(12 if thorough else 5)}
        ks |= set(eclib.pattern_scalars((6, 9, 11, 12) if thorough else (11,), n))
        ks = sorted(ks)
        for pa in group:
            for ka, ca in reps(pa, lams):
                for k in ks:
                    if ka == "jac":
                        for via in ("jac", "jac-ord", "gen", "rmul"):
                            if via == "gen" and pa is None:
                                continue          # a generator is never the point at infinity
                            do("mul", via, ca, k=k)
                    elif ka == "aff":
                        do("mul", "aff", ca, k=k)
                        do("mul", "aff-ord", ca, k=k)
                    else:
                        do("mul", "INF", ca, k=k)
        # ---------------- mul_add
        kk = [(0, 3), (3, 0), (n - 1, 1), (2, n + 1)] + ([(1, 1), (8, 7)] if thorough else []) + \
             [(r.randrange(2 * n + 1), r.randrange(2 * n + 1)) for _ in range(6 if thorough else 1)]
        if thorough:
            combos = [(l1, l2) for l1 in lams for l2 in lams]
            combos = r.sample(combos, min(len(combos), 24))
        else:
            combos = [(1, 1), (2, 2), (lams[-1], 2)]
        for pa in group:
            for pb in group:
                ops = [(_jac(p, pa, l1), ("jac", _jac(p, pb, l2))) for l1, l2 in combos]
                if pb is not None:
                    ops.append((_jac(p, pa, 2), ("aff", (pb[0], pb[1], 1))))
                else:
                    ops.append((_jac(p, pa, 2), ("INF", (1, 1, 0))))
                    ops.append((_jac(p, pa, 1), ("jac", (0, 0, 1))))
                for ca, (kb, cb) in ops:
                    for k1, k2 in kk:
                        for how in ("plain", "gen-self", "gen-both"):
                            if (how == "gen-both" and (kb != "jac" or pb is None)) or (how != "plain" and pa is None):
                                continue          # precomputation tables only for finite PointJacobi generators
                            do("muladd", how + ":" + kb, ca, cb, k1, k2)

        # ---------------- error path: first multiplication interrupted inside _maybe_precompute, later ones judged
        code = eclib.precompute_code()
        gens = [pts[0], pts[len(pts) // 2]]
        kint = sorted({2, 3, n - 2, n - 1, n + 1, 2 * n - 1, r.randrange(4, n - 2), r.randrange(n + 2, 2 * n - 1)})
        for gi, pg in enumerate(gens):
            ca = _jac(p, pg, 1 if gi == 0 else 2)
            total = eclib.interrupted(code, 0, lambda: T.build("jac", ca, n, True) * K0_INT)[1]
            for N in range(1, total + 2):             # every line-event position, and one beyond (no interruption)
                for k in kint:
                    do("mul", "gen-int:%d" % N, ca, k=k)
                do("mul", "gen-int2:%d" % N, ca, k=kint[-1])
                do("mul", "gen-int2:%d" % N, ca, k=n - 1)
            for k in kint:
                do("mul", "gen-after-assert", ca, k=k)
        rec.evs[-1]["_int_positions"] = total

    if h == 4:
        # ---------------- cofactor 4: the group law on ALL finite points, most of them outside <G>.  Objects without a declared
        # order: any scalar (n, 2n, h*n, n+-1, ...).  Objects that declare the order n (the library then reduces the scalar
        # mod 2n, which is only meaningful below 2n): scalars up to n+1.  Sums / multiples equal to the point of order 2
        # (x0, 0) are named apart by the specification (the library reads Y = 0 as infinity: open finding).
        for pa in pts:
            for l in (1, 2):
                ca = _jac(p, pa, l)
                for k in (0, 1, 2, 3, n - 1, n, n + 1, 2 * n - 1, 2 * n, 2 * n + 1, 3 * n, 4 * n - 1, 4 * n, 4 * n + 1):
                    do("mul", "jac", ca, k=k)
                for k in (0, 1, 2, 3, n - 1, n, n + 1):
                    do("mul", "jac-ord", ca, k=k)
                    do("mul", "rmul", ca, k=k)
                do("dbl", "jac", ca)
                do("neg", "jac", ca)
            for pb in pts:
                do("add", "jac+jac", _jac(p, pa, 1), _jac(p, pb, 2))
                do("add", "jac+aff", _jac(p, pa, 2), (pb[0], pb[1], 1))

    # ---------------- public keys: every (x, y) in (0..p+1)^2 in every encoding
    def pub(via, a3, fn):
        try:
            vk = fn()
            pt = getattr(vk, "pubkey", vk).point
            out, s = (0, int(pt.x()), int(pt.y())), "ok"
        except Exception as e:
            out, s = (1, 0, 0), eclib.mro(e)
        rec.ev("pub", via, a3, out=out, s=s)

    other = "T11" if name != "T11" else "T17"
    c_other = eclib.tiny_curve(other)[0]
    other_pts = set(eclib.tiny_points(other))
    _pub_entry_points(name, pub)
    for x in range(p + 2):
        for y in range(p + 2):
            pub("point", (x, y, 0), lambda: keys.VerifyingKey.from_public_point(PointJacobi(c, x, y, 1), cv))
            pub("raw", (x, y, 0), lambda: keys.VerifyingKey.from_string(bytes([x, y]), cv))
            pub("uncompressed", (x, y, 4), lambda: keys.VerifyingKey.from_string(bytes([4, x, y]), cv))
            pub("ecdh", (x, y, 0), lambda: _ecdh_load(ecdh_mod, cv, bytes([x, y])))
            for pre in (6, 7):
                pub("hybrid", (x, y, pre), lambda: keys.VerifyingKey.from_string(bytes([pre, x, y]), cv))
            if h == 1 and (x, y) in other_pts:
                # a point of ANOTHER curve (object built on the other CurveFp) offered for this curve
                pub("point-other", (x, y, 0), lambda: keys.VerifyingKey.from_public_point(PointJacobi(c_other, x, y, 1), cv))
    for x in list(range(p + 2)) + [p + 5, 128, 254, 255]:
        for pre in (2, 3):
            pub("compressed", (x, 0, pre), lambda: keys.VerifyingKey.from_string(bytes([pre, x]), cv, valid_encodings=["compressed"]))
    for bad in (0, 1, 5, 8, 255):
        pub("hybrid", (pts[0][0], pts[0][1], bad), lambda: keys.VerifyingKey.from_string(bytes([bad, pts[0][0], pts[0][1]]), cv))
        pub("compressed", (pts[0][0], 0, bad), lambda: keys.VerifyingKey.from_string(bytes([bad, pts[0][0]]), cv, valid_encodings=["compressed"]))
    if h == 1:
        pub("infinity-object", (0, 0, 0), lambda: keys.VerifyingKey.from_public_point(INFINITY, cv))
        for z in (0, 2, p - 1):
            for X in range(p):
                for Y in range(p):
                    pub("jac", (X, Y, z), lambda: keys.VerifyingKey.from_public_point(PointJacobi(c, X, Y, z), cv))

    # ---------------- ECDH for all key pairs
    for dA in range(1, n):
        for dB in range(1, n):
            do("ecdh", "", k=dA, m=dB)
    return rec.evs


def _pub_entry_points(name, pub, others=None):
    """every other public loading entry point / argument form of the tiny curve `name` (same rejection clause for all):
    DER and PEM (explicit curve parameters), ECDH loaders, the low-level Public_key constructor, and from_public_point /
    Public_key with AFFINE Point objects: points of this curve, and points that live on ANOTHER curve object"""
    from register_crypto_plugin.ecdsa import keys, der, ecdsa, ecdh as ecdh_mod
    from register_crypto_plugin.ecdsa.ellipticcurve import PointJacobi, Point
    p, n_ = TINY[name][0], TINY[name][5]
    c, G, cv = eclib.tiny_curve(name)
    try:
        params = cv.to_der("explicit")
    except Exception as e:
        params = None
        pub("der", (0, 0, 4), lambda: (_ for _ in ()).throw(e))

    def spki(x, y):
        return der.encode_sequence(der.encode_sequence(keys.encoded_oid_ecPublicKey, params), der.encode_bitstring(bytes([4, x, y]), 0))

    def ecdh_with(meth, arg):
        e = ecdh_mod.ECDH(cv)
        getattr(e, meth)(arg)
        return e.public_key
    for x in range(p + 2):
        for y in range(p + 2):
            if params is not None:
                pub("der", (x, y, 4), lambda: keys.VerifyingKey.from_der(spki(x, y)))
                pub("pem", (x, y, 4), lambda: keys.VerifyingKey.from_pem(der.topem(spki(x, y), "PUBLIC KEY")))
                pub("ecdh-der", (x, y, 4), lambda: ecdh_with("load_received_public_key_der", spki(x, y)))
                pub("ecdh-pem", (x, y, 4), lambda: ecdh_with("load_received_public_key_pem", der.topem(spki(x, y), "PUBLIC KEY")))
            pub("Public_key", (x, y, 0), lambda: ecdsa.Public_key(G, PointJacobi(c, x, y, 1)))
            # point objects that DECLARE the order n (the declaration must not replace the subgroup check)
            pub("point-ord", (x, y, 0), lambda: keys.VerifyingKey.from_public_point(PointJacobi(c, x, y, 1, n_), cv))
            pub("Public_key-ord", (x, y, 0), lambda: ecdsa.Public_key(G, PointJacobi(c, x, y, 1, n_)))
            pub("ecdh-object-ord", (x, y, 0), lambda: ecdh_with("load_received_public_key", keys.VerifyingKey.from_public_point(PointJacobi(c, x, y, 1, n_), cv)))
            pub("ecdh-object", (x, y, 0), lambda: ecdh_with("load_received_public_key", keys.VerifyingKey.from_public_point(PointJacobi(c, x, y, 1), cv)))
    for (x, y) in eclib.tiny_points(name):
        for xx, yy in ((x, y), (x + p, y), (x, y + p)):
            pub("point-aff", (xx, yy, 0), lambda: keys.VerifyingKey.from_public_point(Point(c, xx, yy), cv))
            pub("Public_key-aff", (xx, yy, 0), lambda: ecdsa.Public_key(G, Point(c, xx, yy)))
    for o in (others or [t for t in TINY if t != name]):
        co = eclib.tiny_curve(o)[0]
        for (x, y) in eclib.tiny_points(o):
            if TINY[name][6] != 1 and c.contains_point(x, y):
                # cofactor curves: a foreign object whose coordinates also satisfy THIS curve's equation is left out (its
                # order check runs in the foreign curve's arithmetic; reported to the coordinator, not judged here)
                continue
            # an affine Point object that satisfies the equation of ITS curve object, offered as a key for this curve
            pub("point-aff-other", (x, y, 0), lambda: keys.VerifyingKey.from_public_point(Point(co, x, y), cv))
            pub("Public_key-aff-other", (x, y, 0), lambda: ecdsa.Public_key(G, Point(co, x, y)))
            pub("ecdh-object-aff-other", (x, y, 0), lambda: ecdh_with("load_received_public_key", keys.VerifyingKey.from_public_point(Point(co, x, y), cv)))


def _ecdh_load(ecdh_mod, cv, data):
    e = ecdh_mod.ECDH(cv)
    e.load_received_public_key_bytes(data)
    return e.public_key


def _tiny_job(args):
    name, tier, seed_tag = args
    from ..common import repo_on_path
    repo_on_path()
    return name, _record_tiny(name, tier, rng(seed_tag))


# ====================================================================== shipped curves: OpenSSL relations
class ORec:
    def __init__(self):
        self.evs = []
        self.tid = 0

    def ev(self, op, what, lib, ref, zero=0, cls="", ctx="", key=None):
        self.tid += 1
        e = {"tid": self.tid, "op": op, "what": what, "ctx": ctx, "zero": zero,
             "lib": list(lib) if isinstance(lib, (bytes, bytearray)) else lib,
             "ref": list(ref) if isinstance(ref, (bytes, bytearray)) else ref, "cls": cls}
        if key:
            e["_key"] = key
        self.evs.append(e)
        return e


def _raw(pt, INFINITY):
    """x||y of a library point, b'' for infinity"""
    if pt is INFINITY or pt == INFINITY:
        return b""
    return pt.to_bytes("raw")


def _aff_add(cv, P1, P2):
    """input crafting only (points outside the prime-order subgroup of SECP112r2): affine chord-tangent step"""
    p, a = int(cv.curve.p()), int(cv.curve.a())
    if P1 is None:
        return P2
    if P2 is None:
        return P1
    if P1[0] == P2[0]:
        if (P1[1] + P2[1]) % p == 0:
            return None
        l = (3 * P1[0] * P1[0] + a) * pow(2 * P1[1], -1, p) % p
    else:
        l = (P2[1] - P1[1]) * pow(P2[0] - P1[0], -1, p) % p
    x = (l * l - P1[0] - P2[0]) % p
    return (x, (l * (P1[0] - x) - P1[1]) % p)


def _aff_mul(cv, k, P1):
    R = None
    while k:
        if k & 1:
            R = _aff_add(cv, R, P1)
        P1 = _aff_add(cv, P1, P1)
        k >>= 1
    return R


def _oracle_curve(args):
    """all oracle-relation events of one shipped curve (runs in a worker process; OpenSSL calls in threads)"""
    ci, tier, wd = args
    from ..common import repo_on_path
    repo_on_path()
    from register_crypto_plugin.ecdsa.ellipticcurve import PointJacobi, Point, INFINITY
    from register_crypto_plugin.ecdsa import keys, ecdh as ecdh_mod, numbertheory, util
    cv = eclib.shipped()[ci]
    r = rng("c17/" + cv.name)
    thorough = tier == "thorough"
    files = eclib.Files(os.path.join(wd, cv.name))
    rec = ORec()
    c = cv.curve
    p, n = int(c.p()), int(cv.order)
    L = (p.bit_length() + 7) // 8
    Gx, Gy = int(cv.generator.x()), int(cv.generator.y())
    nb = n.bit_length()

    # ---- scalars
    ks = [0, 1, 2, 3, n - 2, n - 1, n, n + 1, 2 * n - 1, 2 * n, 2 * n + 1]
    js = range(1, nb + 2) if thorough else sorted({1, 2, 7, 8, 31, 32, 63, 64, nb - 2, nb - 1, nb, nb + 1})
    for j in js:
        ks += [2 ** j, 2 ** j - 1]
    ks += [r.randrange(1, 2 * n + 1) for _ in range(40 if thorough else 6)]
    # long runs and periodic bit patterns (0x5555.., 0xAAAA.., 0x3333.., floor(2^m/3), 2^m -+ 2^k, ...), fractions of the order
    pat = set(eclib.pattern_scalars(range(40, nb + 2) if thorough else sorted({50, 53, 54, 64, nb - 2, nb - 1, nb, nb + 1}), n))
    ks = sorted(set(ks) | pat)
    # relations between group operations and scalars (homomorphism, proved on the tiny curves by MC_ECGroup)
    rel = []
    for _ in range(12 if thorough else 3):
        a, b, k1, k2, lam = (r.randrange(1, n) for _ in range(5))
        rel.append((a, b, k1, k2, lam % p or 1))
    need = {k % n for k in ks} | {1}
    for a, b, k1, k2, lam in rel:
        need |= {a, b, (a + b) % n, (2 * a) % n, (n - a) % n, (2 * (n - a)) % n, (a * k1 + b * k2) % n, (k1 + b * k2) % n, (a - b) % n}
    need.discard(0)
    need = sorted(need)
    oss = dict(zip(need, eclib.pmap(lambda k: eclib.ossl_pub_raw(cv, k)[0], need, workers=6)))
    ncalls = len(need)

    def ref(k):
        k %= n
        return (b"", 1) if k == 0 else (oss[k], 0)

    def rel_ev(what, fn, k, key=None):
        rf, zero = ref(k)
        try:
            lib, cls = _raw(fn(), INFINITY), ""
        except Exception as e:
            lib, cls = b"\xff", eclib.mro(e)
        rec.ev("eqinf", cv.name + " " + what, lib, rf, zero=zero, cls=cls, key=key)

    lam0 = r.randrange(2, p)
    Gs = (lam0 * lam0 * Gx % p, lam0 * lam0 * lam0 * Gy % p, lam0)
    for k in ks:
        rel_ev("k*G generator table k=%d" % k, lambda: cv.generator * k, k)
        rel_ev("k*G NAF k=%d" % k, lambda: PointJacobi(c, Gx, Gy, 1, n) * k, k)
        rel_ev("k*G NAF scaled representative k=%d" % k, lambda: PointJacobi(c, Gs[0], Gs[1], Gs[2], n) * k, k)
        rel_ev("k*G NAF no order k=%d" % k, lambda: PointJacobi(c, Gx, Gy, 1) * k, k)
        if thorough or k < 8 or k % 2 == 1 or k in (n - 1, n + 1, 2 * n):
            # generator=True (table path) on projectively scaled representatives of G (Z != 1), fresh object per call
            rel_ev("k*G table path, scaled representative Z=%d, k=%d (%s)" % (Gs[2], k, "odd" if k % 2 else "even"),
                   lambda: PointJacobi(c, Gs[0], Gs[1], Gs[2], n, generator=True) * k, k)
            rel_ev("k*G table path, scaled representative Z=2, k=%d" % k, lambda: PointJacobi(c, 4 * Gx % p, 8 * Gy % p, 2, n, generator=True) * k, k)
        if thorough or k in pat or k.bit_length() <= nb // 2 or k in (n - 1, n, n + 1, 2 * n + 1):
            rel_ev("k*G affine Point k=%d (%#x)" % (k, k), lambda: Point(c, Gx, Gy, n) * k, k)
            if k in pat:
                rel_ev("k*G affine Point without order k=%#x" % k, lambda: Point(c, Gx, Gy) * k, k)
                rel_ev("k*G affine Point, int * Point, k=%#x" % k, lambda: k * Point(c, Gx, Gy, n), k)
    # error path: the first multiplication of a FRESH generator object is interrupted inside _maybe_precompute (sampled
    # line positions), the exception swallowed; later multiplications on the same object are compared with OpenSSL
    code = eclib.precompute_code()
    fresh = lambda order=n: PointJacobi(c, Gx, Gy, 1, order, generator=True)
    total = eclib.interrupted(code, 0, lambda: fresh() * 3)[1]
    kint = [n - 2, n - 1, 2 ** (nb - 1), 2 ** (nb - 1) - 1, 3]
    for N in sorted({2, total // 3, total // 2, total - 4, total + 5} | {r.randrange(6, total) for _ in range(6 if thorough else 2)}):
        g = fresh()
        hit = eclib.interrupted(code, N, lambda: g * (n // 3 + 12345))
        for j, k in enumerate(kint):
            rel_ev("k*G on a generator whose first multiplication was interrupted at line event %d of %d in _maybe_precompute (%s), later call %d, k=%d"
                   % (N, total, "interrupted" if hit[0] else "not interrupted", j + 1, k), lambda: g * k, k)
    try:
        fresh(None) * 5                     # legitimate failure: no order, no table (AssertionError)
    except Exception:
        pass
    for k in kint:
        rel_ev("k*G on a fresh generator after a refused one (order None) k=%d" % k, lambda: fresh() * k, k)
    for a, b, k1, k2, lam in rel:
        A = lambda: PointJacobi(c, Gx, Gy, 1, n) * a            # fresh objects: * scales its operand in place
        B = lambda: cv.generator * b
        tag = "a=%d b=%d " % (a, b)
        rel_ev(tag + "A+B (Z1 # Z2)", lambda: A() + B(), a + b)
        rel_ev(tag + "A+B (Z2 = 1)", lambda: A() + B().scale(), a + b)
        rel_ev(tag + "A+B (Z1 = Z2 = 1)", lambda: A().scale() + B().scale(), a + b)
        rel_ev(tag + "A+affine B", lambda: A() + B().to_affine(), a + b)
        rel_ev(tag + "A+A as add of two representatives", lambda: A() + _rescale(PointJacobi, A(), lam), 2 * a)
        rel_ev(tag + "A+(-A)", lambda: A() + (-_rescale(PointJacobi, A(), lam)), 0)
        rel_ev(tag + "2A", lambda: A().double(), 2 * a)
        rel_ev(tag + "2A scaled", lambda: _rescale(PointJacobi, A(), lam).double(), 2 * a)
        rel_ev(tag + "-A", lambda: -A(), n - a)
        rel_ev(tag + "A-B", lambda: A() + (-B()), a - b)
        rel_ev(tag + "(-A)+B, B = (n-a)G = -A, both scaled to Z = 1 (doubling reached through a negated operand)",
               lambda: (-(A().scale())) + (PointJacobi(c, Gx, Gy, 1, n) * (n - a)).scale(), 2 * (n - a), key="add-z1-unreduced-y")
        rel_ev(tag + "(-A)+B, B = -A, B not scaled", lambda: (-(A().scale())) + (PointJacobi(c, Gx, Gy, 1, n) * (n - a)), 2 * (n - a))
        rel_ev(tag + "affine A+B", lambda: A().to_affine() + B().to_affine(), a + b)
        rel_ev(tag + "affine 2A", lambda: A().to_affine().double(), 2 * a)
        rel_ev(tag + "k1=%d k2=%d A.mul_add(k1, B, k2)" % (k1, k2), lambda: A().mul_add(k1, B(), k2), a * k1 + b * k2)
        rel_ev(tag + "k1=%d k2=%d G.mul_add(k1, B, k2) generator+plain" % (k1, k2),
               lambda: cv.generator.mul_add(k1, _rescale(PointJacobi, B(), lam), k2), k1 + b * k2)
        rel_ev(tag + "k1=%d k2=%d G.mul_add(k1, B, k2) both tables" % (k1, k2),
               lambda: cv.generator.mul_add(k1, PointJacobi.from_affine(B().to_affine(), True), k2), k1 + b * k2)
        rel_ev(tag + "A.mul_add(k1, -A, k1) sums to infinity", lambda: A().mul_add(k1, -A(), k1), 0)

    # ---- ECDH both ways
    def one_ecdh(_):
        dA, dB = r.randrange(1, n), r.randrange(1, n)
        return dA, dB
    pairs = [one_ecdh(i) for i in range(10 if thorough else 2)] + [(1, n - 1)]

    def do_ecdh(pair):
        dA, dB = pair
        fa, fb = files.put(eclib.priv_der_nopub(cv, dA), "ka"), files.put(eclib.priv_der_nopub(cv, dB), "kb")
        pubA, pubB = eclib.ossl_pub_raw(cv, dA)[1], eclib.ossl_pub_raw(cv, dB)[1]
        pa, pb = files.put(pubA, "pa"), files.put(pubB, "pb")
        sA, sB = eclib.ossl_derive(fa, pb), eclib.ossl_derive(fb, pa)
        return dA, dB, pubA, pubB, sA, sB
    for dA, dB, pubA, pubB, sA, sB in eclib.pmap(do_ecdh, pairs, workers=4):
        ncalls += 4
        tag = "%s ECDH dA=%d dB=%d " % (cv.name, dA, dB)
        try:
            skA, skB = keys.SigningKey.from_secret_exponent(dA, cv), keys.SigningKey.from_secret_exponent(dB, cv)
            derA, derB = skA.get_verifying_key().to_der(), skB.get_verifying_key().to_der()
        except Exception as e:
            rec.ev("flags", tag + "key generation raised " + eclib.mro(e), [0], [])
            continue
        rec.ev("eq", tag + "public key A (DER)", derA, pubA)
        rec.ev("eq", tag + "public key B (DER)", derB, pubB)
        try:
            e1 = ecdh_mod.ECDH(cv, skA, keys.VerifyingKey.from_der(pubB))
            l1 = e1.generate_sharedsecret_bytes()
            e2 = ecdh_mod.ECDH(cv)
            e2.load_private_key_der(skB.to_der())
            e2.load_received_public_key_der(pubA)
            l2 = e2.generate_sharedsecret_bytes()
            cls = ""
        except Exception as e:
            l1 = l2 = b"\xff"
            cls = eclib.mro(e)
        rec.ev("eq", tag + "secret of A vs openssl derive (A side)", l1, sA, cls=cls)
        rec.ev("eq", tag + "secret of B vs openssl derive (B side)", l2, sB, cls=cls)
        rec.ev("eq", tag + "secret of A vs openssl derive (B side)", l1, sB, cls=cls)

    # ---- invalid / mutated points
    d0 = r.randrange(1, n)
    q_raw = eclib.ossl_pub_raw(cv, d0)[0]                      # the valid control point comes from OpenSSL, not from the library
    qx, qy = int.from_bytes(q_raw[:L], "big"), int.from_bytes(q_raw[L:], "big")
    nts = lambda v: v.to_bytes(L, "big")
    cand = []          # (what, point bytes as handed to the library, X9.62 form for OpenSSL, key)

    others = {}

    def add(what, enc, key=None, other=None):
        x962 = (b"\x04" + enc) if len(enc) == 2 * L else enc
        if other is not None:
            others[what] = other
        cand.append((what, enc, x962, key))
    unc, comp, hyb = b"\x04" + nts(qx) + nts(qy), bytes([2 + (qy & 1)]) + nts(qx), bytes([6 + (qy & 1)]) + nts(qx) + nts(qy)
    add("valid raw", nts(qx) + nts(qy)); add("valid uncompressed", unc); add("valid compressed", comp); add("valid hybrid", hyb)
    add("off curve y+1", b"\x04" + nts(qx) + nts((qy + 1) % p))
    add("off curve x+1", b"\x04" + nts((qx + 1) % p) + nts(qy))
    add("off curve raw", nts(qx) + nts((qy + 1) % p))
    add("negated y (valid)", b"\x04" + nts(qx) + nts(p - qy))
    add("x = p", b"\x04" + nts(p) + nts(qy)); add("y = p", b"\x04" + nts(qx) + nts(p))
    if qx + p < 256 ** L:
        add("x + p (same residue, out of range)", b"\x04" + nts(qx + p) + nts(qy))
    if qy + p < 256 ** L:
        add("y + p (same residue, out of range)", b"\x04" + nts(qx) + nts(qy + p))
    if Gx + p < 256 ** L:
        add("Gx + p compressed", bytes([2 + (Gy & 1)]) + nts(Gx + p))
    add("all ones", b"\x04" + b"\xff" * (2 * L)); add("all zero", b"\x04" + bytes(2 * L)); add("all zero raw", bytes(2 * L))
    add("(0, 0) compressed", b"\x02" + bytes(L)); add("infinity octet", b"\x00"); add("empty", b"")
    add("truncated", unc[:-1]); add("extended", unc + b"\x00")
    add("hybrid wrong parity", bytes([hyb[0] ^ 1]) + hyb[1:]); add("compressed other root (valid)", bytes([comp[0] ^ 1]) + comp[1:])
    add("prefix 05", b"\x05" + unc[1:]); add("prefix 01 compressed", b"\x01" + comp[1:])
    xx = qx
    while True:                                   # an x without a point: the library's own square root decides
        xx = (xx + 1) % p
        try:
            numbertheory.square_root_mod_prime((pow(xx, 3, p) + int(c.a()) * xx + int(c.b())) % p, p)
        except numbertheory.SquareRootError:
            break
    add("compressed x without square root", b"\x02" + nts(xx)); add("compressed x without square root (odd)", b"\x03" + nts(xx))
    for o in eclib.shipped():
        if o is not cv and (int(o.curve.p()).bit_length() + 7) // 8 == L:
            add("point of %s" % o.name, b"\x04" + eclib.ossl_pub_raw(o, r.randrange(1, int(o.order)))[0], other=o)
    if thorough and L <= 32:
        bits_u, bits_c = range(8 * len(unc)), range(8 * len(comp))
    else:
        bits_u, bits_c = sorted(r.sample(range(8 * len(unc)), 10) + list(range(8))), sorted(r.sample(range(8 * len(comp)), 8) + list(range(8)))
    for bit in bits_u:
        m = bytearray(unc); m[bit // 8] ^= 0x80 >> (bit % 8)
        add("uncompressed bit %d flipped" % bit, bytes(m))
    for bit in bits_c:
        m = bytearray(comp); m[bit // 8] ^= 0x80 >> (bit % 8)
        add("compressed bit %d flipped" % bit, bytes(m))
    if c.cofactor() != 1:
        # points outside the subgroup generated by G (crafted with plain affine arithmetic; verdict from OpenSSL)
        got = {}
        while not ({2, 4} <= set(got)) and len(got) < 8:
            x = r.randrange(p)
            try:
                y = int(numbertheory.square_root_mod_prime((pow(x, 3, p) + int(c.a()) * x + int(c.b())) % p, p))
            except numbertheory.SquareRootError:
                continue
            T = _aff_mul(cv, n, (x, y))
            if T is None:
                continue
            if T[1] == 0:
                got[2] = T
            else:
                got[4] = T
                got[2] = _aff_add(cv, T, T)
        s_raw = eclib.ossl_pub_raw(cv, 5)[0]
        S = (int.from_bytes(s_raw[:L], "big"), int.from_bytes(s_raw[L:], "big"))
        key = "order-check-reads-y0-as-infinity"
        if 2 in got:
            T2 = got[2]
            add("point of order 2 (x0, 0)", b"\x04" + nts(T2[0]) + nts(T2[1]), key)
            T2n = _aff_add(cv, T2, S)
            add("point of order 2n", b"\x04" + nts(T2n[0]) + nts(T2n[1]), key)
            add("point of order 2n compressed", bytes([2 + (T2n[1] & 1)]) + nts(T2n[0]), key)
        if 4 in got:
            T4 = got[4]
            add("point of order 4", b"\x04" + nts(T4[0]) + nts(T4[1]))
            T4n = _aff_add(cv, T4, S)
            add("point of order 4n", b"\x04" + nts(T4n[0]) + nts(T4n[1]))

    verd = eclib.pmap(lambda cnd: eclib.ossl_pubcheck(cv, cnd[2]), cand, workers=6)
    ncalls += len(cand)
    from register_crypto_plugin.ecdsa import ecdsa as ecdsa_mod, der as der_mod

    def ecdh_obj(vk):
        e = ecdh_mod.ECDH(cv)
        e.load_received_public_key(vk)
        return e.public_key
    for (what, enc, x962, key), ov in zip(cand, verd):
        # every public loading entry point and argument form, one rejection clause (OpenSSL's verdict on the same point)
        forms = [("pub-string", "from_string", lambda: keys.VerifyingKey.from_string(enc, cv)),
                 ("ecdh-bytes", "ECDH.load_received_public_key_bytes", lambda: _ecdh_load(ecdh_mod, cv, enc))]
        if len(enc) != 2 * L:                    # (the raw encoding does not exist inside DER)
            spki = eclib.spki(cv, x962)
            forms += [("pub-der", "from_der", lambda: keys.VerifyingKey.from_der(spki)),
                      ("pub-pem", "from_pem", lambda: keys.VerifyingKey.from_pem(der_mod.topem(spki, "PUBLIC KEY"))),
                      ("ecdh-der", "ECDH.load_received_public_key_der", lambda: _ecdh_load_der(ecdh_mod, cv, spki)),
                      ("ecdh-pem", "ECDH.load_received_public_key_pem", lambda: _ecdh_load_pem(ecdh_mod, cv, der_mod.topem(spki, "PUBLIC KEY")))]
        if len(x962) == 2 * L + 1 and x962[:1] == b"\x04":
            px, py = int.from_bytes(x962[1:L + 1], "big"), int.from_bytes(x962[L + 1:], "big")
            forms += [("pub-point", "from_public_point(PointJacobi)", lambda: keys.VerifyingKey.from_public_point(PointJacobi(c, px, py, 1), cv)),
                      ("pub-point", "from_public_point(PointJacobi Z=2)", lambda: keys.VerifyingKey.from_public_point(PointJacobi(c, 4 * px % p, 8 * py % p, 2), cv)) if max(px, py) < p else None,
                      ("public-key-ctor", "Public_key(G, PointJacobi)", lambda: ecdsa_mod.Public_key(cv.generator, PointJacobi(c, px, py, 1))),
                      # objects that DECLARE the order n: the declaration must not replace the subgroup check
                      ("pub-point", "from_public_point(PointJacobi order=n)", lambda: keys.VerifyingKey.from_public_point(PointJacobi(c, px, py, 1, n), cv)),
                      ("public-key-ctor", "Public_key(G, PointJacobi order=n)", lambda: ecdsa_mod.Public_key(cv.generator, PointJacobi(c, px, py, 1, n))),
                      ("pub-point", "ECDH.load_received_public_key(from_public_point(PointJacobi order=n))",
                       lambda: ecdh_obj(keys.VerifyingKey.from_public_point(PointJacobi(c, px, py, 1, n), cv))),
                      ("pub-point", "ECDH.load_received_public_key(from_public_point(...))", lambda: ecdh_obj(keys.VerifyingKey.from_public_point(PointJacobi(c, px, py, 1), cv)))]
            home = others.get(what) or (cv if what.startswith(("valid", "negated")) else None)
            if home is not None:
                # the same coordinates as an AFFINE Point object of the curve they live on
                forms += [("pub-point", "from_public_point(Point of %s)" % home.name, lambda: keys.VerifyingKey.from_public_point(Point(home.curve, px, py), cv)),
                          ("public-key-ctor", "Public_key(G, Point of %s)" % home.name, lambda: ecdsa_mod.Public_key(cv.generator, Point(home.curve, px, py))),
                          ("pub-point", "ECDH.load_received_public_key(from_public_point(Point of %s))" % home.name,
                           lambda: ecdh_obj(keys.VerifyingKey.from_public_point(Point(home.curve, px, py), cv)))]
        for ctx, how, fn in [f for f in forms if f]:
            k2 = key
            try:
                vk = fn()
                lv, cls = "accept", ""
                if c.cofactor() != 1 and ov == "reject":
                    # name the input class: n*Q is the point of order 2 (x0, 0), which the library reads as infinity
                    pt_ = getattr(vk, "pubkey", vk).point
                    T = _aff_mul(cv, n, (int(pt_.x()), int(pt_.y())))
                    if T is not None and T[1] == 0:
                        k2 = "order-check-reads-y0-as-infinity"
            except Exception as e:
                lv, cls = "reject", type(e).__name__
            rec.ev("verdict", "%s %s: %s  [%s]" % (cv.name, how, what, enc.hex()), lv, ov, cls=cls, ctx=ctx, key=k2)
    return cv.name, rec.evs, ncalls


def _rescale(PointJacobi, pt, lam):
    """another representative of the same point: (l^2 X, l^3 Y, l Z) of the scaled point (input construction)"""
    pt = pt.scale()
    p = int(pt.curve().p())
    x, y = int(pt.x()), int(pt.y())
    return PointJacobi(pt.curve(), lam * lam * x % p, lam * lam * lam * y % p, lam % p, pt.order())


# ====================================================================== histories (state kept by the library between calls)
# Caches / memos make a result depend on what ran earlier in the same process.  Every history below runs in ONE fresh
# process and revisits the same inputs under another context (other curve, other object state), in both orders.
def _ecdh_scenarios():
    """(name, (private key on X?, object curve X?, peer key on X?), call sequence) -- X: this curve, O: another curve"""
    def ctor(E, X, O, sk, vkX, vkO):
        return E(X, sk, vkX)

    def set_curve_after_private(E, X, O, sk, vkX, vkO):
        e = E(X, sk); e.set_curve(O); e.load_received_public_key(vkO); return e

    def peer_bytes_after_set_curve(E, X, O, sk, vkX, vkO):
        e = E(X, sk); e.set_curve(O); e.load_received_public_key_bytes(vkO.to_string("uncompressed")); return e

    def assign_private(E, X, O, sk, vkX, vkO):
        e = E(O); e.load_received_public_key(vkO); e.private_key = sk; return e

    def assign_public(E, X, O, sk, vkX, vkO):
        e = E(X, sk); e.public_key = vkO; return e

    def set_curve_only(E, X, O, sk, vkX, vkO):
        e = E(X, sk, vkX); e.set_curve(O); return e

    def set_curve_back(E, X, O, sk, vkX, vkO):
        e = E(X, sk); e.set_curve(O); e.set_curve(X); e.load_received_public_key(vkX); return e

    def no_curve_given(E, X, O, sk, vkX, vkO):
        e = E(); e.load_private_key(sk); e.load_received_public_key(vkX); return e

    def load_mismatch(E, X, O, sk, vkX, vkO):
        e = E(X, sk); e.load_received_public_key(vkO); return e

    def private_loaded_after_set_curve(E, X, O, sk, vkX, vkO):
        e = E(O); e.load_received_public_key(vkO); e.set_curve(X); e.load_private_key(sk); return e
    return [("ctor", (1, 1, 1), ctor), ("set_curve-after-private", (1, 0, 0), set_curve_after_private),
            ("peer-bytes-after-set_curve", (1, 0, 0), peer_bytes_after_set_curve), ("assign-private", (1, 0, 0), assign_private),
            ("assign-public", (1, 1, 0), assign_public), ("set_curve-only", (1, 0, 1), set_curve_only),
            ("set_curve-back", (1, 1, 1), set_curve_back), ("no-curve-given", (1, 1, 1), no_curve_given),
            ("load-mismatch", (1, 1, 0), load_mismatch), ("private-loaded-after-set_curve", (1, 1, 0), private_loaded_after_set_curve)]


def _ecdh_run(E, scen, X, O, sk, vkX, vkO, how):
    """-> (secret or 0, "ok" / mro of the exception)"""
    try:
        e = scen(E, X, O, sk, vkX, vkO)
        sec = e.generate_sharedsecret() if how == "int" else int.from_bytes(e.generate_sharedsecret_bytes(), "big")
        return int(sec), "ok"
    except Exception as ex:
        return 0, eclib.mro(ex)


def _tiny_history(args):
    tier, order = args
    from ..common import repo_on_path
    repo_on_path()
    from register_crypto_plugin.ecdsa import keys, ecdh as ecdh_mod
    from register_crypto_plugin.ecdsa.ellipticcurve import PointJacobi
    recs = {}

    def rec(nm):
        return recs.setdefault(nm, Rec())

    def pub(nm, via, a3, fn):
        try:
            v = fn()
            pt = getattr(v, "pubkey", v).point
            out, s = (0, int(pt.x()), int(pt.y())), "ok"
        except Exception as e:
            out, s = (1, 0, 0), eclib.mro(e)
        rec(nm).ev("pub", via, a3, out=out, s=s)

    # ---- public keys on two curves over the SAME field: every (x, y) on one curve, then on the other, then again
    seq = ["T11", "TH2", "T11", "TH2"] if order == 0 else ["TH2", "T11", "TH2", "T11"]
    for nm in seq:
        p = TINY[nm][0]
        c, G, cv = eclib.tiny_curve(nm)
        for x in range(p + 2):
            for y in range(p + 2):
                pub(nm, "point", (x, y, 0), lambda: keys.VerifyingKey.from_public_point(PointJacobi(c, x, y, 1), cv))
                pub(nm, "raw", (x, y, 0), lambda: keys.VerifyingKey.from_string(bytes([x, y]), cv))
                pub(nm, "uncompressed", (x, y, 4), lambda: keys.VerifyingKey.from_string(bytes([4, x, y]), cv))
                pub(nm, "ecdh", (x, y, 0), lambda: _ecdh_load(ecdh_mod, cv, bytes([x, y])))
            for pre in (2, 3):
                pub(nm, "compressed", (x, 0, pre), lambda: keys.VerifyingKey.from_string(bytes([pre, x]), cv, valid_encodings=["compressed"]))
        _pub_entry_points(nm, lambda via, a3, fn: pub(nm, via, a3, fn), others=[o for o in ("T11", "TH2") if o != nm])
    # ---- ECDH objects whose curve / keys change during their life
    names = ["T17", "T11", "T13"] if order == 0 else ["T13", "T11", "T17"]
    for i, nx in enumerate(names):
        no = names[(i + 1) % len(names)]
        X, O = eclib.tiny_curve(nx)[2], eclib.tiny_curve(no)[2]
        for dA in (1, 2, 5):
            for dB in (1, 3):
                try:
                    sk = keys.SigningKey.from_secret_exponent(dA, X)
                    vkX = keys.SigningKey.from_secret_exponent(dB, X).get_verifying_key()
                    vkO = keys.SigningKey.from_secret_exponent(dB, O).get_verifying_key()
                except Exception as ex:
                    rec(nx).ev("ecdhh", "key-generation", (1, 1, 1), k=dA, m=dB, s="raise:" + eclib.mro(ex))
                    continue
                for name, pat, scen in _ecdh_scenarios():
                    for how in ("int", "bytes"):
                        sec, s = _ecdh_run(ecdh_mod.ECDH, scen, X, O, sk, vkX, vkO, how)
                        rec(nx).ev("ecdhh", name + ":" + how, pat, (sec, 0, 0), k=dA, m=dB, s=s)
    # ---- one long-lived ECDH object, many peers loaded in turn (bytes / DER / PEM / object), no references kept, gc in
    #      between, the private key re-loaded now and then: every secret judged like a fresh one
    import gc
    from register_crypto_plugin.ecdsa import der as der_mod
    for nx in names[:2]:
        c_, G_, X = eclib.tiny_curve(nx)
        n_ = TINY[nx][5]
        dA = 2
        e = ecdh_mod.ECDH(X, keys.SigningKey.from_secret_exponent(dA, X))
        for i in range(70):
            dB = 1 + (i * 5 + order) % (n_ - 1)
            if nx == "T11" and dB == 15:
                dB = 4
            how = ("bytes", "der", "pem", "object", "bytes")[i % 5]       # (2-byte compressed = raw on a tiny field: not used)
            try:
                vk = keys.SigningKey.from_secret_exponent(dB, X).get_verifying_key()
                if how == "bytes":
                    e.load_received_public_key_bytes(vk.to_string("uncompressed"))
                elif how == "bytes-compressed":
                    e.load_received_public_key_bytes(vk.to_string("compressed"), valid_encodings=["compressed"])
                elif how == "der":
                    e.load_received_public_key_der(vk.to_der())
                elif how == "pem":
                    e.load_received_public_key_pem(vk.to_pem())
                else:
                    e.load_received_public_key(vk)
                del vk
                if i % 3 == 0:
                    gc.collect()
                if i % 11 == 10:
                    dA = 2 + (i // 11) % 3
                    e.load_private_key(keys.SigningKey.from_secret_exponent(dA, X))
                sA, sB, s = int(e.generate_sharedsecret()), int.from_bytes(e.generate_sharedsecret_bytes(), "big"), "ok"
            except Exception as ex:
                sA, sB, s = 0, 0, "raise:" + eclib.mro(ex)
            rec(nx).ev("ecdh", "long-lived:%d:%s" % (i, how), (sA, sB, 0), k=dA, m=dB, s=s)
    # ---- look-alike Curve OBJECTS: same OID / same name / same p and a but other b, other generator, other order value,
    #      OID missing on one side -- as peer key curve, as object curve, in every call sequence
    from register_crypto_plugin.ecdsa.ellipticcurve import CurveFp, Point
    from register_crypto_plugin.ecdsa.curves import Curve
    OID, OID2 = (1, 3, 9999, 1, 7), (1, 3, 9999, 1, 8)
    for nx in (("T17", "T11") if order == 0 else ("T11", "T17")):
        p, a_, b_, gx, gy, n, h = TINY[nx]
        pl = TINY[nx + "L"]
        cX, cL = CurveFp(p, a_, b_, 1), CurveFp(pl[0], pl[1], pl[2], 1)
        mkg = lambda c, x, y, o: PointJacobi(c, x, y, 1, o, generator=True)
        G2 = Point(cX, gx, gy, n) * 2
        for xoid in (OID, None):
            X = Curve(nx, cX, mkg(cX, gx, gy, n), xoid)
            likes = [("same-oid-other-b", Curve(nx, cL, mkg(cL, pl[3], pl[4], pl[5]), OID), 0),
                     ("same-oid-other-name-other-b", Curve("lookalike", cL, mkg(cL, pl[3], pl[4], pl[5]), OID), 0),
                     ("no-oid-other-b", Curve(nx, cL, mkg(cL, pl[3], pl[4], pl[5]), None), 0),
                     ("other-oid-other-b", Curve(nx, cL, mkg(cL, pl[3], pl[4], pl[5]), OID2), 0),
                     ("same-oid-other-generator", Curve(nx, cX, mkg(cX, int(G2.x()), int(G2.y()), n), OID), 2),
                     ("same-oid-other-order-value", Curve(nx, cX, mkg(cX, gx, gy, 3 * n), OID), 2),
                     ("other-oid-same-parameters", Curve(nx, cX, mkg(cX, gx, gy, n), OID2), 2)]
            for lname, Lk, kind in likes:
                for dA in (2, 5):
                    dB = 3
                    try:
                        sk = keys.SigningKey.from_secret_exponent(dA, X)
                        vkX = keys.SigningKey.from_secret_exponent(dB, X).get_verifying_key()
                        vkO = keys.SigningKey.from_secret_exponent(dB, Lk).get_verifying_key()
                        Q = (int(vkO.pubkey.point.x()), int(vkO.pubkey.point.y()))
                    except Exception as ex:
                        rec(nx).ev("ecdhh", "key-generation:" + lname, (1, 1, 1), k=dA, m=dB, s="raise:" + eclib.mro(ex))
                        continue
                    for name, pat, scen in _ecdh_scenarios():
                        if kind == 2 and (pat == (1, 1, 1) or pat[2] != 0):
                            continue                     # same equation: only sequences whose peer key lives on the look-alike
                        for how in ("int", "bytes"):
                            sec, s = _ecdh_run(ecdh_mod.ECDH, scen, X, Lk, sk, vkX, vkO, how)
                            via = "%s:%s:%s:%s" % (name, how, lname, "oid" if xoid else "no-oid")
                            if kind == 2:
                                rec(nx).ev("ecdhh", via, (1, 1, 2), (sec, Q[0], Q[1]), k=dA, m=dB, s=s)
                            else:
                                rec(nx).ev("ecdhh", via, pat, (sec, 0, 0), k=dA, m=dB, s=s)
                    # the look-alike as the curve of the PRIVATE key offered to an object of the real curve
                    for how, fn in (("load_private_key", lambda: ecdh_mod.ECDH(X).load_private_key(keys.SigningKey.from_secret_exponent(dA, Lk))),
                                    ("ctor", lambda: ecdh_mod.ECDH(X, keys.SigningKey.from_secret_exponent(dA, Lk)))):
                        if kind == 0:
                            try:
                                fn()
                                s = "ok"
                            except Exception as ex:
                                s = eclib.mro(ex)
                            rec(nx).ev("ecdhh", "private-key-on-lookalike:%s:%s:%s" % (how, lname, "oid" if xoid else "no-oid"), (0, 1, 1), k=dA, m=dB, s=s)
    return {nm: r_.evs for nm, r_ in recs.items()}


def _oracle_history(args):
    """shipped curves, one fresh process: the same coordinates / scalars / objects offered to several curves in turn"""
    tier, wd, order = args
    from ..common import repo_on_path
    repo_on_path()
    from register_crypto_plugin.ecdsa.ellipticcurve import PointJacobi, Point, INFINITY
    from register_crypto_plugin.ecdsa import keys, ecdh as ecdh_mod, ecdsa as ecdsa_mod, der as der_mod
    r = rng("c17/history/%d" % order)
    thorough = tier == "thorough"
    files = eclib.Files(os.path.join(wd, "hist%d" % order))
    rec = ORec()
    ncalls = 0
    blen = lambda cv: (int(cv.curve.p()).bit_length() + 7) // 8
    groups = {}
    for cv in eclib.shipped():
        groups.setdefault(blen(cv), []).append(cv)
    pairs = [(A, B) for g in groups.values() for A in g for B in g if A is not B]
    if order:
        pairs.reverse()
    pending = []            # (event, OpenSSL query) filled after the library part: keeps the library calls in one sequence

    def verdict(what, ctx, cvq, x962, fn, key=None):
        try:
            fn()
            lv, cls = "accept", ""
        except Exception as e:
            lv, cls = "reject", type(e).__name__
        e = rec.ev("verdict", what, lv, None, cls=cls, ctx=ctx, key=key)
        pending.append((e, (cvq, x962)))

    for A, B in pairs:
        L = blen(A)
        pa, pb = int(A.curve.p()), int(B.curve.p())
        for _ in range(40):
            d = r.randrange(1, int(A.order))
            try:
                Q = A.generator * d
                qx, qy = int(Q.x()), int(Q.y())
            except Exception as ex:
                rec.ev("flags", "%s: d*G raised %s" % (A.name, eclib.mro(ex)), [0], [])
                qx = qy = pb
            if qx < pb and qy < pb:
                break
        else:
            continue
        raw = qx.to_bytes(L, "big") + qy.to_bytes(L, "big")
        unc, comp = b"\x04" + raw, bytes([2 + (qy & 1)]) + raw[:L]
        tag = "history: point d=%d of %s " % (d, A.name)
        for rnd in (1, 2):
            verdict(tag + "loaded on its own curve (round %d) [%s]" % (rnd, raw.hex()), "pub-string", A, unc, lambda: keys.VerifyingKey.from_string(raw, A))
            verdict(tag + "loaded on its own curve from DER (round %d)" % rnd, "pub-der", A, unc, lambda: keys.VerifyingKey.from_der(eclib.spki(A, unc)))
            t2 = tag + "then offered to %s (round %d) " % (B.name, rnd)
            verdict(t2 + "from_string raw [%s]" % raw.hex(), "pub-string", B, unc, lambda: keys.VerifyingKey.from_string(raw, B))
            verdict(t2 + "from_string uncompressed", "pub-string", B, unc, lambda: keys.VerifyingKey.from_string(unc, B))
            verdict(t2 + "from_der", "pub-der", B, unc, lambda: keys.VerifyingKey.from_der(eclib.spki(B, unc)))
            verdict(t2 + "from_public_point", "pub-point", B, unc,
                    lambda: keys.VerifyingKey.from_public_point(PointJacobi(B.curve, qx, qy, 1), B))
            verdict(t2 + "from_public_point(affine Point of %s)" % A.name, "pub-point", B, unc,
                    lambda: keys.VerifyingKey.from_public_point(Point(A.curve, qx, qy), B))
            verdict(t2 + "Public_key(G, affine Point of %s)" % A.name, "public-key-ctor", B, unc,
                    lambda: ecdsa_mod.Public_key(B.generator, Point(A.curve, qx, qy)))
            verdict(t2 + "from_pem", "pub-pem", B, unc, lambda: keys.VerifyingKey.from_pem(der_mod.topem(eclib.spki(B, unc), "PUBLIC KEY")))
            verdict(t2 + "ECDH.load_received_public_key_bytes", "ecdh-bytes", B, unc, lambda: _ecdh_load(ecdh_mod, B, unc))
            verdict(t2 + "ECDH.load_received_public_key_der", "pub-der", B, unc, lambda: _ecdh_load_der(ecdh_mod, B, eclib.spki(B, unc)))
            verdict(t2 + "compressed", "pub-string", B, comp, lambda: keys.VerifyingKey.from_string(comp, B))
    # ---- ECDH objects whose curve / keys change during their life: no secret across curves
    cvs = eclib.shipped()
    byname = {c.name: c for c in cvs}
    epairs = [(A, B) for A, B in pairs if thorough or A.name in ("NIST256p", "SECP256k1", "BRAINPOOLP192r1", "SECP112r2", "NIST384p")]
    epairs += [(byname["NIST256p"], byname["NIST192p"]), (byname["NIST192p"], byname["NIST521p"])]
    derive = []
    for X, O in epairs:
        dA, dB = r.randrange(1, int(X.order)), r.randrange(1, min(int(X.order), int(O.order)))
        try:
            sk = keys.SigningKey.from_secret_exponent(dA, X)
            vkX = keys.SigningKey.from_secret_exponent(dB, X).get_verifying_key()
            vkO = keys.SigningKey.from_secret_exponent(dB, O).get_verifying_key()
        except Exception as ex:
            rec.ev("flags", "history: key generation on %s / %s raised %s" % (X.name, O.name, eclib.mro(ex)), [0], [])
            continue
        for name, pat, scen in _ecdh_scenarios():
            for how in ("int", "bytes"):
                sec, s = _ecdh_run(ecdh_mod.ECDH, scen, X, O, sk, vkX, vkO, how)
                what = "history: ECDH %s (private key dA=%d on %s, other curve %s, dB=%d), %s" % (name, dA, X.name, O.name, dB, how)
                if pat == (1, 1, 1):
                    L = blen(X)
                    e = rec.ev("eq", what + " = openssl derive", list(sec.to_bytes(L, "big")) if s == "ok" and sec < 256 ** L else [255], None, cls=s)
                    derive.append((e, X, dA, dB))
                else:
                    rec.ev("docreject", what + " -> %s" % (("secret %x" % sec) if s == "ok" else s), "accept" if s == "ok" else "reject", "",
                           cls=s.split("|")[0], ctx="ecdh-curves")
    # ---- look-alike Curve OBJECTS of a shipped curve (its field and a, b + 1 -- the invalid-curve set-up --, own generator,
    #      the target's order value), carrying the target's OID and name / no OID / another OID: as the peer key's curve in
    #      every call sequence.  The peer point is judged by OpenSSL as a point of the TARGET curve.
    from register_crypto_plugin.ecdsa.ellipticcurve import CurveFp
    from register_crypto_plugin.ecdsa.curves import Curve
    from register_crypto_plugin.ecdsa import numbertheory
    look_pending = []
    for X in [byname[nm_] for nm_ in (("NIST256p", "SECP256k1", "BRAINPOOLP256r1", "SECP112r2", "NIST384p", "SECP160r1") if thorough else ("NIST256p", "SECP256k1", "SECP112r2"))]:
        p, a_, b2 = int(X.curve.p()), int(X.curve.a()), (int(X.curve.b()) + 1) % int(X.curve.p())
        L = blen(X)
        evil = CurveFp(p, a_, b2, 1)
        while True:
            x = r.randrange(1, p)
            try:
                y = int(numbertheory.square_root_mod_prime((pow(x, 3, p) + a_ * x + b2) % p, p))
                break
            except numbertheory.SquareRootError:
                continue
        other_oid = byname["SECP128r1"].oid
        for lname, mk in (("same OID and name", lambda: Curve(X.name, evil, PointJacobi(evil, x, y, 1, int(X.order)), X.oid, X.openssl_name)),
                          ("same OID, other name", lambda: Curve("lookalike", evil, PointJacobi(evil, x, y, 1, int(X.order)), X.oid)),
                          ("no OID", lambda: Curve(X.name, evil, PointJacobi(evil, x, y, 1, int(X.order)), None)),
                          ("another curve's OID", lambda: Curve(X.name, evil, PointJacobi(evil, x, y, 1, int(X.order)), other_oid))):
            dA, dB = r.randrange(1, int(X.order)), r.randrange(1, int(X.order))
            try:
                Lk = mk()
                sk = keys.SigningKey.from_secret_exponent(dA, X)
                vkX = keys.SigningKey.from_secret_exponent(dB, X).get_verifying_key()
                vkO = keys.SigningKey.from_secret_exponent(dB, Lk).get_verifying_key()
                qb = b"\x04" + int(vkO.pubkey.point.x()).to_bytes(L, "big") + int(vkO.pubkey.point.y()).to_bytes(L, "big")
            except Exception as ex:
                rec.ev("flags", "history: look-alike of %s (%s): key generation raised %s" % (X.name, lname, eclib.mro(ex)), [0], [])
                continue
            for name, pat, scen in _ecdh_scenarios():
                if pat == (1, 1, 1):
                    continue
                for how in ("int", "bytes"):
                    sec, s = _ecdh_run(ecdh_mod.ECDH, scen, X, Lk, sk, vkX, vkO, how)
                    what = "history: ECDH %s, %s; peer curve object: look-alike of %s with b+1 (%s), peer point %s -> %s" % (
                        name, how, X.name, lname, qb.hex(), ("secret %x" % sec) if s == "ok" else s)
                    if pat[2] == 0:
                        e = rec.ev("verdict", what, "accept" if s == "ok" else "reject", None, cls=s.split("|")[0], ctx="ecdh-curves")
                        look_pending.append((e, X, qb))
                    else:
                        rec.ev("docreject", what, "accept" if s == "ok" else "reject", "", cls=s.split("|")[0], ctx="ecdh-curves")
            for how, fn in (("from_public_point(point object of the look-alike)", lambda: keys.VerifyingKey.from_public_point(vkO.pubkey.point, X)),
                            ("from_string(bytes of the look-alike's point)", lambda: keys.VerifyingKey.from_string(qb[1:], X)),
                            ("ECDH.load_received_public_key_bytes", lambda: _ecdh_load(ecdh_mod, X, qb))):
                try:
                    fn()
                    lv, cls = "accept", ""
                except Exception as ex:
                    lv, cls = "reject", type(ex).__name__
                e = rec.ev("verdict", "history: point %s of the look-alike of %s (%s) loaded through %s" % (qb.hex(), X.name, lname, how), lv, None, cls=cls,
                           ctx="ecdh-bytes" if "ECDH" in how else ("pub-point" if "point object" in how else "pub-string"))
                look_pending.append((e, X, qb))
    # ---- one long-lived ECDH object per curve, 60 peers loaded in turn (bytes / DER / PEM / object), no references kept,
    #      gc in between, private key re-loaded now and then: every secret compared with `openssl pkeyutl -derive`
    import gc
    for X in [byname[nm_] for nm_ in (sorted(byname) if thorough else ("NIST256p", "SECP160r1", "BRAINPOOLP384r1", "SECP112r2"))]:
        L = blen(X)
        nX = int(X.order)
        dA = r.randrange(1, nX)
        try:
            e_obj = ecdh_mod.ECDH(X, keys.SigningKey.from_secret_exponent(dA, X))
        except Exception as ex:
            rec.ev("flags", "history: long-lived ECDH on %s: set-up raised %s" % (X.name, eclib.mro(ex)), [0], [])
            continue
        for i in range(60):
            dB = r.randrange(1, nX)
            how = ("bytes", "der", "pem", "object", "bytes-compressed")[i % 5]
            pub_der = eclib.ossl_pub_raw(X, dB)[1]                  # the peer's key comes from OpenSSL
            ncalls += 1
            try:
                if how == "bytes":
                    e_obj.load_received_public_key_bytes(pub_der[-2 * L - 1:])
                elif how == "bytes-compressed":
                    e_obj.load_received_public_key_bytes(bytes([2 + (pub_der[-1] & 1)]) + pub_der[-2 * L:-L])
                elif how == "der":
                    e_obj.load_received_public_key_der(pub_der)
                elif how == "pem":
                    e_obj.load_received_public_key_pem(der_mod.topem(pub_der, "PUBLIC KEY"))
                else:
                    e_obj.load_received_public_key(keys.VerifyingKey.from_der(pub_der))
                if i % 3 == 0:
                    gc.collect()
                if i % 13 == 12:
                    dA = r.randrange(1, nX)
                    e_obj.load_private_key(keys.SigningKey.from_secret_exponent(dA, X))
                lib, cls = (e_obj.generate_sharedsecret_bytes() if i % 2 else int(e_obj.generate_sharedsecret()).to_bytes(L, "big")), ""
            except Exception as ex:
                lib, cls = b"\xff", eclib.mro(ex)
            ev_ = rec.ev("eq", "history: long-lived ECDH object on %s, peer %d of 60 loaded as %s (dA=%d dB=%d) = openssl derive" % (X.name, i + 1, how, dA, dB),
                         list(lib), None, cls=cls)
            derive.append((ev_, X, dA, dB))
    # ---- k*G on A, on B, on A again (same integers)
    mulq = []
    for A, B in pairs:
        for k in (int(A.order) - 1, 2 ** (int(A.order).bit_length() - 1) + 1, r.randrange(1, int(A.order))):
            for cv in (A, B, A):
                n = int(cv.order)
                try:
                    lib = _raw(cv.generator * k, INFINITY)
                    cls = ""
                except Exception as ex:
                    lib, cls = b"\xff", eclib.mro(ex)
                e = rec.ev("eqinf", "history: %s k*G k=%d (sequence %s, %s, %s)" % (cv.name, k, A.name, B.name, A.name), lib, None,
                           zero=int(k % n == 0), cls=cls)
                mulq.append((e, cv, k % n))
    # ---- OpenSSL answers
    pending += [(e, (X, qb)) for e, X, qb in look_pending]
    uq = sorted({(cvq.name, x962) for _, (cvq, x962) in pending})
    ans = dict(zip(uq, eclib.pmap(lambda q: eclib.ossl_pubcheck(byname[q[0]], q[1]), uq, workers=8)))
    ncalls += len(uq)
    for e, (cvq, x962) in pending:
        e["ref"] = ans[(cvq.name, x962)]
    um = sorted({(cv.name, k) for _, cv, k in mulq if k})
    ansm = dict(zip(um, eclib.pmap(lambda q: eclib.ossl_pub_raw(byname[q[0]], q[1])[0], um, workers=8)))
    ncalls += len(um)
    for e, cv, k in mulq:
        e["ref"] = list(ansm[(cv.name, k)]) if k else []
    ud = sorted({(X.name, dA, dB) for _, X, dA, dB in derive})

    def dv(q):
        X = byname[q[0]]
        fa = files.put(eclib.priv_der_nopub(X, q[1]), "ka")
        pb = files.put(eclib.ossl_pub_raw(X, q[2])[1], "pb")
        return eclib.ossl_derive(fa, pb)
    ansd = dict(zip(ud, eclib.pmap(dv, ud, workers=8)))
    ncalls += 2 * len(ud)
    for e, X, dA, dB in derive:
        e["ref"] = list(ansd[(X.name, dA, dB)])
    return "history%d" % order, rec.evs, ncalls


def _ecdh_load_pem(ecdh_mod, cv, data):
    e = ecdh_mod.ECDH(cv)
    e.load_received_public_key_pem(data)
    return e.public_key


def _ecdh_load_der(ecdh_mod, cv, data):
    e = ecdh_mod.ECDH(cv)
    e.load_received_public_key_der(data)
    return e.public_key


# ====================================================================== the check
def run(tier):
    import multiprocessing as mp
    rep = Report("C17", tier)
    ossl_version = eclib.require_openssl()
    thorough = tier == "thorough"
    prime_curves = ["T17", "T11", "T13"] + (["T23"] if thorough else [])
    with Scratch("c17") as wd:
        # ---------------------------------------------------------------- record (worker processes) while TLC model-checks
        ctx = mp.get_context("fork")
        pool = ctx.Pool(8)
        tiny_async = pool.map_async(_tiny_job, [(nm, tier, "c17/" + nm) for nm in prime_curves + ["TH2", "TH4"]])
        ora_async = pool.map_async(_oracle_curve, [(i, tier, wd) for i in range(17)], chunksize=1)
        # histories: each in a fresh interpreter of its own
        thist_async = eclib.FreshJobs(os.path.join(wd, "fresh"), "harness.checks.c17", "_tiny_history", [(tier, 0), (tier, 1)])
        ohist_async = eclib.FreshJobs(os.path.join(wd, "fresh"), "harness.checks.c17", "_oracle_history", [(tier, wd, 0), (tier, wd, 1)])

        def mc(job):
            nm, invs, tag = job
            return job, tlc.run(os.path.join(SPEC, "MC_ECGroup.tla"), _mc_cfg(nm, invs), os.path.join(wd, "mc_%s_%s" % (nm, tag)),
                                workers=3, timeout=900)
        jobs = [(nm, MC_INV, "ax") for nm in prime_curves] + [(nm, [i for i in MC_INV if i != "PrimeOrder"], "ax") for nm in ("TH2", "TH4")] + \
               [("T17", ["BadLawClosed"], "st1"), ("T11", ["BadLawAssoc"], "st2")]
        with cf.ThreadPoolExecutor(max_workers=len(jobs)) as ex:
            for (nm, invs, tag), res in ex.map(mc, jobs):
                if tag == "ax":
                    tlc.require_ok(res, "MC_ECGroup " + nm)
                    p, a, b, gx, gy, n, h = TINY[nm]
                    rep.add_mc("MC_ECGroup %s: y^2=x^3+%dx+%d over F_%d, |E|=%d (%s)" % (nm, a, b, p, n * h, ", ".join(invs)), res,
                               {"P": p, "A": a, "B": b, "G": [gx, gy], "N": n, "H": h,
                                "states": "(p, q) in Group^2 x k in 0..2NH+1"})
                else:
                    if invs[0] not in res.violated:
                        raise MachineryError("self-test: the law without the `a` term was not refuted by TLC (%s on %s):\n%s"
                                             % (invs[0], nm, res.clean()[-1500:]))
                    rep.cov["parts"]["selftest MC %s %s" % (nm, invs[0])] = \
                        "wrong law (tangent slope 3x^2/(2y), `a` dropped) refuted by TLC after %d states" % res.distinct
        try:
            tiny = dict(tiny_async.get(timeout=1500))
            ora = ora_async.get(timeout=2400)
            thist = eclib.get_or_report(rep, "C17", thist_async, 1500)
            ora = list(ora) + eclib.get_or_report(rep, "C17", ohist_async, 2400)
        finally:
            pool.terminate()
            thist_async.terminate()
            ohist_async.terminate()
        nhist = 0
        for h in thist:
            for nm, evs in h.items():
                for e in evs:
                    e["tid"] = tiny[nm][-1]["tid"] + 1
                    e["_hist"] = 1
                    tiny[nm].append(e)
                    nhist += 1
        rep.cov["parts"]["histories"] = {"tiny_curve_history_events": nhist,
                                         "what": "single fresh processes, both orders: all (x, y) as public keys on T11 and TH2 (same field) in alternation; "
                                                 "ECDH objects whose curve / keys change during their life (TLC: secret only if all three curves agree); "
                                                 "shipped curves: a point validated on A offered to B (same field size), k*G on A, B, A, ECDH curve changes"}

        # ---------------------------------------------------------------- canaries (binding self-test)
        canaries = {}
        selftest = []          # failed self-tests: MachineryError only if the run is otherwise clean (a deviating library may spoil a canary)
        for nm, evs in tiny.items():
            cop = "add" if TINY[nm][6] == 1 else "pub"
            base = next((e for e in evs if e["op"] == cop and e["s"] == "ok" and e["out"][0] == 0), None)
            if base is not None:
                cz = dict(base)
                cz["out"] = [0, base["out"][1], (base["out"][2] + 1) % TINY[nm][0]]
            else:
                cz = dict(next(e for e in evs if e["op"] == cop))
                cz["s"], cz["out"] = "ok", ([2, 0, 0] if cop == "add" else [0, TINY[nm][0], TINY[nm][0]])
            cz["tid"] = evs[-1]["tid"] + 1
            cz.pop("_hist", None)
            evs.append(cz)
            canaries[nm] = cz["tid"]
        oevs = []
        okeys = {}
        ncalls = 0
        for nm, evs, nc in ora:
            ncalls += nc
            for e in evs:
                e["tid"] = len(oevs) + 1
                oevs.append(e)
        base = next((e for e in oevs if e["op"] == "eq" and e["lib"] == e["ref"] and e["lib"]), None)
        if base is not None:
            cz = dict(base); cz["lib"] = list(base["lib"]); cz["lib"][-1] ^= 1
        else:
            cz = dict(next(e for e in oevs if e["op"] == "eq")); cz["lib"] = []
        cz["tid"] = len(oevs) + 1; cz["what"] = "CANARY " + cz["what"]; cz.pop("_key", None)
        oevs.append(cz)
        base = next((e for e in oevs if e["op"] == "verdict" and e["lib"] == "reject" and e["ref"] == "reject"), None)
        if base is not None:
            cz2 = dict(base); cz2["lib"] = "accept"
        else:
            cz2 = dict(next(e for e in oevs if e["op"] == "verdict")); cz2["lib"] = "neither"
        cz2["tid"] = len(oevs) + 1; cz2["what"] = "CANARY " + cz2["what"]; cz2.pop("_key", None)
        oevs.append(cz2)
        ocan = {cz["tid"], cz2["tid"]}

        # ---------------------------------------------------------------- validation by TLC
        vjobs = [(nm, "Trace_ECGroup", TRACE_CFG + eclib.consts(nm), evs) for nm, evs in tiny.items()]
        vjobs.append(("oracle", "Trace_ECOracle", TRACE_CFG, oevs))
        results = eclib.validate_many(vjobs, wd, total_shards=16, timeout=2400)

        vctx = {}
        for nm, evs in tiny.items():
            rej, st = results[nm]
            byid = {e["tid"]: e for e in evs}
            ids = {x[1] for x in rej}
            if canaries[nm] not in ids:
                selftest.append("binding self-test: corrupted result on %s was accepted by Trace_ECGroup" % nm)
            for x in rej:
                if x[1] == canaries[nm]:
                    continue
                e = byid[x[1]]
                if x[2] == "bad-operand":
                    raise MachineryError("harness produced an operand that is not a representative: %r" % (e,))
                _tiny_violation(rep, nm, e, x, vctx)
            ops = {}
            for e in evs[:-1]:
                ops[e["op"]] = ops.get(e["op"], 0) + 1
            unred = sum(1 for e in evs[:-1] if e["op"] != "pub" and e["out"][0] == 0 and not (0 <= e["out"][1] < TINY[nm][0] and 0 <= e["out"][2] < TINY[nm][0]))
            if unred:
                rep.cov.setdefault("observations", {})["%s: results with an unreduced affine coordinate (e.g. y of -P is returned as -y; compared as residues, not a violation)" % nm] = unred
            rep.add_trace("Trace_ECGroup %s (library on the tiny curve; expected values computed by TLC)" % nm, st, len(evs) - 1,
                          extra={"events_by_op": ops, "curve": dict(zip("P A B GX GY N H".split(), TINY[nm]))})
        rej, st = results["oracle"]
        ids = {x[1] for x in rej}
        if not ocan <= ids:
            selftest.append("binding self-test: corrupted oracle event was accepted by Trace_ECOracle")
        byid = {e["tid"]: e for e in oevs}
        for x in rej:
            if x[1] in ocan:
                continue
            e = byid[x[1]]
            key = e.get("_key") or (x[2] + ":" + (e["ctx"] or e["op"]))
            rep.violation("C17:" + key, "%s: %s (library %r / OpenSSL %r, %s)" % (x[2], e["what"], _short(e["lib"]), _short(e["ref"]), e["cls"]),
                          {k: v for k, v in e.items()})
        oops = {}
        for e in oevs[:-2]:
            oops[e["op"]] = oops.get(e["op"], 0) + 1
        rep.add_trace("Trace_ECOracle (17 shipped curves: library byte strings / verdicts vs OpenSSL)", st, len(oevs) - 2,
                      spec_computed=False, extra={"events_by_relation": oops, "openssl_calls": ncalls, "openssl": ossl_version,
                                                  "curves": [c.name for c in eclib.shipped()]})
        # samples
        t17 = tiny["T17"]
        for op in ("add", "mul", "muladd", "pub", "ecdh"):
            rep.sample(next(e for e in t17 if e["op"] == op and e["out"] != [1, 0, 0] and e["a"][2] > 1) if op not in ("ecdh", "pub")
                       else next(e for e in t17 if e["op"] == op and (e["k"], e["m"]) == ((2, 3) if op == "ecdh" else (0, 0))))
        rep.sample({k: v for k, v in next(e for e in oevs if e["op"] == "eqinf" and e["zero"] == 0).items() if not k.startswith("_")}, limit=8)
        rep.sample({k: v for k, v in next(e for e in oevs if e["op"] == "verdict").items() if not k.startswith("_")}, limit=8)
    if selftest and not rep.violations:
        raise MachineryError("; ".join(selftest))
    rep.cov["exhaustive"] = thorough
    rep.cov["explanation"] = ("group axioms / Mul / ECDH / ValidPub exhausted by TLC on each tiny curve; the library driven on every pair of "
                              "group elements (incl. infinity, equal, inverse) x Jacobian representatives (all (l1, l2) in the thorough tier "
                              "for p <= 17) and on every (x, y) in (0..p+1)^2 as a public key; shipped curves sampled against OpenSSL")
    rep.assumptions += [
        "TLC integer arithmetic; tiny primes p <= 23 (the formulas are polynomial identities that branch only on zero tests)",
        "shipped curves: OpenSSL %s is the reference; the harness reduces scalars mod n with Python integers to state which OpenSSL result an operation must equal (group homomorphism, model-checked on the tiny curves)" % ossl_version,
        "points outside the subgroup of SECP112r2 are crafted with a 15-line affine add in the harness (inputs only; verdict from OpenSSL)",
        "Edwards curves excluded (already failing in the pinned baseline)",
    ]
    return rep


def _short(v):
    if isinstance(v, list):
        return bytes(v).hex()
    return v


def _tiny_violation(rep, nm, e, x, ctx):
    from .. import tlaval
    clause, detail = x[2], x[3]
    key = None
    if clause in ("order-check-reads-y0-as-infinity", "infinity-object-exception-class", "order2-affine-point-exception-class", "foreign-object-order-check"):
        key = clause
    elif clause == "y0-result-read-as-infinity":
        key = "order-check-reads-y0-as-infinity"        # same root (Y = 0 is the library's infinity), named by the specification
    elif e["op"] in ("neg", "negadd") and e["via"].split(",")[0] == "INF" and e["s"].startswith("raise:AttributeError"):
        key = "neg-infinity-object-raises"
    elif e["op"] in ("add", "negadd", "dbl", "mul", "muladd", "ecdh"):
        # does the proposed patch of _add_with_z_1 turn the result into the one the specification computed?
        try:
            exp = tlaval.parse(detail)
        except Exception:
            exp = None
        T = ctx.setdefault(("T", nm), Tiny(nm))
        with PatchedAddZ1() as pa:
            if pa.active and exp is not None:
                f = T.run(e["op"], e["via"], e["a"], e["b"], e["k"], e["m"])
                if e["op"] == "ecdh":
                    fixed = f["s"] == "ok" and f["a"][0] == exp and f["a"][1] == exp
                else:
                    o = f.get("out", (2, 0, 0))
                    fixed = f["s"] == "ok" and (tuple(o) == (1, 0, 0) if tuple(exp) == (1, 0, 0)
                                                else (o[0] == 0 and o[1] % TINY[nm][0] == exp[1] and o[2] % TINY[nm][0] == exp[2]))
                if fixed:
                    key = "add-z1-unreduced-y"
    if key is None:
        via = e["via"]
        if via.startswith("gen-int"):
            via = via.split(":")[0]
        elif via.startswith("long-lived"):
            via = "long-lived"
        elif e["op"] == "ecdhh":
            parts = via.split(":")
            via = parts[0] + (":" + parts[2] if len(parts) > 2 else "")
        key = "%s:%s:%s" % (clause, e["op"], via)
    rep.violation("C17:" + key, "%s %s via %s a=%s b=%s k=%d m=%d -> library %s %s; specification %s %s" % (
        nm, e["op"], e["via"], e["a"], e["b"], e["k"], e["m"], e["out"], e["s"], clause, detail), dict(e, curve=nm, params=TINY[nm]))
