"""C04: damaged or truncated files are never silently accepted as different content.
MC: NoSilentAccept on the abstract instance: every authentic content x every cell x every replacement class (incl. copies
    of every token of the file), every proper prefix, suffixes, the other key (TLC, exhaustive).
C->S: authentic real files x every byte position x {8 single-bit flips, 00, FF, +1}, every proper prefix of the binary and
    of the text, appended suffixes, every single-bit change of the session key; the real reader's outcome is recorded and TLC
    evaluates (a) NoSilentAccept: accepted => content = authentic content, (b) the concrete Parse on the damaged bytes
    (verdict agreement = C05's criterion, reported here as a diagnostic unless content differs)."""
import io, os, multiprocessing as mp

from ..common import SPEC, Scratch, rng, MachineryError, B
from ..report import Report
from .. import tlc, bf3lib as L
from . import bf3common as C3, bec2common as C


def variants_of(binary, text, r, full=True):
    """(label, damaged_text) list.  Binary-level damage is re-encoded as canonical hex text."""
    def txt(b):
        s = io.StringIO()
        L.Bf3File.write_bf3_format(s, {}, b)
        return s.getvalue()
    head = text[:text.index("\n\n") + 1] if not text.startswith("\n") else ""
    out = []

    def with_head(t):
        return head + t if head else t
    big = len(binary) > 700
    positions = range(len(binary))
    if big:      # a large file: sampled positions in the directory, in every 1 KiB region of the payload and at both ends
        n = len(binary)
        per = 1 if not full else 6
        positions = sorted(set(r.sample(range(9, 70), 6 * per)) | {r.randrange(a, min(a + 1024, n)) for a in range(70, n, 1024) for _ in range(per)}
                           | set(range(n - 3 * per, n)))
    for p in positions:
        vals = {binary[p] ^ (1 << k) for k in range(8)} | {0, 0xFF, (binary[p] + 1) & 0xFF}
        vals.discard(binary[p])
        if not full or big:
            vals = set(r.sample(sorted(vals), 2 if big else 3))
        for v in sorted(vals):
            b = bytearray(binary)
            b[p] = v
            out.append(("byte%d=%02x" % (p, v), with_head(txt(bytes(b)))))
    for n in (range(len(binary)) if not big else sorted(set(r.sample(range(len(binary)), 8)) | set(range(len(binary) - 4, len(binary))))):
        out.append(("binprefix%d" % n, with_head(txt(binary[:n]))))
    for n in (range(len(text)) if not big else sorted(set(r.sample(range(len(text)), 6)) | set(range(len(text) - 6, len(text))))):
        if full or n % 3 == 0 or n > len(text) - 40:
            out.append(("textprefix%d" % n, text[:n]))
    for suf in (b"\x00", b"\xff", b"\x00\x00", b"\x01"):
        out.append(("suffix" + suf.hex(), with_head(txt(binary + suf))))
    out.append(("textsuffix0", text + "0"))
    out.append(("textsuffix00", text + "00\n"))
    return out


def _bf3_worker(args):
    comments, comps, key, seed, full = args
    import random
    r = random.Random(seed)
    f = L.Bf3File(dict(comments), [L.mk_comp({t: bytes(v) for t, v in c["desc"]}, bytes(c["blob"]), c["alen"], c["enc"]) for c in comps])
    s = io.StringIO()
    f.write_file(s, key)
    text = s.getvalue()
    binary = L.BF3_FILE_SIG + f.to_binary(5, key)
    auth = L.proj_file(f)
    rec = L.Rec()
    # history: the same process first reads the authentic file WITHOUT MAC checking, then with; whatever the library may
    # remember from those reads, every later read with checking on must still refuse damaged content
    L.rec_read(rec, text, key, False, False, None, auth=auth, label="authentic-unchecked")
    L.rec_read(rec, text, key, True, False, None, auth=auth, label="authentic")
    vs = variants_of(binary, text, r, full)
    if len(comps) > 255:          # the many-components shape costs TLC ~1 s per event: the damage in the last payload bytes + every 12th other variant
        tail = {"byte%d" % p for p in range(len(binary) - 3, len(binary))}
        vs = [v for i, v in enumerate(vs) if v[0].split("=")[0] in tail or i % 12 == 0]
    for label, t in vs:
        L.rec_read(rec, t, key, True, False, None, auth=auth, label=label)
    for bit in (range(128) if len(binary) <= 700 else (0, 77, 127) if len(comps) <= 255 else (77,)):
        k2 = bytearray(key)
        k2[bit // 8] ^= 1 << (bit % 8)
        L.rec_read(rec, text, bytes(k2), True, False, None, auth=auth, label="keybit%d" % bit)
    return rec.events


def pool_files(r, tier):
    files = []
    shapes = [
        ({}, [({}, bytes([1, 2, 3, 0, 0]), 5, False)]),                                   # zero tail
        ({"k": "v"}, [({0x10: b"ab"}, bytes(range(1, 18)), 9, False), ({}, bytes(16), 16, False)]),
        ({}, []),                                                                          # no components
        ({"Configuration": "c"}, [({0xC3: b"\x03", 0xC2: b"\x02"}, bytes([9, 8, 7, 6, 5, 4, 3, 0]), 8, True)]),
        # every value of the ENC tag other than "session key" is a plain component for the reader: firmware-key (01) and plain (00)
        ({}, [({0xC2: b"\x01", 0xC3: b"\x02"}, bytes(range(30, 53)), 23, False), ({0xC2: b"\x00"}, b"\x01\x02\x03", 3, False)]),
        # a payload longer than 4 KiB (several regions of any chunked MAC computation), damaged at sampled positions
        ({}, [({0x11: b"big"}, bytes((j * 7 + j // 256) % 251 for j in range(4200 + 37)), 4237, False)]),
    ]
    if not os.environ.get("VERIF_ENVPASS"):
        # more than 255 components (a count or index kept in one byte wraps here): the sampled damage includes the last bytes of
        # the file, which are the payload of component 260 (a matter of size, not of the interpreter mode: first pass only)
        shapes.append(({}, [({}, bytes([(j * 5 + 1) & 0xFF]), 1, False) for j in range(260)]))
    if tier == "thorough":
        for _ in range(20):
            f = L.gen_bf3(r, 2)
            shapes.append((f.comments, [(c.description, c.blob[:40], min(c.actual_len, len(c.blob[:40])), False) for c in f.components]))
    for cm, comps in shapes:
        files.append((list(cm.items()), [{"desc": [[t, list(v)] for t, v in d.items()], "blob": list(b), "alen": a, "enc": e} for d, b, a, e in comps]))
    return files


def _toy_part(rep, wd, r, tier):
    """Lossy MAC comparisons.  With a real MAC a comparison that looks at less than the whole MAC (truncation, an XOR-fold or a
    sum of its words) lets damage through only with negligible probability - invisible to any input-based check.  The same
    sweep is therefore run once more with a TOY back end registered through the public plug-in interface whose MAC has 8 bits of
    entropy (sixteen equal bytes); the specification is instantiated on the same toy cipher (spec/Trace_Bf3Toy.tla), so a
    complete comparison agrees with it event by event (toy collisions included) and any lossy comparison shows as excess
    acceptance."""
    from .. import toycipher
    rec = L.Rec()
    with toycipher.registered() as T:
        for _ in range(40):
            key, ix, data = L.gen_key(r), r.choice([0, 1, 2, 255, 256, 70000]), bytes(r.randrange(256) for _ in range(r.choice([1, 15, 16, 17, 40])))
            rec.add({"op": "toy.mac", "key": B(key), "ix": ix, "data": B(data), "out": B(T(key, ix.to_bytes(16, "big") if ix else None).mac(data))})
            rec.add({"op": "toy.enc", "key": B(key), "data": B(data), "out": B(T(key).encrypt(data))})
        shapes = [L.Bf3File({"k": "v"}, [L.mk_comp({0x10: b"ab"}, bytes(range(1, 24)), 23), L.mk_comp({}, bytes(16))]),
                  L.Bf3File({}, [L.mk_comp({0xC3: b"\x03", 0xC2: b"\x02"}, bytes(range(9, 30)), 21, True), L.mk_comp({7: b"x"}, b"\x05\x04\x03")])]
        ndam = nacc = 0
        for f in shapes:
            key = L.gen_key(r)
            text = L.rec_write(rec, f, key, False, wd)
            auth = rec.last_written
            L.rec_read(rec, text, key, True, False, wd, auth=auth, label="authentic")
            binary = L.BF3_FILE_SIG + f.to_binary(5, key)
            for p in range(5, len(binary)):
                vals = {binary[p] ^ (1 << k) for k in range(8)} | {0, 0xFF, (binary[p] + 1) & 0xFF}
                vals.discard(binary[p])
                for v in (sorted(vals) if tier == "thorough" else r.sample(sorted(vals), 3)):
                    b = bytearray(binary)
                    b[p] = v
                    s = io.StringIO()
                    L.Bf3File.write_bf3_format(s, {}, bytes(b))
                    ev = L.rec_read(rec, s.getvalue(), key, True, False, wd, label="byte%d=%02x" % (p, v))
                    ndam += 1
                    nacc += 1 if ev["kind"] == "ok" else 0
    dmg = [e for e in rec.events if e["op"] == "bf3.read" and e["kind"] == "raise"]
    can = dict(dmg[0] if dmg else rec.events[-1], kind="ok")
    rec.add(can)
    rej, st = tlc.validate_trace(os.path.join(SPEC, "Trace_Bf3Toy.tla"), "INIT Init\nNEXT Next\n", rec.events, os.path.join(wd, "toy"), shards=16)
    ids = {x[1]: x for x in rej}
    byid = {e["tid"]: e for e in rec.events}
    for tid, x in ids.items():
        if tid == can["tid"]:
            continue
        e = byid[tid]
        slim = {k: (v if not isinstance(v, list) or len(v) < 600 else v[:600]) for k, v in e.items()}
        rep.violation("C04:toy-cipher:%s:%s" % (e["op"], x[2]), "with the 8-bit toy MAC registered: %s event rejected by the specification instantiated "
                      "on the same toy cipher: %s (%s)" % (e["op"], x[2], e.get("label", "")), slim)
    if can["tid"] not in ids and not rep.violations:
        raise MachineryError("binding self-test: an accepted damaged file was not flagged by Trace_Bf3Toy")
    rep.add_trace("Trace_Bf3Toy: the damage sweep with an 8-bit toy MAC registered through the plug-in interface (lossy MAC comparisons become visible)",
                  st, len(rec.events) - 1, extra={"damaged_files": ndam, "accepted_by_code_and_specification_alike (toy collisions)": nacc})


def run(tier):
    rep = Report("C04", tier)
    r = rng("c04")
    with Scratch("c04") as wd:
        if tier == "quick":
            C3.mc_hold(rep, wd, "mc1", ["NoSilentAccept"], 1, 3)
        else:
            C3.mc_hold(rep, wd, "mc1", ["NoSilentAccept"], 1, 4)
            C3.mc_hold(rep, wd, "mc2", ["NoSilentAccept"], 2, 2)
        tr = C3.mc_refuted(rep, wd, "st_short", "NoSilentAccept", "SHORT_READ_OK")
        C3.run_mc  # noqa
        res = C3.run_mc(rep, wd, "st_unchecked", ["NoSilentAcceptUnchecked"], 1, 2)
        if "NoSilentAcceptUnchecked" not in res.violated:
            raise MachineryError("vacuity self-test: damage is not visible without the MAC check")
        rep.cov["parts"]["selftests"].append("without MAC checking TLC finds silently accepted damage (the invariant is not vacuous)")
        files = pool_files(r, tier)
        jobs = [(cm, comps, L.gen_key(r) if j else L.ZERO_KEY, r.randrange(1 << 30), True if tier == "thorough" or sum(len(c["blob"]) for c in comps) < 600 else False)
                for j, (cm, comps) in enumerate(files)]
        with mp.Pool(min(16, len(jobs))) as pool:
            lists = pool.map(_bf3_worker, jobs)
        rec = L.Rec()
        for evs in lists:
            for e in evs:
                rec.add(e)
        # BEC2 framing
        from .. import bec2lib as B2, bec2gen as G
        from ..oracle_openssl import Oracle
        with B2.Seams() as seams:
            orc = Oracle(wd)
            rcpts = G.Recipients(orc, r, 1)
            # (block kinds, decryptors used): two decryptable blocks read with both; an ECC block read with exactly ONE ECC decryptor
            kindsets = [(["cust", "update"], None), (["ecc"], None)] if tier == "quick" else \
                [(["cust", "update"], None), (["ecc"], None), (["update"], None), (["ecc", "cust"], None), (["cust", "unknown"], None),
                 (["update", "ecc", "cust"], ["ecc"]), (["update", "ecc", "cust"], ["update"])]
            for kinds, only in kindsets:
                plan = G.Plan(r, rcpts, kinds, key_cls="z1", explicit_key=True)
                cont = L.Bf3File({}, [L.mk_comp({7: b"x"}, bytes([5, 4, 3, 2, 1, 0, 0]), 7)])
                f, text, _ = C.write_plan(rec, seams, orc, r, plan, content=cont)
                auth = B2.proj_bec2(f)
                binary = f.to_binary(plan.encs_w) if "ecc" not in kinds else B2.to_binary_of_text(text)
                if "ecc" not in kinds:
                    s = io.StringIO()
                    L.Bf3File.write_bf3_format(s, {}, binary)
                    text = s.getvalue()
                decs = [d for k, d in plan.decs.items() if only is None or k in only]
                ev0 = B2.rec_bec2_read(rec, text, decs, plan.ecc_privs, orc, True, auth=auth, label="authentic")
                hdr_len = len(binary) - len(f.bf3file.to_binary(0, f.session_key))
                vs = variants_of(binary, text, r, full=(tier == "thorough"))
                # every byte of the header (signature, tags, lengths, selector, wrapped keys) with two replacement values
                for p in range(hdr_len):
                    for v in (binary[p] ^ (1 << (p % 8)), (binary[p] + 1) & 0xFF):
                        b = bytearray(binary)
                        b[p] = v
                        s2 = io.StringIO()
                        L.Bf3File.write_bf3_format(s2, {}, bytes(b))
                        vs.append(("hdrbyte%d=%02x" % (p, v), s2.getvalue()))
                for label, t in vs:
                    B2.rec_bec2_read(rec, t, decs, plan.ecc_privs, orc, True, auth=auth, label=label, auth_blocks=ev0["blocks"])
        # binding self-test: an accepted event whose content differs from the authentic one must be flagged
        oks = [e for e in rec.events if e["op"] == "bf3.read" and e["kind"] == "ok" and e["comps"]]
        ok_ev = oks[0] if oks else dict(rec.events[0], kind="ok", comps=[{"desc": [], "blob": [1], "alen": 1, "enc": False}],
                                        auth_comps=[{"desc": [], "blob": [1], "alen": 1, "enc": False}], has_auth=1)
        can = dict(ok_ev)
        can["auth_comps"] = [dict(c) for c in can["auth_comps"]]
        can["auth_comps"][0] = dict(can["auth_comps"][0], blob=can["auth_comps"][0]["blob"][:-1] + [can["auth_comps"][0]["blob"][-1] ^ 1])
        rec.add(can)
        rej, st = C.validate(rec.events, wd, timeout=2400)
        ids = {x[1]: x for x in rej}
        canary_ok = ids.get(can["tid"], (0, 0, ""))[2] == "silent-accept"
        byid = {e["tid"]: e for e in rec.events}
        diag = 0
        for tid, x in ids.items():
            if tid == can["tid"]:
                continue
            e = byid[tid]
            slim = {k: (v if not isinstance(v, list) or len(v) < 600 else v[:600]) for k, v in e.items()}
            if x[2].startswith("silent-accept") or x[2].startswith("content") or x[2].startswith("session-key-differs"):
                rep.violation("C04:silent-accept:%s" % e.get("label", "?").rstrip("0123456789=abcdef"), "damaged file (%s) accepted with different content" % e.get("label"), slim)
            elif x[2].startswith("accepted-"):
                # accepted although the specification's parser rejects the damaged bytes, content equal to the authentic one:
                # C04 allows it (C05 does not); a damaged file that still carries the same content is a diagnostic here
                diag += 1
            elif x[2] == "rejected-wellformed":
                diag += 1
            else:
                rep.violation("C04:%s" % x[2].split(":")[0], "event rejected by the specification: %s (%s)" % (x[2], e.get("label")), slim)
        if not canary_ok and not rep.violations:
            raise MachineryError("binding self-test: silently accepted different content not flagged")
        _toy_part(rep, wd, r, tier)
        n_acc = sum(1 for e in rec.events if e["op"] in ("bf3.read", "bec2.read") and e["kind"] == "ok")
        rep.add_trace("Trace_Bec2: real reader on every single-byte replacement class, every binary/text prefix, suffixes, key-bit flips", st,
                      len(rec.events) - 1, extra={"authentic_files": len(files) + len(kindsets), "accepted_variants": n_acc,
                                                  "verdict_diagnostics_not_c04": diag})
        e1 = [e for e in rec.events if e.get("label", "").startswith("byte")][0]
        rep.sample({"label": e1["label"], "kind": e1["kind"], "exc": e1.get("exc", {}).get("cls"), "text_len": len(e1["text"])})
        e2 = [e for e in rec.events if e.get("label", "").startswith("textprefix")][7]
        rep.sample({"label": e2["label"], "kind": e2["kind"], "exc": e2.get("exc", {}).get("cls")})
    rep.cov["exhaustive"] = True
    rep.assumptions += ["a damaged file passing a 128-bit MAC by chance (2^-128) is ignored", "AES.tla"]
    return rep
