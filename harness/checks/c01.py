"""C01: BF3 write-then-read returns the same file.
MC: RoundTrip on the bounded abstract instance (TLC, exhaustive).
S->C: every content TLC enumerated is concretised and round-tripped through the real writer/reader;
      the read-back must equal what the specification says.
C->S: random real files (payload lengths around multiples of 16 and 40, zero tails, tag lists up to the
      entry limit, comments, keys) written through a stream and through a path, read back with MAC
      checking on and off; TLC validates text = envelope(Serialize), and read-back = ReadText;Parse."""
import os

from ..common import SPEC, Scratch, rng, MachineryError
from ..report import Report
from .. import tlc, bf3lib as L, errpaths as E
from . import bf3common as C


def gen_events(rec, r, n, wd, rep):
    skipped = 0
    for j in range(n):
        f = L.gen_bf3(r)
        key = L.gen_key(r)
        disk = (j % 3 == 0)
        try:
            text = L.rec_write(rec, f, key, disk, wd)
        except OverflowError:
            skipped += 1            # the writer refuses an over-long tag list: outside "accepted by the writer"
            continue
        auth = rec.last_written
        L.rec_read(rec, text, key, True, disk, wd, auth=auth)
        L.rec_read(rec, text, key, False, not disk, wd, auth=auth)
        if j % 2 == 0 and text:
            # the same file in another legal text layout (case, line width, separators, CRLF)
            L.rec_read(rec, L.reformat(r, text), key, j % 4 == 0, False, wd, auth=auth)
        if j % 5 == 2 and text and f.components:
            # a file whose payload was patched by hand (MACs now inconsistent), read WITHOUT MAC checking, then saved again with
            # the same key: the saved file is an ordinary file of the content that was read (fresh, consistent MACs)
            body_at = text.rfind("\n", 0, len(text) - 2)
            line = text[body_at + 1:].rstrip("\n")
            if len(line) >= 4:
                k = len(line) - 3
                patched = text[:body_at + 1] + line[:k] + ("0" if line[k] != "0" else "1") + line[k + 1:] + "\n"
                try:
                    g = L.read_text(patched, key, False, False, wd)
                except Exception:                           # noqa: BLE001 -- refused even unchecked: nothing to save
                    g = None
                if g is not None:
                    t2 = L.rec_write(rec, g, key, False, wd)
                    L.rec_read(rec, t2, key, True, False, wd, auth=rec.last_written)
        if j % 4 == 1:
            # the same object edited and written again (and read back): nothing may survive from the first serialisation
            try:
                edit = r.choice(["append", "tag", "delete"])
                if edit == "append" or not f.components:
                    f.components.append(L.gen_plain_comp(r))
                elif edit == "tag":
                    f.components[0].description[r.randrange(0x20, 0x60)] = b"x"
                else:
                    del f.components[r.randrange(len(f.components))]
                f.comments["edited"] = "yes"
                text = L.rec_write(rec, f, key, False, wd)
                L.rec_read(rec, text, key, True, False, wd, auth=rec.last_written)
            except OverflowError:
                skipped += 1
    return skipped


def edge_files(r):
    """Deterministic edge cases named in the property."""
    out = []
    for n in (1, 15, 16, 17, 31, 32, 33, 39, 40, 41, 79, 80, 81, 120):
        out.append(L.Bf3File({}, [L.mk_comp({}, bytes(range(1, n + 1)))]))
        out.append(L.Bf3File({"k": "v"}, [L.mk_comp({0x10: b"x"}, bytes(n))]))                    # all-zero payload
        out.append(L.Bf3File({}, [L.mk_comp({}, bytes([7] * n) + bytes(17), n)]))                  # zero tail, declared n
    for t in range(0, 256, 17):
        out.append(L.Bf3File({}, [L.mk_comp({t: bytes([t])}, b"\x01\x02")]))
    out.append(L.Bf3File({}, [L.mk_comp({1: bytes(208)}, b"\x01")]))                              # 2+208 = 210: entry length 255
    out.append(L.Bf3File({}, [L.mk_comp({i: b"" for i in range(105)}, b"\x01")]))                 # 105 empty tags = 210
    out.append(L.Bf3File({"a": "1", "b": "2"}, [L.mk_comp({3: b"\x03", 1: b"\x01", 2: b"\x02"}, b"\xff" * 5, 3),
                                                 L.mk_comp({2: b"", 9: b"zz"}, b"\x00" * 16), L.mk_comp({}, b"\x00")]))
    out.append(L.Bf3File({"b": "2", "a": "1"}, []))
    # tags the library interprets (FMT C1, ENC C2, TYPE C3, HWCID C4, REBOOT C5) with values that are numerically one of its
    # constants but not the one-byte constant: to the format they are just tag values of a plain component
    for t in (0xC1, 0xC2, 0xC3, 0xC4, 0xC5):
        for k in (0, 1, 2, 3):
            for v in (b"\x00" + bytes([k]), b"\x00\x00" + bytes([k]), bytes([k]) + b"\x00"):
                n = 16 if (t + k + len(v)) % 2 else 15
                out.append(L.Bf3File({}, [L.mk_comp({t: v}, bytes(range(1, n + 1))), L.mk_comp({}, b"\x05")]))
    # the SAME component object listed twice (and with another one between): two entries, two payloads
    c = L.mk_comp({0x21: b"twice"}, bytes(range(1, 23)))
    out.append(L.Bf3File({}, [c, c]))
    out.append(L.Bf3File({}, [c, L.mk_comp({}, b"\x07\x08"), c]))
    ce = L.mk_comp({0xC3: b"\x03", 0xC2: b"\x02"}, bytes(range(1, 20)), 19, True)
    out.append(L.Bf3File({}, [ce, L.mk_comp({}, b"\x09"), ce]))
    # descriptions and comments given as mappings of another type than dict, in non-ascending insertion order
    import collections
    class _D(dict):
        pass
    for mk in (collections.OrderedDict, _D, lambda items: collections.defaultdict(bytes, items)):
        comp = L.mk_comp({}, b"\x01\x02\x03")
        comp.description = mk([(0x30, b"c"), (0x10, b"a"), (0x20, b"b")])
        out.append(L.Bf3File({"z": "1", "a": "2"}, [comp]))
    for mk in (collections.OrderedDict, _D):
        out.append(L.Bf3File(mk([("z", "1"), ("m", "3"), ("a", "2")]), [L.mk_comp({5: b"x", 3: b"y"}, b"\x01")]))
    out.append(L.Bf3File({"": "", " k ": "v:w", "ä€": "Ж x"}, [L.mk_comp({}, b"\x01")]))
    # comment keys / values whose FIRST or LAST character is one that codecs and str methods treat specially (as the first key of
    # the file, and as a later one): U+FEFF, U+200B, U+00A0 inside, NEL, LS - no colon, no line feed: legal text
    for ch in ("\ufeff", "\u200b", "\u2060", "\u00ad", "\ufffe", "\u202e"):
        out.append(L.Bf3File({ch + "Name": "v", "b": ch}, [L.mk_comp({}, b"\x01")]))
        out.append(L.Bf3File({"a": "1", ch: ch + "x" + ch, "Name" + ch: "v"}, [L.mk_comp({}, b"\x02")]))
    return out


def run(tier):
    rep = Report("C01", tier)
    r = rng("c01")
    with Scratch("c01") as wd:
        if tier == "quick":
            C.mc_hold(rep, wd, "mc1", ["RoundTrip", "LayoutLemmas"], 1, 3)
        else:
            C.mc_hold(rep, wd, "mc1", ["RoundTrip", "LayoutLemmas"], 1, 4)
            C.mc_hold(rep, wd, "mc2", ["RoundTrip", "LayoutLemmas"], 2, 2)
        tcfg = 'INIT Init\nNEXT Next\nCONSTANTS Mode = "roundtrip"\nMaxBin = %d\nMaxLen = 0\nINVARIANT RoundTrip\nINVARIANT LineWidth\n' % (90 if tier == "quick" else 200)
        tres = tlc.require_ok(tlc.run(os.path.join(SPEC, "MC_Text.tla"), tcfg, os.path.join(wd, "mctext"), workers=16, timeout=1200), "MC_Text")
        rep.add_mc("MC_Text: ReadText(WriteText(cm, bin)) = (cm, bin) for all comment maps over 3 keys x 3 values (both orders), every binary length "
                   "0..%d, with/without the trailing empty line and through CRLF translation; upper-case, <= 80 columns" % (90 if tier == "quick" else 200), tres)
        C.mc_refuted(rep, wd, "st_enc", "RoundTrip", "ENC_NEVER_DECRYPTS")
        # --- S->C
        gen = tlc.require_ok(tlc.run(os.path.join(SPEC, "Gen_Bf3.tla"),
                                     C.mc_cfg(["Emit"], 2 if tier == "thorough" else 1, 2 if tier == "thorough" else 3)
                                     + "CONSTRAINT OnlyBuild\n", os.path.join(wd, "gen"), workers=1, timeout=900), "Gen_Bf3")
        rec = L.Rec()
        cases = [v for v in gen.printed if isinstance(v, tuple) and v and v[0] == "CASE"]
        if len(cases) < 50:
            raise MachineryError("Gen_Bf3 produced only %d cases" % len(cases))
        if tier == "quick" and len(cases) > 400:
            cases = r.sample(cases, 400)
        nrep = 0
        for _, comps, expect in cases:
            real = L.Bf3File({}, [L.mk_comp(*C.gamma_comp(c)) for c in comps])
            key = L.gen_key(r)
            text = L.rec_write(rec, real, key, False, wd)
            ev = L.rec_read(rec, text, key, True, False, wd, auth=rec.last_written)
            want = []
            for c in expect:
                d, b, a, e = C.gamma_comp(c)
                want.append({"desc": [[t, list(v)] for t, v in d.items()], "blob": list(b), "alen": a, "enc": e})
            got = [dict(c) for c in ev["comps"]]
            for g, w in zip(got, want):
                if w["enc"]:
                    g["blob"] = g["blob"][:w["alen"]]
                    w["blob"] = w["blob"][:w["alen"]]
            nrep += 1
            if ev["kind"] != "ok" or got != want:
                rep.violation("C01:replay-mismatch", "content enumerated by TLC is not read back as the specification says",
                              {"abstract": comps, "event": ev})
        rep.add_replay("S->C: contents enumerated by TLC (Gen_Bf3) concretised, written and read back by the real code", nrep)
        # --- C->S
        for j, f in enumerate(edge_files(r)):
            key = L.gen_key(r)
            L.rec_to_binary(rec, f, 5, key)
            if j % 3 == 0 or any(ord(ch) > 126 for k_, v_ in f.comments.items() for ch in k_ + v_):
                try:
                    tdisk = L.rec_write(rec, f, key, True, wd)
                    L.rec_read(rec, tdisk, key, True, True, wd, auth=rec.last_written)
                except UnicodeEncodeError:
                    pass                                     # (a character the locale's file encoding cannot represent)
            text = L.rec_write(rec, f, key, False, wd)
            L.rec_read(rec, text, key, True, False, wd, auth=rec.last_written)
        skipped = gen_events(rec, r, 120 if tier == "quick" else 3000, wd, rep)
        # error-path histories (a refused write, then the repaired object and an unrelated one) and large payloads
        E.bf3_failed_then_good(rec, r, wd, 6 if tier == "quick" else 60, enc=True)
        E.bf3_large(rec, r, wd, (300, 4128) if tier == "quick" else (257, 300, 1000, 4096, 4128, 8200))
        E.bf3_huge(rec, r, wd, tier if not os.environ.get("VERIF_ENVPASS") else "quick")
        # binding self-test: one corrupted recorded field must be rejected
        okreads = [e for e in rec.events if e["op"] == "bf3.read" and e["kind"] == "ok"]
        can = dict(okreads[-1] if okreads else rec.events[-1])
        can["comps"] = [dict(c) for c in can["comps"]]
        if can["comps"]:
            can["comps"][0] = dict(can["comps"][0], alen=can["comps"][0]["alen"] + 1)
        else:
            can["comps"] = [{"desc": [], "blob": [1], "alen": 1, "enc": False}]
        can["has_auth"] = 0
        rec.add(can)
        canary = can["tid"]
        rej, st = C.validate(rec.events, wd)
        ids = {x[1]: x for x in rej}
        byid = {e["tid"]: e for e in rec.events}
        for tid, x in ids.items():
            if tid == canary:
                continue
            e = byid[tid]
            rep.violation("C01:%s:%s" % (e["op"], x[2].split(":")[0]), "real %s event rejected by the specification: %s" % (e["op"], x[2]), e)
        if canary not in ids and not rep.violations:      # (built from a real accepted read; meaningless if the code accepts nothing)
            raise MachineryError("binding self-test: corrupted read event accepted by Trace_Bf3")
        rep.add_trace("Trace_Bf3: write (stream+path) and read (MAC on/off) events of the real code", st, len(rec.events) - 1,
                      extra={"writer_refused_overlong_tags": skipped})
        for e in rec.events[:3]:
            rep.sample({k: (v if not isinstance(v, list) or len(v) < 60 else v[:60] + ["..."]) for k, v in e.items()})
    rep.assumptions += ["AES.tla (checked against FIPS-197 vectors and OpenSSL by C16/C03)", "UTF-8 locale for path I/O",
                        "abstract instance: 1-cell fields, 2-cell blocks, symbolic MAC/cipher tokens"]
    return rep
