"""C20: shared curve objects and the reader-writer lock are safe under every schedule.

RWLock   MC   spec/RWLock.tla (one action per call on one of the five threading.Lock objects), bounded
              instances: Mutex, ReleaseHeld, CountersOK, TypeOK, no deadlock, Termination under weak
              fairness, WriterPreference (the form the code guarantees); ReadersNeverShare must be VIOLATED
              (readers do share); StrongWriterPreference is refuted and reported as a documented non-guarantee.
         S->C bisimulation walk: TLC dumps the complete labelled state graph; the real, unmodified RWLock runs
              on real threads under a controlled scheduler (ecdsa._rwlock.threading replaced by a lock factory)
              along schedules that cover EVERY edge; after every step the projected real state (owner of each
              lock, both counters, every thread's phase / pending lock call / passes left, who is inside) must
              equal the spec state and the runnable set must equal the spec's enabled set.
LazyTable MC  spec/LazyTable.tla: builder statements of _maybe_precompute() / scale() against complete reader
              operations; deviations EARLY_PUBLISH / SPLIT_ASSIGN must be refuted.
         C->S the real thread A is stopped (sys.settrace) at every source line / byte code of
              _maybe_precompute() and scale() on a FRESH object per pre-emption point, the real thread B runs
              complete operations on the same object, results are compared with the sequential results and the
              observations are judged by spec/Trace_LazyTable.tla (invariants and step relation of LazyTable).
"""
import os, sys, importlib.util, multiprocessing as mp, time, threading, concurrent.futures as cf

from ..common import SPEC, Scratch, rng, MachineryError
from ..report import Report
from .. import tlc, sched, blackbox

RW_MC = os.path.join(SPEC, "MC_RWLock.tla")
LT_MC = os.path.join(SPEC, "MC_LazyTable.tla")
LT_TRACE = os.path.join(SPEC, "Trace_LazyTable.tla")
ABS_MC = os.path.join(SPEC, "MC_RWLockAbs.tla")
ABS_TRACE = os.path.join(SPEC, "Trace_RWLockAbs.tla")
NPROC = 16


def _rw_cfg(R, W, P, invariants="TypeOK Mutex ReleaseHeld CountersOK", props="Termination WriterPreference RefinesAbstract", spec="Spec", nxt=None):
    s = "CONSTANTS R = %d  W = %d  Passes = %d\n" % (R, W, P)
    s += ("SPECIFICATION %s\n" % spec) if nxt is None else ("INIT Init\nNEXT %s\n" % nxt)
    if invariants:
        s += "INVARIANTS %s\n" % invariants
    if props:
        s += "PROPERTIES %s\n" % props
    return s


def _instances(tier):
    if tier == "thorough":
        return [(2, 2, 1, True), (1, 1, 3, True), (2, 1, 3, True), (1, 2, 2, True), (2, 2, 2, True), (3, 2, 1, True), (2, 3, 1, True),
                (3, 3, 1, True), (3, 2, 2, False)]
    # (what a thread leaves behind after a complete acquire/release cycle - e.g. per-thread state - only shows in its NEXT
    #  cycle: every walk has instances in which each thread runs two, in the thorough tier three, cycles)
    return [(2, 2, 1, True), (2, 1, 2, True), (1, 2, 2, True), (2, 2, 2, False), (3, 2, 1, False)]


LT_BASE = "CONSTANTS N = %d  EARLY_PUBLISH = %s  SPLIT_ASSIGN = %s  TORN_READ = %s  LOCKED = \"%s\"\nSPECIFICATION Spec\n"
LT_INV = ("INVARIANTS TypeOK PubEmptyOrComplete CoordsOldOrNew AloneOK LocIsPrefix ReaderOK FinalOK\n"
          "PROPERTIES StepsAreEffects BuilderFinishes NeverBlockedForever TableNeverShrinks\n")


def _all_tlc_runs(tier, wd):
    """every model-checking run of this check, run concurrently (threads only wait for the JVMs; they are
    all joined before any process is forked).  name -> TlcResult"""
    jobs = {}
    for (R, W, P, walk) in _instances(tier):
        iwd = os.path.join(wd, "rw_%d%d%d" % (R, W, P))
        jobs["rw_%d%d%d" % (R, W, P)] = (RW_MC, _rw_cfg(R, W, P), iwd, dict(
            workers=8, deadlock=True, dump=os.path.join(iwd, "graph") if walk else None, timeout=1500,
            coverage=(R, W, P) == (2, 2, 1)))
    small = dict(workers=2, timeout=300)
    absc = "CONSTANTS Readers = {1, 2}  Writers = {3, 4}\nSPECIFICATION Spec\n"
    jobs["abs"] = (ABS_MC, absc + "INVARIANTS TypeOK Mutex\n", os.path.join(wd, "abs"), dict(small))
    jobs["abs_share"] = (ABS_MC, absc + "INVARIANTS ReadersNeverShare\n", os.path.join(wd, "abs_share"), dict(small))
    jobs["rw_share"] = (RW_MC, _rw_cfg(2, 2, 1, invariants="ReadersNeverShare", props=""), os.path.join(wd, "rw_share"), dict(small, deadlock=True))
    jobs["rw_strong"] = (RW_MC, _rw_cfg(2, 2, 1, invariants="", props="StrongWriterPreference"), os.path.join(wd, "rw_strong"), dict(small, deadlock=True))
    jobs["rw_bad1"] = (RW_MC, _rw_cfg(2, 2, 1, invariants="Mutex", props="", nxt="BadNextNoExcl"), os.path.join(wd, "rw_bad1"), dict(small))
    jobs["rw_bad2"] = (RW_MC, _rw_cfg(2, 2, 1, invariants="TypeOK", props="", nxt="BadNextNoQueueRel"), os.path.join(wd, "rw_bad2"), dict(small, deadlock=True))
    N = 8 if tier == "thorough" else 5
    jobs["lt"] = (LT_MC, LT_BASE % (N, "FALSE", "FALSE", "FALSE", "none") + LT_INV, os.path.join(wd, "lt"), dict(small, deadlock=True, coverage=True))
    jobs["lt_EARLY_PUBLISH"] = (LT_MC, LT_BASE % (N, "TRUE", "FALSE", "FALSE", "none") + "INVARIANTS ReaderOK\n", os.path.join(wd, "lt_e"), dict(small, deadlock=True))
    jobs["lt_SPLIT_ASSIGN"] = (LT_MC, LT_BASE % (N, "FALSE", "TRUE", "FALSE", "none") + "INVARIANTS ReaderOK\n", os.path.join(wd, "lt_s"), dict(small, deadlock=True))
    jobs["lt_TORN_READ"] = (LT_MC, LT_BASE % (N, "FALSE", "FALSE", "TRUE", "none") + "INVARIANTS ReaderOK\n", os.path.join(wd, "lt_t"), dict(small, deadlock=True))
    jobs["lt_lock_finally"] = (LT_MC, LT_BASE % (N, "FALSE", "FALSE", "FALSE", "finally") + LT_INV, os.path.join(wd, "lt_lf"), dict(small, deadlock=True))
    jobs["lt_lock_nofinally"] = (LT_MC, LT_BASE % (N, "FALSE", "FALSE", "FALSE", "nofinally") + "PROPERTIES NeverBlockedForever\n", os.path.join(wd, "lt_ln"), dict(small, deadlock=True))
    out = {}
    with cf.ThreadPoolExecutor(max_workers=6) as ex:
        futs = {k: ex.submit(tlc.run, m, cfg, d, **kw) for k, (m, cfg, d, kw) in jobs.items()}
        for k, f in futs.items():
            out[k] = f.result()
    out["lt_N"] = N
    return out


# ======================================================================================================
# RWLock: S->C walk (worker side; state is inherited through fork)

_W = {}


def _pmap(fn, tasks, chunksize, what):
    """map over forked worker processes; a worker that dies is a tool failure (never a hang)"""
    from concurrent.futures.process import BrokenProcessPool
    try:
        with cf.ProcessPoolExecutor(max_workers=NPROC, mp_context=mp.get_context("fork")) as ex:
            out, t0 = [], time.time()
            for x in ex.map(fn, tasks, chunksize=chunksize):
                out.append(x)
                if os.environ.get("VERIF_C20_PROGRESS") and len(out) % 500 == 0:
                    print("  %s: %d of %d after %.0f s" % (what, len(out), len(tasks), time.time() - t0), file=sys.stderr, flush=True)
            return out
    except BrokenProcessPool as e:
        raise MachineryError("%s: a worker process died (%s)" % (what, e))


def _load_module(path, name):
    spec = importlib.util.spec_from_file_location(name, path)
    m = importlib.util.module_from_spec(spec)
    spec.loader.exec_module(m)
    return m


def _real_rwmod():
    import register_crypto_plugin.ecdsa._rwlock as m
    return m


def _walk_chunk(idxs):
    g, info, (R, W, P), paths = _W["graph"], _W["info"], _W["inst"], _W["paths"]
    try:
        r = sched.run_paths(g, info, _real_rwmod(), R, W, P, [paths[i] for i in idxs])
    except MachineryError as e:
        return {"machinery": str(e)}
    r["covered"] = list(r["covered"])
    return r


def _walk_all(graph, info, inst, paths, wd):
    _W.update(graph=graph, info=info, inst=inst, paths=paths)
    n = len(paths)
    step = max(1, min(64, n // (NPROC * 4) or 1))
    chunks = [list(range(i, min(n, i + step))) for i in range(0, n, step)]
    t0 = time.time()
    outs = _pmap(_walk_chunk, chunks, 1, "edge walk")
    covered, steps, runs, mism = set(), 0, 0, []
    for o in outs:
        if "machinery" in o:
            raise MachineryError("edge walk: " + o["machinery"])
        covered.update(map(tuple, o["covered"]))
        steps += o["steps"]
        runs += o["runs"]
        mism += o["mismatches"]
    return covered, steps, runs, mism, time.time() - t0


MUTANTS = {
    # name: (text in _rwlock.py, replacement)
    "writer does not take no_writers": ("        self.__no_writers.acquire()\n", ""),
    "reader_acquire forgets readers_queue.release()": ("        self.__readers_queue.release()\n", ""),
    "light switch: every thread (not only the first) takes the gate": ("if self.__counter == 1:", "if self.__counter >= 1:"),
    "light switch: counter updated before the mutex is taken":
        ("        self.__mutex.acquire()\n        self.__counter += 1\n", "        self.__counter += 1\n        self.__mutex.acquire()\n"),
    "last reader/writer out does not release the gate":
        ("        if self.__counter == 0:\n            lock.release()\n", "        if self.__counter == 0:\n            pass\n"),
}


def _shape(rwmod):
    """Is the real lock built the way the white-box refinement walk expects (RWLock.tla: five distinct plain locks
    behind the known attributes, all made by the constructor, nothing else)?  Returns None or a description of the
    difference.  A difference is NOT a finding: the lock clause of C20 is about observable behaviour only; the walk is
    then replaced by the black-box exploration (harness/blackbox.py), which is judged against RWLockAbs."""
    try:
        probs = sched.structure_problems(rwmod)
        if probs:
            return "; ".join(probs[:3])
        real = sched.RealRW(rwmod, 1, 1, 1)
        try:
            named = real._resolve()
            for sw in (real.rs, real.ws):                          # the model's two counters: read by RealRW.project()
                if not isinstance(sw._LightSwitch__counter, int):
                    raise AttributeError("the light switch keeps no integer counter under the known name")
            real.project()
            made = list(real.sched.locks)
            unc = sorted(getattr(rwmod.threading, "uncontrolled", ()))
            ident = sorted(set(getattr(rwmod.threading, "used", ())) & {"local", "get_ident", "get_native_id", "current_thread"})
            tls = blackbox.find_thread_locals(real.rw, rwmod)
        finally:
            real.close(abandon=True)
    except (sched.StructureDiffers, MachineryError, AttributeError, TypeError) as e:
        return str(e)
    late = [n for n, o in named.items() if o is None]
    if late:
        return "no lock behind %s after construction" % ", ".join(late)
    kinds = sorted({o.kind for o in named.values()} - {"Lock"})
    if kinds:
        return "uses %s where the model has plain locks" % ", ".join(kinds)
    if len(made) != 5 or len({id(o) for o in named.values()}) != 5:
        return "the constructor makes %d synchronisation objects, the model has 5" % len(made)
    if unc:
        return "uses threading.%s" % ", threading.".join(unc)
    if tls or ident:
        return "keeps per-thread state (%s)" % ", ".join(["threading.local object %s" % type(o).__name__ for o in tls] + ["threading." + n for n in ident])
    return None


def _bb_task(task):
    path, R, W, P, label, budget, lines = task
    try:
        r = blackbox.explore(path, R, W, P, budget_s=budget, lines=lines)
    except MachineryError as e:
        return {"label": label, "machinery": str(e)}
    except Exception as e:      # the private copy cannot be loaded / constructed under the lock factory
        return {"label": label, "unloadable": "%s: %s" % (type(e).__name__, e), "R": R, "W": W,
                "mix": "%dR+%dW x %d%s" % (R, W, P, " [line level]" if lines else "")}
    r["label"] = label
    r["uncontrolled"] = sorted(r["uncontrolled"])
    return r


BB_SELFTEST = {     # label: (mutant of the real source, mix, verdict TLC must reach)
    "selftest: writer does not take no_writers": (("        self.__no_writers.acquire()\n", ""), (1, 1, 1), "mutex"),
    "selftest: reader keeps readers_queue": (("        self.__readers_queue.release()\n", ""), (2, 1, 1), "deadlock"),
    # the light switch releases its mutex before it tests the counter (RWLockFine.tla: BROKEN_RELEASE, refuted by TLC): only
    # visible when threads are pre-empted BETWEEN lock operations - the line-level exploration must find it
    "selftest [line level]: switch tests its counter after releasing the mutex": (
        ("        self.__counter -= 1\n        if self.__counter == 0:\n            lock.release()\n        self.__mutex.release()\n",
         "        self.__counter -= 1\n        self.__mutex.release()\n        if self.__counter == 0:\n            lock.release()\n"),
        (2, 0, 1), "exception"),
}


def _blackbox(rep, tier, wd, rwmod, why):
    """black-box exploration of the real lock + self-tests, judged by TLC (Trace_RWLockAbs).  `why`: None (the structure
    is the expected one: the exploration is additional evidence) or the difference that made the walk impossible."""
    path = rwmod.__file__
    thorough = tier == "thorough"
    # every thread runs at least two (thorough: three) cycles in some mix: state a thread keeps from one cycle to the next
    mixes = [(1, 1, 3), (2, 1, 1), (1, 2, 1)]
    if why is not None or thorough:         # (on the expected structure the white-box walk covers these in the quick tier)
        mixes += [(2, 1, 2), (1, 2, 2)]
    if thorough:
        mixes += [(2, 2, 1), (2, 1, 3)]
    budget = 900.0 if thorough else 240.0
    tasks = [(path, R, W, P, "real", budget, False) for (R, W, P) in mixes]
    # line level: the threads are also pre-empted before every source line of the lock module that reads or writes shared
    # state (races on counters / flags between two lock operations).  Small mixes always, the larger ones when the lock is
    # not the one of RWLock.tla (walk impossible or mismatched) and in the thorough tier.
    lmixes = [(2, 0, 1), (0, 2, 1), (1, 1, 2)]
    if why is not None or thorough:
        lmixes += [(2, 1, 1), (1, 2, 1)]
    if thorough:
        lmixes += [(2, 1, 2)]
    tasks += [(path, R, W, P, "real", budget, True) for (R, W, P) in lmixes]
    src = open(path).read()
    st_skipped = []
    for i, (label, ((a, b), (R, W, P), want)) in enumerate(BB_SELFTEST.items()):
        if src.count(a) != 1:
            st_skipped.append(label)
            continue
        pth = os.path.join(wd, "rwlock_bb_mutant_%d.py" % i)
        with open(pth, "w") as f:
            f.write(src.replace(a, b))
        tasks.append((pth, R, W, P, label, 120.0, "[line level]" in label))
    outs = _pmap(_bb_task, tasks, 1, "black-box exploration of the lock")
    evs, tid, meta, summary, fallback = [], 0, {}, {}, []
    for o in outs:
        if "machinery" in o:
            raise MachineryError("black-box exploration: " + o["machinery"])
        if "unloadable" in o or o.get("uncontrolled"):
            if o["label"] != "real":
                raise MachineryError("black-box self-test could not be run: %s" % (o.get("unloadable") or o["uncontrolled"]))
            # something the controlled scheduler cannot drive: real pre-emptive threads, bounded waits (randomised)
            if "[line level]" in o["mix"]:
                continue                # (the fallback has no finer granularity: the primitive-level entry of the mix covers it)
            r = blackbox.real_thread_runs(rwmod, o["R"], o["W"], 1, 1500 if thorough else 250, seed=hash(o["mix"]) & 0xffff)
            r["label"] = "real"
            r["uncontrolled"] = [o.get("unloadable") or ", ".join(o["uncontrolled"])]
            fallback.append(o["mix"])
            o = r
        e = blackbox.events(o, tid)
        tid = e[-1]["tid"]
        for x in e:
            meta[x["tid"]] = (o["label"], x)
        evs += e
        summary.setdefault(o["label"], {})[o["mix"]] = {
            "states": o["states"], "transitions": o["transitions"], "schedules_replayed": o["runs"], "observable_steps": len(o["steps"]),
            "deadlock_states": len(o["deadlocks"]), "exceptions": len(o["exceptions"]), "max_readers_together": o["max_readers"],
            "exhaustive": bool(o["complete"]), "wall_s": o.get("wall_s", 0)}
    # canary: one corrupted observation
    good = [x for x in evs if meta[x["tid"]][0] == "real" and x["op"] == "acquire_r" and not x["wr1"]]
    canary = None
    if good:
        tid += 1
        canary = dict(good[0], tid=tid, wr2=[good[0]["nr"] + 1], _schedule=[])
        evs.append(canary)
    rej, st = tlc.validate_trace(ABS_TRACE, "INIT Init\nNEXT Next\n", evs, os.path.join(wd, "tr_abs"), shards=8, timeout=600)
    by = {}
    for x in rej:
        by.setdefault(x[1], x[2])
    found = {}
    for t, clause in by.items():
        if canary is not None and t == canary["tid"]:
            continue
        label, x = meta[t]
        if label == "real":
            found.setdefault(clause, []).append(x)
    for clause, xs in sorted(found.items()):
        x = xs[0]
        if clause == "mutex":
            what = ("%s by thread %d: holders before = readers %s writers %s, after = readers %s writers %s"
                    % (x["op"], x["t"], x["rd1"], x["wr1"], x["rd2"], x["wr2"]))
        elif clause == "readers-never-share":
            what = "in no reachable state two readers hold the lock together"
        else:
            what = x.get("_detail", "")
        rep.violation("C20:rwlock-" + clause,
                      "real RWLock, %s, after the schedule (thread ids, one scheduling point each) %s: %s (%d such observation(s))"
                      % (x["mix"], x["_schedule"], what, len(xs)), x)
    if not found and not rep.violations:
        # self-tests of the machinery: only judged when the run is otherwise clean
        if canary is not None and by.get(canary["tid"]) != "mutex":
            raise MachineryError("binding self-test: corrupted lock observation was not rejected")
        for label, (_, _, want) in BB_SELFTEST.items():
            if label in st_skipped:
                continue
            got = {by[t] for t, (l, _) in meta.items() if l == label and t in by}
            if want not in got:
                raise MachineryError("%s: black-box exploration + Trace_RWLockAbs did not report %s (got %s)" % (label, want, sorted(got)))
    real = summary.get("real", {})
    rep.cov["parts"]["rwlock"] = {
        "structure": ("as in RWLock.tla: white-box refinement walk" if why is None
                      else "differs: %s; refinement walk replaced by black-box exploration" % why),
        "blackbox": {"mixes": real, "selftests": {k: v for k, v in summary.items() if k != "real"}, "selftests_not_applicable": st_skipped,
                     "real_thread_fallback_for": fallback,
                     "granularity": "operations on synchronisation primitives; in the mixes marked [line level] also every source line of "
                                    "the lock module that reads or writes shared state (all threads under sys.settrace).  The statement-"
                                    "level model RWLockFine.tla refines RWLock.tla; its BROKEN_RELEASE variant (counter tested after the "
                                    "switch mutex is released) is refuted by TLC, and the same change of the real code is a self-test of "
                                    "the line-level exploration",
                     "judged": "every distinct observable step (who holds the lock before/after), every deadlock state, every "
                               "exception, reader overlap: by TLC against RWLockAbs (Trace_RWLockAbs)"}}
    n = len([x for x in evs if meta.get(x["tid"], ("",))[0] == "real"])
    rep.add_trace("Trace_RWLockAbs (black-box exploration of the real lock: all interleavings at primitive-operation granularity)",
                  dict(st, real_states=sum(v["states"] for v in real.values()), real_transitions=sum(v["transitions"] for v in real.values())), n)
    first = [x for x in evs if meta.get(x["tid"], ("",))[0] == "real" and x["op"] == "acquire_w"][:1]
    for x in first:
        rep.sample({k: v for k, v in x.items() if k != "tid"})
    return sum(v["transitions"] for v in real.values())


def _rwlock_part(rep, tier, wd, J):
    rwmod = _real_rwmod()
    instances = _instances(tier)
    total_edges = 0
    first = None
    why = _shape(rwmod)             # None: the structure the refinement walk expects
    structure_ok = why is None
    for (R, W, P, walk) in instances:
        tag = "%dR+%dW x %d pass%s" % (R, W, P, "es" if P > 1 else "")
        iwd = os.path.join(wd, "rw_%d%d%d" % (R, W, P))
        dump = os.path.join(iwd, "graph") if walk else None
        res = J["rw_%d%d%d" % (R, W, P)]
        if res.violated:
            # the model is bisimilar to the code on this instance (walk below), so this is a finding about the code
            tr = res.trace()
            for v in res.violated:
                rep.violation("C20:rwlock-" + v.strip("<>"), "RWLock model (%s): TLC reports %s" % (tag, v),
                              {"instance": [R, W, P], "trace": [[a, {k: str(x) for k, x in s.items()}] for a, s in tr][-60:]})
        elif not res.ok:
            raise MachineryError("TLC failed on MC_RWLock %s:\n%s" % (tag, res.clean()[-3000:]))
        rep.add_mc("MC_RWLock %s: TypeOK, Mutex, ReleaseHeld, CountersOK, no deadlock, Termination (WF), WriterPreference, refines RWLockAbs" % tag,
                   res, {"R": R, "W": W, "Passes": P})
        if first is None:
            first = res
            cov = res.coverage()
            never = [a for a, (n, _) in cov.items() if (a.startswith(("RA_", "RR_", "WA_", "WR_", "R_CS", "W_CS"))) and n == 0]
            if never:
                raise MachineryError("vacuity: RWLock actions never taken: %s" % never)
        if not walk or res.violated or not structure_ok:
            continue
        info = None
        for v in res.printed:
            if isinstance(v, tuple) and v and v[0] == "INFO":
                info = v[1]
        if not isinstance(info, dict) or "ra_rq" not in info:
            raise MachineryError("label table (RWLock!Info) was not printed by TLC")
        g = sched.Graph(dump + ".dot")
        if len(g.nodes) != res.distinct:
            raise MachineryError("state graph dump has %d states, TLC found %d" % (len(g.nodes), res.distinct))
        paths = sched.plan_paths(g)
        covered, steps, runs, mism, wall = _walk_all(g, info, (R, W, P), paths, iwd)
        if mism:
            # Not a finding by itself (the lock clause is about observable behaviour): the lock-operation level behaviour is
            # not the one of RWLock.tla; the black-box exploration below decides.
            m = mism[0]
            why = "lock-operation level behaviour is not that of RWLock.tla (%s, after the schedule %s: expected %s, real %s)" % (
                tag, m["schedule"], m["expected"], m["real"])
            structure_ok = False
        if not mism and len(covered) != len(g.edges):
            raise MachineryError("edge walk covered %d of %d edges" % (len(covered), len(g.edges)))
        total_edges += len(covered)
        rep.add_replay("RWLock bisimulation walk %s: every edge of TLC's state graph on the real RWLock" % tag, len(covered),
                       {"states": len(g.nodes), "edges": len(g.edges), "edges_walked": len(covered), "schedules_run": runs,
                        "lock_level_steps_executed_and_compared": steps, "wall_s": round(wall, 2), "exhaustive": not mism,
                        "compared": list(sched.PROJ_FIELDS)})
        if (R, W, P) == (2, 2, 1):
            p0 = paths[len(paths) // 2]
            rep.sample({"rwlock_schedule": [g.out[s][k][0] for s, k in p0],
                        "spec_state_after": {k: str(v) for k, v in g.nodes[g.out[p0[-1][0]][p0[-1][1]][2]].items()}})
            if not mism and not rep.violations:      # self-tests of the machinery: only when the run is otherwise clean
                _walk_selftests(rep, g, info, paths, rwmod, wd)

    # ---- black-box exploration of the real lock, judged against the abstract reader-writer lock
    bb_transitions = _blackbox(rep, tier, wd, rwmod, why)
    r = tlc.require_ok(J["abs"], "MC_RWLockAbs")
    rep.add_mc("MC_RWLockAbs 2 readers + 2 writers: Mutex (RWLock.tla refines it: property RefinesAbstract of every MC_RWLock run)", r)
    if "ReadersNeverShare" not in J["abs_share"].violated:
        raise MachineryError("self-test: RWLockAbs does not let readers share")

    # ---- readers do share: the invariant "never two readers inside" must be violated
    r = J["rw_share"]
    if "ReadersNeverShare" not in r.violated:
        if r.ok:
            rep.violation("C20:rwlock-readers-never-share", "no reachable state has two readers inside", {})
        else:
            raise MachineryError("TLC failed on ReadersNeverShare:\n" + r.clean()[-2000:])
    else:
        tr = r.trace()
        rep.cov["parts"]["ReadersShare (reachability witness)"] = {
            "kind": "MC, expected invariant violation", "witness_length": len(tr),
            "witness_last_pc": str(tr[-1][1].get("pc")) if tr else ""}
    # ---- documented non-guarantee
    r = J["rw_strong"]
    if not r.completed and not r.violated:
        raise MachineryError("TLC failed on StrongWriterPreference:\n" + r.clean()[-2000:])
    rep.cov["parts"]["StrongWriterPreference (not part of C20; documentation)"] = {
        "kind": "MC", "result": "refuted: a reader that already holds no_readers, and the next queued reader competing for "
        "no_readers, are admitted after a writer has called writer_acquire()" if r.violated else "holds"}
    # ---- self-test: wrong lock variants must be refuted
    r = J["rw_bad1"]
    if "Mutex" not in r.violated:
        raise MachineryError("self-test: writer without no_writers was not refuted (Mutex)")
    r = J["rw_bad2"]
    if "<deadlock>" not in r.violated:
        raise MachineryError("self-test: reader that keeps readers_queue was not refuted (deadlock)")
    rep.cov["parts"]["selftest RWLock spec variants"] = "BadNextNoExcl refuted (Mutex), BadNextNoQueueRel refuted (deadlock)"
    return total_edges + bb_transitions


def _walk_selftests(rep, g, info, paths, rwmod, wd):
    # 1. a deliberately wrong expected state must be reported, at exactly that step
    p0 = max(paths, key=len)
    at = min(12, len(p0) - 1)
    node = g.out[p0[at][0]][p0[at][1]][2]
    good = g.expected(node, info)
    g._exp[node] = (good[0], good[1] + 1) + good[2:]
    try:
        r = sched.run_paths(g, info, rwmod, 2, 2, 1, [p0])
    finally:
        g._exp[node] = good
    if len(r["mismatches"]) != 1 or len(r["mismatches"][0]["schedule"]) != at + 1:
        raise MachineryError("binding self-test: a wrong expected state in the walk was not reported")
    # 2. broken locks (mutated copies of the real _rwlock.py, outside /repo, scratch only) must be detected
    src = open(rwmod.__file__).read()
    done, skipped = [], []
    for i, (name, (a, b)) in enumerate(MUTANTS.items()):
        if src.count(a) != 1:
            skipped.append(name)
            continue
        pth = os.path.join(wd, "rwlock_mutant_%d.py" % i)
        with open(pth, "w") as f:
            f.write(src.replace(a, b))
        m = _load_module(pth, "c20_rwlock_mutant_%d" % i)
        r = sched.run_paths(g, info, m, 2, 2, 1, paths, max_mismatch=1)
        if not r["mismatches"]:
            raise MachineryError("self-test: the walk did not detect the broken lock %r" % name)
        done.append("%s: detected after %d schedule(s), %d steps" % (name, r["runs"], r["steps"]))
    if rwmod.threading.__name__ != "threading":
        raise MachineryError("_rwlock.threading was not restored")
    rep.cov["parts"]["selftest RWLock walk"] = {"wrong expected state": "reported at step %d of the schedule" % (at + 1),
                                               "mutated copies of _rwlock.py (scratch)": done, "mutants not applicable": skipped}


# ======================================================================================================
# lazy table / rescaling: C->S

_CTX = {}


class Ctx:
    pass


def _ctx(name):
    c = _CTX.get(name)
    if c is not None:
        return c
    from register_crypto_plugin.ecdsa import ellipticcurve as ec, ecdsa as es
    c = Ctx()
    c.name, c.ec, c.es = name, ec, es
    c.libdir = os.path.dirname(os.path.abspath(ec.__file__)) + os.sep
    r = rng("c20/" + name)
    c.fam = "edwards" if name.startswith("ed") else "weierstrass"
    if c.fam == "edwards":
        return _ctx_edwards(c, r)
    c.cls, c.pfx = ec.PointJacobi, "_PointJacobi"
    if name == "tiny":
        c.curve = ec.CurveFp(17, 2, 2, 1)
        c.gx, c.gy, c.n = 5, 1, 19
        c.ks = list(range(0, 2 * 19 + 3))
        d = 7
    else:
        c.curve, g = es.curve_256, es.generator_256
        c.gx, c.gy, c.n = int(g.x()), int(g.y()), int(g.order())
        c.ks = [2, 3, c.n - 1, c.n + 1, 2 * c.n - 1, (1 << 256) // 3, r.randrange(1, c.n), r.randrange(1, c.n)]
        d = r.randrange(2, c.n)
    c.p = c.curve.p()
    c.make_gen = lambda: ec.PointJacobi(c.curve, c.gx, c.gy, 1, c.n, generator=True)
    # generator=True without an order: `point * k` fails with AssertionError (documented precondition of the table)
    c.make_bad = lambda: ec.PointJacobi(c.curve, c.gx, c.gy, 1, None, generator=True)
    ref = c.make_gen()
    q = ref * d
    c.ref = ref
    c.table = list(ref._PointJacobi__precompute)
    c.N = len(c.table)
    if name != "tiny":                                # every table entry on its own, and alternating patterns
        pw = [1 << j for j in range(c.N - 2)]
        c.ks_full = c.ks + pw + [int("01" * 128, 2), int("10" * 128, 2), int("0111" * 64, 2)]
    else:
        c.ks_full = c.ks
    c.qx, c.qy = int(q.x()), int(q.y())
    z = 3 if name == "tiny" else r.randrange(2, c.p)
    c.qz = z
    c.make_q = lambda zz=None: ec.PointJacobi(c.curve, c.qx * (zz or z) ** 2 % c.p, c.qy * (zz or z) ** 3 % c.p, (zz or z), c.n)
    # a generator that is given in Jacobian form (z != 1): its table is built from coordinates B may rescale meanwhile
    zj = 5 if name == "tiny" else r.randrange(2, c.p)
    c.make_jgen = lambda: ec.PointJacobi(c.curve, c.gx * zj ** 2 % c.p, c.gy * zj ** 3 % c.p, zj, c.n, generator=True)
    # an unrelated, unshared point (Jacobian form): operations on it must not be disturbed either
    o = (ref * 3).to_affine()
    zo = 6 if name == "tiny" else r.randrange(2, c.p)
    c.make_other = lambda: ec.PointJacobi(c.curve, int(o.x()) * zo ** 2 % c.p, int(o.y()) * zo ** 3 % c.p, zo, c.n)
    c.gaff = ec.Point(c.curve, c.gx, c.gy, c.n)
    c.qaff = ec.Point(c.curve, c.qx, c.qy, c.n)
    # a PUBLIC-KEY point that carries generator=True (VerifyingKey.precompute(lazy=True) / from_affine(pt, True)): its table is
    # built lazily inside the first verification (mul_add) or multiplication
    c.make_pq = lambda: ec.PointJacobi.from_affine(c.qaff, True)
    pq = c.make_pq()
    pq * 2
    c.qtable = list(pq._PointJacobi__precompute)
    c.kA = 11 if name == "tiny" else r.randrange(2, c.n)
    if name != "tiny":
        h = r.randrange(1, c.n)
        k = r.randrange(1, c.n)
        c.h = h
        c.sig = es.Private_key(es.Public_key(ref, c.qaff, True), d).sign(h, k)
        if not es.Public_key(ref, c.qaff).verifies(h, c.sig):
            raise MachineryError("reference signature does not verify sequentially")
    c.expected = {}
    _CTX[name] = c
    return c


def _ctx_edwards(c, r):
    """twisted Edwards points (PointEdwards: Ed25519 / Ed448 keys): the same lazy table and in-place rescaling"""
    from register_crypto_plugin.ecdsa import eddsa
    ec = c.ec
    c.cls, c.pfx = ec.PointEdwards, "_PointEdwards"
    g = eddsa.generator_ed25519 if c.name == "ed25519" else eddsa.generator_ed448
    c.curve, c.n = g.curve(), int(g.order())
    c.p = p = c.curve.p()
    c.gx, c.gy = int(g.x()), int(g.y())
    c.make_gen = lambda: ec.PointEdwards(c.curve, c.gx, c.gy, 1, c.gx * c.gy % p, c.n, generator=True)
    c.make_bad = lambda: ec.PointEdwards(c.curve, c.gx, c.gy, 1, c.gx * c.gy % p, None, generator=True)
    ref = c.make_gen()
    d = r.randrange(2, c.n)
    q = ref * d
    c.ref = ref
    c.table = list(ref._PointEdwards__precompute)
    c.N = len(c.table)
    c.ks = [2, 3, c.n - 1, c.n + 1, (1 << 250) // 3, r.randrange(1, c.n), r.randrange(1, c.n)]
    c.ks_full = c.ks + [1 << j for j in range(0, c.N - 3, 3)]
    c.qx, c.qy = int(q.x()), int(q.y())
    z = r.randrange(2, p)
    c.qz = z

    def ext(x, y, zz, gen=False):
        return ec.PointEdwards(c.curve, x * zz % p, y * zz % p, zz, x * y * zz % p, c.n, generator=gen)
    c.make_q = lambda zz=None: ext(c.qx, c.qy, zz or z)
    zj = r.randrange(2, p)
    c.make_jgen = lambda: ext(c.gx, c.gy, zj, True)
    o = ref * 3
    ox, oy, zo = int(o.x()), int(o.y()), r.randrange(2, p)
    c.make_other = lambda: ext(ox, oy, zo)
    c.gaff = ext(c.gx, c.gy, 1)
    c.qaff = ext(c.qx, c.qy, 1)
    c.kA = r.randrange(2, c.n)
    c.expected = {}
    _CTX[c.name] = c
    return c


def _make(c, mode):
    return {"table": c.make_gen, "scale": c.make_q, "jtable": c.make_jgen, "ptable": getattr(c, "make_pq", None)}[mode]()


SPEC_MODE = {"ptable": "table"}     # scenario -> mode of LazyTable


def _ref(c, mode):
    """(x, y, table) of the sequential run for the shared object of a scenario"""
    if mode == "ptable":
        return c.qx, c.qy, c.qtable
    if mode == "scale":
        return c.qx, c.qy, []
    return c.gx, c.gy, c.table


def _a_op(c, mode):
    """thread A's operation: a multiplication (builds the table / rescales on the way); PointEdwards.__mul__ does not
    rescale, there A calls scale() itself"""
    if c.fam == "edwards" and mode == "scale":
        return lambda o: o.scale()
    if mode == "ptable":            # the verification path: u1*G + u2*P with P the shared public-key point
        return lambda o: c.ref.mul_add(c.kA, o, 5)
    return lambda o: o * c.kA


def _canon(c, v):
    ec = c.ec
    if v is ec.INFINITY:
        return ("inf",)
    if isinstance(v, (ec.PointJacobi, ec.Point, ec.PointEdwards)):
        return ("pt", int(v.x()), int(v.y()))
    if isinstance(v, bool):
        return ("b", v)
    if isinstance(v, (bytes, bytearray)):
        return ("bytes", bytes(v).hex())
    return ("v", int(v))


def _ro_ops(c, X):
    """operations that are read-only by contract: serialising, copying, printing, comparing the shared object"""
    import pickle, copy
    return [("pickle.loads(pickle.dumps(%s))" % X, lambda o: pickle.loads(pickle.dumps(o))),
            ("copy.copy(%s)" % X, lambda o: copy.copy(o)),
            ("copy.deepcopy(%s)" % X, lambda o: copy.deepcopy(o)),
            ("repr(%s) is a string" % X, lambda o: isinstance(repr(o), str) and isinstance(str(o), str)),
            ("hash(%s)" % X, lambda o: hash(o) == hash(o)),
            ("%s == copy of itself" % X, lambda o: o == copy.copy(o)),
            ("%s != None" % X, lambda o: o != None)]       # noqa: E711  (the operator is the operation under test)


def _ops(c, mode, full):
    """B's complete operations: [(name, fn(shared object))].  Order: reads of the shared point (x, y, encodings),
    a read of an unrelated point, the other operations (those that rescale the shared point in place come late in
    the "scale" scenario and early in the "jtable" scenario), a read of the unrelated point again."""
    ec, es = c.ec, c.es
    ks = c.ks_full if full else c.ks
    X = {"table": "G", "scale": "Q", "jtable": "J", "ptable": "P"}[mode]
    if c.fam == "edwards":
        ops = [(X + ".x()", lambda o: o.x()), (X + ".y()", lambda o: o.y())] + _ro_ops(c, X) + [("other.y()", lambda o: c.make_other().y()),
               (X + " == affine " + X, lambda o: o == (c.gaff if mode != "scale" else c.qaff)),
               (X + " == the other base point", lambda o: o == (c.qaff if mode != "scale" else c.gaff)),
               (X + " + P", lambda o: o + (c.make_q() if mode != "scale" else c.ref)),
               (X + ".double()", lambda o: o.double())]
        if mode == "scale":
            ops += [("3*Q", lambda o: o * 3), ("k*Q", lambda o: o * c.ks[-1]),
                    ("Q.to_bytes()", lambda o: o.to_bytes()), ("Q.scale()", lambda o: o.scale()),
                    ("Q.x() again", lambda o: o.x()), ("Q.y() again", lambda o: o.y()), ("3*Q again", lambda o: o * 3)]
        else:
            for k in ks:
                ops.append(("k*" + X, (lambda o, k=k: o * k)))
            ops += [("k*%s (rmul)" % X, lambda o: c.kA * o), (X + ".to_bytes()", lambda o: o.to_bytes()),
                    (X + " == fresh", lambda o: o == c.make_gen())]
        ops += [("other.to_bytes()", lambda o: c.make_other().to_bytes()), ("other.x()", lambda o: c.make_other().x())]
        return ops
    ops = [(X + ".x()", lambda o: o.x()), (X + ".y()", lambda o: o.y()),
           (X + ".to_bytes()", lambda o: o.to_bytes("uncompressed")), (X + ".to_bytes(compressed)", lambda o: o.to_bytes("compressed"))]
    ops += _ro_ops(c, X) + [("other.y()", lambda o: c.make_other().y())]
    if mode == "table":             # obj = generator whose table is being built
        for k in ks:
            ops.append(("%d*G" % k if k < 1000 else "k*G", (lambda o, k=k: o * k)))
        ops.append(("k*G (rmul)", lambda o: c.kA * o))
        ops.append(("G == affine G", lambda o: o == c.gaff))
        ops.append(("G == fresh G", lambda o: o == c.make_gen()))
        ops.append(("G == Q", lambda o: o == c.qaff))
        ops.append(("G + Q", lambda o: o + c.make_q()))
        ops.append(("G.double()", lambda o: o.double()))
        ops.append(("G.mul_add(a, Q, b)", lambda o: o.mul_add(c.kA, c.make_q(), 5)))
        ops.append(("G.to_affine()", lambda o: o.to_affine()))
        if c.name != "tiny":
            ops.append(("verify good signature", lambda o: es.Public_key(o, c.qaff, False).verifies(c.h, c.sig)))
            ops.append(("verify wrong hash", lambda o: es.Public_key(o, c.qaff, False).verifies(c.h + 1, c.sig)))
    elif mode == "ptable":          # obj = public-key point with generator=True: complete verifications / mul_add first
        if c.name != "tiny":
            ops.append(("verify good signature (P as public point)", lambda o: es.Public_key(c.ref, o, False).verifies(c.h, c.sig)))
            ops.append(("verify wrong hash", lambda o: es.Public_key(c.ref, o, False).verifies(c.h + 1, c.sig)))
        ops.append(("G.mul_add(a, P, b)", lambda o: c.ref.mul_add(c.kA, o, 5)))
        ops.append(("P.mul_add(a, G, b)", lambda o: o.mul_add(5, c.ref, c.kA)))
        ops.append(("P.mul_add(a, fresh G, b)", lambda o: o.mul_add(3, c.make_gen(), 7)))
        for k in ks:
            ops.append(("%d*P" % k if k < 1000 else "k*P", (lambda o, k=k: o * k)))
        ops.append(("k*P (rmul)", lambda o: c.kA * o))
        ops.append(("P == affine Q", lambda o: o == c.qaff))
        ops.append(("P + G", lambda o: o + c.ref))
        ops.append(("P.double()", lambda o: o.double()))
        if c.name != "tiny":
            ops.append(("verify good signature again", lambda o: es.Public_key(c.ref, o, False).verifies(c.h, c.sig)))
    elif mode == "jtable":          # obj = generator in Jacobian form: B rescales it, then multiplies
        ops.append(("J == affine G", lambda o: o == c.gaff))
        ops.append(("J.to_affine()", lambda o: o.to_affine()))
        for k in ks:
            ops.append(("%d*J" % k if k < 1000 else "k*J", (lambda o, k=k: o * k)))
        ops.append(("k*J (rmul)", lambda o: c.kA * o))
        ops.append(("J.scale()", lambda o: o.scale()))
        ops.append(("J + Q", lambda o: o + c.make_q()))
        ops.append(("J.double()", lambda o: o.double()))
        ops.append(("J.mul_add(a, Q, b)", lambda o: o.mul_add(c.kA, c.make_q(), 5)))
        if c.name != "tiny":
            ops.append(("verify good signature (J as generator)", lambda o: es.Public_key(o, c.qaff, False).verifies(c.h, c.sig)))
            ops.append(("verify wrong hash", lambda o: es.Public_key(o, c.qaff, False).verifies(c.h + 1, c.sig)))
    else:                           # obj = Jacobian point Q (no generator) that is being rescaled in place
        ops.append(("Q == affine Q", lambda o: o == c.qaff))
        ops.append(("Q == Q with another z", lambda o: o == c.make_q(c.qz + 1)))
        ops.append(("Q == G", lambda o: o == c.gaff))
        ops.append(("Q + G", lambda o: o + c.ref))
        ops.append(("Q.double()", lambda o: o.double()))
        ops.append(("-Q", lambda o: -o))
        if c.name != "tiny":
            ops.append(("verify with Q as public point", lambda o: es.Public_key(c.ref, o, False).verifies(c.h, c.sig)))
        for k in (c.ks if c.name == "tiny" else c.ks[:6]):
            ops.append(("k*Q", (lambda o, k=k: o * k)))
        ops.append(("G.mul_add(a, Q, b)", lambda o: c.ref.mul_add(c.kA, o, 5)))
        ops.append(("Q.scale()", lambda o: o.scale()))
        ops.append(("Q.to_affine()", lambda o: o.to_affine()))
        if c.name != "tiny":
            ops.append(("verify wrong hash", lambda o: es.Public_key(c.ref, o, False).verifies(c.h + 1, c.sig)))
    ops.append(("other.to_bytes()", lambda o: c.make_other().to_bytes("uncompressed")))
    ops.append(("other.to_affine()", lambda o: c.make_other().to_affine()))
    ops.append(("other.x()", lambda o: c.make_other().x()))
    return ops


SINGLE = ("to_affine()", ".scale()", "pickle.", "copy.copy", "copy.deepcopy", "mul_add", "verify good", ".to_bytes()")


def _single_programs(c, mode, full):
    """names of B operations that are also run ALONE (thread B = exactly this one complete operation): in the long
    programme a later operation of B (a multiplication rebuilds the table) can repair what an earlier one has destroyed
    before thread A goes on"""
    return [n for n, _ in _ops(c, mode, full) if not n.startswith("other.") and any(k in n for k in SINGLE)]


def _program(c, mode, full, bprog):
    ops = _ops(c, mode, full)
    if bprog:
        ops = [(n, f) for n, f in ops if n == bprog]
    return ops


def _b_builds(c, mode, ops):
    """does B's programme contain an operation that (re)builds the table of the shared object?"""
    return mode != "scale" and any(("*" in n and "other" not in n) or "mul_add" in n or "verify" in n for n, _ in ops)


def _run_ops(c, ops, obj, out=None, dur=None):
    out = [] if out is None else out
    for name, fn in ops:
        t0 = time.time()
        try:
            out.append(_canon(c, fn(obj)))
        except Exception as e:          # the sequential run does not raise, so this is a difference
            out.append(("raise", type(e).__name__, str(e)[:80]))
        if dur is not None:
            dur.append(time.time() - t0)
    return out


_ADAPT = {"blocked": 0, "wedged": 0}     # per worker process: how often a B was found blocked (shortens the waits)


class BRun:
    """Thread B: the complete operations run in a helper thread; the caller never waits unboundedly.
    wait(stall): True when all operations are done; False when NO operation completed for `stall` seconds
    (B is blocked on something, or extremely slow - the caller must tolerate both)."""

    def __init__(self, c, ops, obj):
        self.out, self.done, self.n = [], threading.Event(), len(ops)
        self.t = threading.Thread(target=self._main, args=(c, ops, obj), daemon=True)
        self.t.start()

    def _main(self, c, ops, obj):
        try:
            _run_ops(c, ops, obj, self.out)
        finally:
            self.done.set()

    def wait(self, stall):
        while True:
            n = len(self.out)
            if self.done.wait(stall):
                return True
            if len(self.out) == n:
                return False

    def results(self):
        got = list(self.out)
        return got + [("blocked",)] * (self.n - len(got))


def _stalls(c, key):
    """(short, long) waits derived from the slowest single operation of the sequential run.
    `short` decides that B is blocked while A is parked: a wrong guess is harmless (A and B then really run side by side).
    `long` decides that B or A NEVER finishes although nothing is parked any more: generous (operations that do finish
    finish at once, so it costs nothing) and shortened only on evidence, i.e. after this process has already seen
    operations blocked for ever with the generous wait."""
    mx = c.expected[key][2]
    short = max(0.25, 10 * mx) if _ADAPT["blocked"] < 3 else max(0.08, 5 * mx)
    w = _ADAPT["wedged"]
    return short, max(30.0, 200 * mx) if w == 0 else max(3.0, 60 * mx) if w == 1 else max(1.0, 25 * mx)


def _find_loc(c, P, obj, mode):
    """The builder's own list at the stop: LazyTable's variable `loc`.  Found by VALUE, not by the name the current source
    happens to give it: a list in a local variable of a library frame on thread A's stack (or left by a completed invocation of
    the builder) that is the published table itself, else the longest one that is a prefix of the sequential table.  Lists
    that are something else (intermediate Jacobian triples of a batched construction, say) are not the model's variable and are
    ignored; when nothing is found and a table is published, the published list is the builder's list."""
    ref = _ref(c, mode)[2]
    pub = getattr(obj, c.pfx + "__precompute", None)
    cands = [v for fn, _k, v in (P.stack_lists or []) if fn == "" or fn.startswith(c.libdir)]
    if pub:
        for v in cands:
            if v is pub:
                return v
    best = None
    for v in cands:
        try:
            lv = list(v)
        except Exception:                                          # noqa: (another thread appends)
            continue
        if len(lv) <= len(ref) and lv == ref[:len(lv)] and (best is None or len(lv) > len(best)):
            best = v
    if best is not None:
        return best
    return pub if pub else None


def _intlike(x):
    return isinstance(x, int) and not isinstance(x, bool) or (hasattr(x, "__index__") and not isinstance(x, (bytes, str)))


def _as_tuple(v, want):
    """`want` integers out of a tuple / list, or out of a small object that holds exactly that many integer fields"""
    if isinstance(v, (tuple, list)):
        return tuple(v) if len(v) == want and all(_intlike(x) for x in v) else None
    names = []
    for k in type(v).__mro__:
        sl = k.__dict__.get("__slots__", ())
        names += [sl] if isinstance(sl, str) else list(sl)
    names += list(getattr(v, "__dict__", {}) or ())
    try:
        vals = [getattr(v, n) for n in names if hasattr(v, n)]
    except Exception:                                              # noqa
        return None
    return tuple(vals) if len(vals) == want and all(_intlike(x) for x in vals) else None


def _relation(c, t, xr, yr):
    p = c.p
    if c.fam == "edwards":
        X, Y, Z, T = t
        return bool(Z % p != 0 and (X - xr * Z) % p == 0 and (Y - yr * Z) % p == 0 and (T * Z - X * Y) % p == 0)
    X, Y, Z = t
    return bool(Z % p != 0 and (X - xr * Z * Z) % p == 0 and (Y - yr * Z * Z * Z) % p == 0)


def _coord_accessor(c):
    """How to read the internal coordinates of a point of this context.  The attribute the pinned source uses when it exists;
    otherwise the refinement mapping is found by VALUE on a fresh Jacobian point: the attribute (a tuple, or a small object
    with three / four integer fields, in some order) that stands for the sequential point with Z # 1 before scale() and with
    Z = 1 after it.  None when nothing of the kind exists: the coordinates are then not observed (the results of the
    operations still are)."""
    if hasattr(c, "_coacc"):
        return c._coacc
    c._coacc = None
    want = 4 if c.fam == "edwards" else 3
    probe = c.make_q()
    if hasattr(probe, c.pfx + "__coords"):
        c._coacc = (c.pfx + "__coords", tuple(range(want)))
        return c._coacc
    import itertools
    names = list(getattr(probe, "__dict__", {}) or ())
    for k in type(probe).__mro__:
        sl = k.__dict__.get("__slots__", ())
        names += [sl] if isinstance(sl, str) else [("_%s%s" % (k.__name__.lstrip("_"), n) if n.startswith("__") and not n.endswith("__") else n) for n in sl]
    found = []
    for n in names:
        t = _as_tuple(getattr(probe, n, None), want)
        if t is None:
            continue
        for perm in itertools.permutations(range(want)):
            tt = tuple(t[i] for i in perm)
            zi = 2
            if _relation(c, tt, c.qx, c.qy) and tt[zi] != 1:
                found.append((n, perm))
                break
    if len(found) == 1:
        n, perm = found[0]
        try:
            probe.scale()
            t = _as_tuple(getattr(probe, n), want)
            tt = tuple(t[i] for i in perm)
            if _relation(c, tt, c.qx, c.qy) and tt[2] == 1:
                c._coacc = (n, perm)
        except Exception:                                          # noqa
            pass
    return c._coacc


def _peek(c, obj, loc, mode):
    tab = getattr(obj, c.pfx + "__precompute")
    L = len(tab)
    xr, yr, rtab = _ref(c, mode)
    acc = _coord_accessor(c)
    if acc is None:                 # coordinates kept in a form this observer does not read: nothing is said about them
        try:
            tab_ok = list(tab) == rtab[:L]
        except Exception:                                          # noqa
            tab_ok = False
        return {"len": L, "ok": tab_ok, "same": loc is not None and tab is loc and L > 0, "z1": True, "co_ok": True}
    co = getattr(obj, acc[0])
    if not isinstance(co, (tuple, list)):
        co = _as_tuple(co, len(acc[1])) or ()
    if len(co) == len(acc[1]):
        co = tuple(co[i] for i in acc[1])
    p = c.p
    try:
        if c.fam == "edwards":
            X, Y, Z, T = co
            ok = bool(Z % p != 0 and (X - xr * Z) % p == 0 and (Y - yr * Z) % p == 0 and (T * Z - X * Y) % p == 0)
        else:
            X, Y, Z = co
            ok = bool(Z % p != 0 and (X - xr * Z * Z) % p == 0 and (Y - yr * Z * Z * Z) % p == 0)
        z1 = bool(Z == 1)
    except Exception:
        ok, z1 = False, False
    try:
        tab_ok = list(tab) == rtab[:L]
    except Exception:
        tab_ok = False
    # (same: the builder's list IS the published one.  Said of a non-empty table only: a builder that reads the still empty
    #  published list into a local variable before it starts a list of its own shares nothing that anybody could see)
    return {"len": L, "ok": tab_ok, "same": loc is not None and tab is loc and L > 0, "z1": z1, "co_ok": ok}


def _codes(c, mode, region="fn"):
    """code objects whose frames (with self = the shared object) open the region in which thread A is pre-empted:
    "fn": the table construction / the rescaling itself;  "op": A's WHOLE operation on the shared object - the
    multiplication that follows the construction (the loop over the table), mul_add, everything below them"""
    if region == "op":
        return [getattr(c.cls, n).__code__ for n in ("__mul__", "mul_add", "_maybe_precompute", "_mul_precompute", "scale", "to_affine")
                if hasattr(c.cls, n)]
    if mode == "scale":
        return [c.cls.scale.__code__]
    if hasattr(c.cls, "_maybe_precompute"):
        return [c.cls._maybe_precompute.__code__]
    return _codes(c, mode, "op")            # the construction has another name: the whole operation is the region


def _count_events(name, mode, opcode, deep, region="fn"):
    c = _ctx(name)
    # CPython 3.12 delivers 'opcode' events for a code object only from the second traced execution on
    # (the instrumentation is installed by the first one): repeat until the count is stable
    counts = []
    aop = _a_op(c, mode)
    for _ in range(5):
        obj = _make(c, mode)
        p = sched.Preempter(lambda: aop(obj), _codes(c, mode, region), obj, None, opcode, c.libdir if deep else None, watch=_codes(c, mode))
        p.run_to_stop()
        if not p.run_to_end() or p.hung:
            raise MachineryError("the sequential run of %s/%s does not terminate" % (name, mode))
        if p.error:
            raise MachineryError("sequential run raised %r" % p.error)
        counts.append(p.count)
        if len(counts) >= 2 and counts[-1] == counts[-2] and counts[-1] > 0:
            return p.count
    if max(counts) == 0:
        raise MachineryError("no %s events of %s were delivered" % ("opcode" if opcode else "line", mode))
    return max(counts)      # history-dependent paths (caches): an upper estimate is enough


END = 10 ** 8       # pre-emption point "after A's last event"


def _gname(name, mode, opcode, deep, kind="pt", region="fn"):
    return "%s/%s/%s%s%s%s" % (name, mode, "opcode" if opcode else "line", "+callees" if deep else "",
                               "/whole-op" if region == "op" else "", "" if kind == "pt" else "/" + kind)


def _expect(c, mode, full, ops, bprog=None):
    key = (mode, full, bprog)
    if key not in c.expected:
        # "one after another": B's operations before A's operation, or after it.  (Computed by the parent process before
        # any worker is forked; here in a helper thread, so that not even a wedged library can hang the recorder.)
        box = {}

        def seq():
            dur = []
            first = _run_ops(c, ops, _make(c, mode), dur=dur)
            after_a = _make(c, mode)
            res_a = _canon(c, _a_op(c, mode)(after_a))
            box["v"] = ([(x, y) for x, y in zip(first, _run_ops(c, ops, after_a))], res_a, max(dur + [0.001]))
        t = threading.Thread(target=seq, daemon=True)
        t.start()
        t.join(120)
        if "v" not in box:
            raise MachineryError("the sequential run of B's operations (%s/%s) does not terminate" % (c.name, mode))
        c.expected[key] = box["v"]
    return key, c.expected[key]


def _event(c, task, **kw):
    name, mode, kind, opcode, deep = task["name"], task["mode"], task["kind"], task["opcode"], task["deep"]
    e = {"tid": task["tid"], "grp": task["grp"], "op": kind, "mode": SPEC_MODE.get(mode, mode), "idx": task["idx"], "adj": not deep, "n": c.N,
         "b_builds": _b_builds(c, mode, _program(c, mode, task["full"], task.get("bprog")))}
    e.update(kw)
    e.setdefault("loc_known", True)
    e.update({"_scen": mode, "_gran": "opcode" if opcode else "line", "_deep": bool(deep), "_curve": name, "_kind": kind,
              "_g": task.get("g") or _gname(name, mode, opcode, deep, kind, task.get("region", "fn")), "_region": task.get("region", "fn"),
              "_bprog": task.get("bprog") or ""})
    return e


def _point(task):
    """one pre-emption point -> one event.  Never hangs: thread B runs in a helper thread.  blocked = 0: B completed while
    A was parked; 1: B made no progress while A was parked and completed after A had been resumed (it waited for something
    A holds: legitimate serialisation); 2: B (or A) never completed although nothing was parked any more."""
    t0 = time.time()
    e = _point1(task)
    e["_dur"] = round(time.time() - t0, 3)
    return e


def _point1(task):
    c = _ctx(task["name"])
    if task["kind"] != "pt":
        return _interrupted(c, task)
    mode, full, idx, opcode, deep = task["mode"], task["full"], task["idx"], task["opcode"], task["deep"]
    ops = _program(c, mode, full, task.get("bprog"))
    key, (exp, expA, _) = _expect(c, mode, full, ops, task.get("bprog"))
    short, long_ = _stalls(c, key)
    obj = _make(c, mode)
    aop = _a_op(c, mode)
    P = sched.Preempter(lambda: aop(obj), _codes(c, mode, task.get("region", "fn")), obj, idx, opcode, c.libdir if deep else None,
                        watch=_codes(c, mode))
    stopped = P.run_to_stop(long_)
    blocked, who = 0, []
    # (K is the event count of a sequential run.  A run may take a few events more or less when the code keeps
    #  history-dependent state, e.g. a cache: then A is simply stopped a little earlier/later, or is already through.)
    loc = _find_loc(c, P, obj, mode) if stopped and mode != "scale" else None
    if not stopped and not P.hung and mode != "scale":
        loc = getattr(obj, c.pfx + "__precompute")  # A is through: its list is the published one
    try:
        L = len(loc) if loc is not None else 0      # now: A goes on appending to this very list later
        loc_ok = loc is None or list(loc) == _ref(c, mode)[2][:L]
    except Exception:
        L, loc_ok = 0, False
    before = _peek(c, obj, loc, mode)
    B = BRun(c, ops, obj)
    if not B.wait(short if stopped else long_):
        blocked = 1                                 # B does not get on while A is parked (or A hangs)
    a_done = P.run_to_end(long_)                    # thread A is never left parked
    if blocked:
        _ADAPT["blocked"] += 1
        if not B.wait(long_):
            blocked = 2
            who.append("B")
    if not a_done:
        blocked = 2
        who.append("A")
    got = B.results()
    bad = [ops[i][0] for i in range(len(ops)) if got[i] not in exp[i]]
    after = _peek(c, obj, loc, mode)
    fbad = []
    if a_done and (P.error is not None or _canon(c, P.result) != expA):
        fbad.append("A's own operation")
    B2 = BRun(c, ops, obj)
    if not B2.wait(long_):
        blocked = 2
        who.append("B after both")
    got2 = B2.results()
    fbad += [ops[i][0] for i in range(len(ops)) if got2[i] not in exp[i]]
    fin = _peek(c, obj, None, mode)
    if blocked == 2:
        _ADAPT["wedged"] += 1
    return _event(c, task, loc_len=L, loc_ok=loc_ok, loc_known=bool(loc is not None or mode == "scale" or not stopped),
                  pub_len=before["len"], pub_ok=before["ok"], same=before["same"], z1=before["z1"], co_ok=before["co_ok"],
                  b_len=after["len"], b_ok=after["ok"], b_z1=after["z1"], b_co_ok=after["co_ok"],
                  res=len(ops), res_bad=len(bad), blocked=blocked,
                  f_len=fin["len"], f_ok=fin["ok"], f_z1=fin["z1"], f_co_ok=fin["co_ok"], f_res_bad=len(fbad),
                  _line=P.lineno if stopped else 0, _in=P.where if stopped else "", _stopped=stopped, _bad=bad[:5], _fbad=fbad[:5],
                  _who=who)


def _interrupted(c, task):
    """error paths.  kind "intr": thread A's operation gets an exception (raised by the trace function, as a
    KeyboardInterrupt would be) at trace event idx of _maybe_precompute()/scale(); kind "fail": A's operation is
    `generator-without-order * 5`, which fails with AssertionError inside the table construction.  Afterwards thread B's
    complete operations on the SAME object, then on a FRESH object of the same kind, must terminate and give the
    sequential results; no partial table may stay behind.  Same projection as a "pt" event: the state left behind by A
    (loc_*, pub_*, z1, co_ok), after B on the same object (b_*), after B on the fresh object (f_*)."""
    mode, full, idx, opcode, deep, kind = task["mode"], task["full"], task["idx"], task["opcode"], task["deep"], task["kind"]
    ops = _ops(c, mode, full)
    key, (exp, expA, _) = _expect(c, mode, full, ops)
    short, long_ = _stalls(c, key)
    blocked, who, counted = 0, [], False
    lineno, where, stopped, loc = 0, "", False, None
    a_wait = long_
    if _ADAPT["wedged"] >= 2 and mode != "scale":
        # Several abandoned operations in this process have left the library in a state in which later operations on
        # FRESH objects never finish.  Is it still so?  Then this event is the same observation (B on a fresh object is
        # blocked for ever) and is recorded as such without waiting for yet another set of timeouts.
        probe = BRun(c, ops, _make(c, mode))
        if not probe.wait(min(5.0, max(0.5, 20 * c.expected[key][2]))):
            z = _peek(c, _make(c, mode), None, mode)
            return _event(c, task, loc_len=0, loc_ok=True, pub_len=0, pub_ok=True, same=False, z1=z["z1"], co_ok=z["co_ok"],
                          b_len=0, b_ok=True, b_z1=z["z1"], b_co_ok=z["co_ok"], res=len(ops), res_bad=len(ops), blocked=2,
                          f_len=0, f_ok=True, f_z1=z["z1"], f_co_ok=z["co_ok"], f_res_bad=len(ops),
                          _line=0, _in="", _stopped=False, _bad=[], _fbad=[], _a_exc="",
                          _who=["B on a fresh object (the process is still wedged by an earlier abandoned operation; A not started)"])
    if kind == "fail":
        bad_obj = c.make_bad()
        out = {}

        def body():
            try:
                out["r"] = bad_obj * 5
            except BaseException as e:
                out["e"] = type(e).__name__
        t = threading.Thread(target=body, daemon=True)
        t.start()
        t.join(a_wait)
        if t.is_alive():
            blocked, who = 2, ["A"]
        obj = _make(c, mode)                        # B works on a fresh valid generator
        a_exc = out.get("e", "")
    else:
        obj = _make(c, mode)
        aop = _a_op(c, mode)
        P = sched.Preempter(lambda: aop(obj), _codes(c, mode), obj, idx, opcode, c.libdir if deep else None, interrupt=True)
        P.run_to_stop(a_wait)
        if P.hung:
            blocked, who = 2, ["A"]                 # A neither got to the event nor finished (e.g. waits for a lock)
        stopped = P.stopped
        lineno, where = P.lineno, P.where
        a_exc = type(P.error).__name__ if P.error is not None else ""
        loc = _find_loc(c, P, obj, mode) if stopped and mode != "scale" else None
        if not stopped and not P.hung and mode != "scale":
            loc = getattr(obj, c.pfx + "__precompute")
    try:
        L = len(loc) if loc is not None else 0
        loc_ok = loc is None or list(loc) == _ref(c, mode)[2][:L]
    except Exception:
        L, loc_ok = 0, False
    before = _peek(c, obj, loc, mode)
    B = BRun(c, ops, obj)
    if not B.wait(long_):
        blocked = 2
        who.append("B on the same object" if kind == "intr" else "B on a fresh generator")
        _ADAPT["wedged"] += 1
        counted = True
        short, long_ = _stalls(c, key)
    got = B.results()
    bad = [ops[i][0] for i in range(len(ops)) if got[i] not in exp[i]]
    after = _peek(c, obj, loc, mode)
    fresh = _make(c, mode)
    B2 = BRun(c, ops, fresh)
    if not B2.wait(long_):
        blocked = 2
        who.append("B on a fresh object")
    got2 = B2.results()
    fbad = [ops[i][0] for i in range(len(ops)) if got2[i] not in exp[i]]
    fin = _peek(c, fresh, None, mode)
    if blocked == 2 and not counted:
        _ADAPT["wedged"] += 1
    return _event(c, task, loc_len=L, loc_ok=loc_ok, loc_known=bool(loc is not None or mode == "scale" or not stopped),
                  pub_len=before["len"], pub_ok=before["ok"], same=before["same"], z1=before["z1"], co_ok=before["co_ok"],
                  b_len=after["len"], b_ok=after["ok"], b_z1=after["z1"], b_co_ok=after["co_ok"],
                  res=len(ops), res_bad=len(bad), blocked=blocked,
                  f_len=fin["len"], f_ok=fin["ok"], f_z1=fin["z1"], f_co_ok=fin["co_ok"], f_res_bad=len(fbad),
                  _line=lineno, _in=where, _stopped=stopped, _bad=bad[:5], _fbad=fbad[:5], _who=who, _a_exc=a_exc)


def _lazy_part(rep, tier, wd, J):
    # ---- MC
    N = J["lt_N"]
    res = J["lt"]
    if res.violated:
        rep.violation("C20:lazytable-model-" + res.violated[0].strip("<>"), "LazyTable model: TLC reports %s" % res.violated, {"out": res.clean()[-3000:]})
    elif not res.ok:
        raise MachineryError("TLC failed on MC_LazyTable:\n" + res.clean()[-3000:])
    rep.add_mc("MC_LazyTable N=%d: table empty-or-complete, coordinates old-or-new, reader result = sequential result, "
               "publication only when complete, every builder statement is an allowed effect, builder finishes or is "
               "interrupted at any statement, nobody is locked out for ever" % N, res, {"N": N})
    for sw in ("EARLY_PUBLISH", "SPLIT_ASSIGN", "TORN_READ"):
        if "ReaderOK" not in J["lt_" + sw].violated:
            raise MachineryError("self-test: LazyTable with %s = TRUE was not refuted (ReaderOK)" % sw)
    r = tlc.require_ok(J["lt_lock_finally"], "MC_LazyTable LOCKED=finally")
    rep.add_mc("MC_LazyTable N=%d, construction serialised by a lock released on every exit: same properties" % N, r, {"N": N, "LOCKED": "finally"})
    r = J["lt_lock_nofinally"]
    if r.ok or "NeverBlockedForever" not in r.out:
        raise MachineryError("self-test: LazyTable with a lock that is not released when the construction is interrupted was not refuted")
    rep.cov["parts"]["selftest LazyTable variants"] = (
        "EARLY_PUBLISH, SPLIT_ASSIGN and TORN_READ each refuted by TLC (ReaderOK: the reader sees a partial table / a mixed triple / "
        "a table built from a torn read of the coordinates); LOCKED=nofinally refuted (NeverBlockedForever: an interrupted "
        "construction keeps the lock)")

    # ---- C->S: record
    thorough = tier == "thorough"
    # (curve, scenario, kind, byte-code level, callees traced too, all multipliers, points: None = every one / number to sample)
    plan = []
    for mode in ("table", "scale", "jtable", "ptable"):
        plan += [("tiny", mode, "pt", False, True, True, None), ("tiny", mode, "pt", True, True, True, None if thorough or mode == "scale" else 600),
                 ("tiny", mode, "intr", False, True, True, None)]
    plan += [("nist256p", "table", "pt", False, False, thorough, None),
             ("nist256p", "table", "pt", False, True, False, None if thorough else 150),
             ("nist256p", "scale", "pt", False, True, True, None), ("nist256p", "scale", "pt", True, True, True, None),
             ("nist256p", "jtable", "pt", False, True, False, None if thorough else 120),
             ("nist256p", "ptable", "pt", False, False, False, None if thorough else 120),
             ("nist256p", "table", "intr", False, False, False, None if thorough else 60),
             ("nist256p", "scale", "intr", False, True, True, None),
             # twisted Edwards points (Ed25519 keys): the same two mechanisms in class PointEdwards
             ("ed25519", "scale", "pt", False, True, True, None), ("ed25519", "scale", "pt", True, True, True, None),
             ("ed25519", "table", "pt", False, False, False, None if thorough else 60),
             ("ed25519", "scale", "intr", False, True, True, None),
             ("ed25519", "table", "intr", False, False, False, 300 if thorough else 20)]
    if thorough:
        plan.append(("nist256p", "table", "pt", True, False, False, None))
        plan.append(("nist256p", "jtable", "pt", True, False, False, 2000))
        plan.append(("ed25519", "table", "pt", False, True, False, 1500))
        plan.append(("ed448", "scale", "pt", False, True, True, None))
    # thread A pre-empted anywhere in its WHOLE operation (the multiplication after the construction: the loop over the table)
    for mode in ("table", "jtable", "ptable", "scale"):
        plan.append(("tiny", mode, "pt", False, True, True, None, "op"))
    plan += [("nist256p", "table", "pt", False, True, False, 1500 if thorough else 40, "op"),
             ("nist256p", "jtable", "pt", False, True, False, 1500 if thorough else 40, "op"),
             ("ed25519", "table", "pt", False, True, False, 1500 if thorough else 40, "op")]
    plan = [p_ if len(p_) == 8 else p_ + ("fn",) for p_ in plan]
    curves = []
    for p_ in plan:
        if p_[0] not in curves:
            curves.append(p_[0])
    r = rng("c20/points")
    tasks, tid, groups = [], 0, {}
    CH = 100
    for (name, mode, kind, opcode, deep, full, sample, region) in plan:
        K = _count_events(name, mode, opcode, deep, region)
        _expect(_ctx(name), mode, full, _ops(_ctx(name), mode, full))      # sequential results: before the workers are forked
        gname = _gname(name, mode, opcode, deep, kind, region)
        # some points past the sequential count: a run whose path is longer (history-dependent state in a callee)
        # is then still stopped near its end, a run that is through is recorded as "A has finished"
        K2 = K + (min(128, max(16, K // 4)) if deep else 1)
        idxs = list(range(K2 + 1))
        if sample is not None and sample < K:       # the first and the last events (publication) always, the rest sampled
            head, tail = (150, 60) if kind == "pt" else (30, 12)
            if region == "op":
                head, tail = 80, (220 if thorough else 150)     # the multiplication proper is the tail of the operation
            idxs = sorted(x for x in set(range(0, head)) | set(range(K - tail, K2 + 1)) | set(r.sample(range(K + 1), sample)) if 0 <= x <= K2)
        if kind == "pt":
            idxs.append(END)                        # ... and one run in which A is certainly through
        groups[gname] = {"preemption_points_total": K + 1, "points_run": len(idxs), "B_operations_per_point": 0}
        for j, idx in enumerate(idxs):
            ch = j // CH
            tid += 1
            t = {"name": name, "mode": mode, "kind": kind, "opcode": opcode, "deep": deep, "full": full, "idx": idx,
                 "grp": "%s/%d" % (gname, ch), "tid": tid, "K": K, "g": gname, "region": region}
            tasks.append(t)
            if j % CH == 0 and j > 0:       # chunk boundary: the event is also the last one of the previous chunk
                tid += 1
                tasks.append(dict(t, grp="%s/%d" % (gname, ch - 1), tid=-tid))
        if region == "op" and kind == "pt" and mode != "scale":
            # ... and thread B = ONE complete operation only (rescaling, copying, serialising, verifying), at the points
            # after the construction (the last part of A's operation) and a few before
            c_ = _ctx(name)
            sub = ([x for x in idxs if thorough or x >= K - 250 or x % 8 == 0] if name == "tiny"
                   else [x for x in idxs if x < 3 or (x >= K - 120 and (thorough or x % 3 == 0))])
            for bp in _single_programs(c_, mode, full):
                _expect(c_, mode, full, _program(c_, mode, full, bp), bp)
                g2 = "%s/B=%s" % (gname, bp)
                groups[g2] = {"preemption_points_total": K + 1, "points_run": len(sub), "B_operations_per_point": 0}
                for j, idx in enumerate(sub):
                    tid += 1
                    tasks.append({"name": name, "mode": mode, "kind": kind, "opcode": opcode, "deep": deep, "full": full, "idx": idx,
                                  "grp": "%s/%d" % (g2, j // CH), "tid": tid, "K": K, "g": g2, "region": region, "bprog": bp})
    for name in curves:                     # a multiplication that fails its precondition inside the table construction
        if name == "ed448":
            continue
        tid += 1
        _expect(_ctx(name), "table", False, _ops(_ctx(name), "table", False))
        gname = _gname(name, "table", False, False, "fail")
        groups[gname] = {"preemption_points_total": 1, "points_run": 1, "B_operations_per_point": 0}
        tasks.append({"name": name, "mode": "table", "kind": "fail", "opcode": False, "deep": False, "full": False, "idx": 0,
                      "grp": gname, "tid": tid, "K": 0, "g": gname})
    # duplicates (negative marker) are computed once.  Error-path runs get processes of their own: what an abandoned
    # operation leaves behind in the library's module state must not leak into the interleaving runs.
    uniq = [t for t in tasks if t["tid"] > 0]
    heavy = lambda t: (t["name"] == "tiny", -t["idx"])
    t0 = time.time()
    evs = _pmap(_point, sorted([t for t in uniq if t["kind"] == "pt"], key=heavy), 4, "recording of pre-emption points")
    evs += _pmap(_point, sorted([t for t in uniq if t["kind"] != "pt"], key=lambda t: (t["kind"] != "fail",) + heavy(t)), 2,
                 "recording of interrupted operations")
    rec_wall = time.time() - t0
    by_key = {(e["_g"], e["idx"]): e for e in evs}
    events = []
    for t in tasks:
        e = by_key[(t["g"], t["idx"])]
        if t["tid"] < 0:
            e = dict(e, tid=-t["tid"], grp=t["grp"], _dup=True)
        events.append(e)
    for e in evs:
        g = groups[e["_g"]]
        g["B_operations_per_point"] = e["res"]
        g["recording_s"] = round(g.get("recording_s", 0) + e.get("_dur", 0), 2)
        g.setdefault("table_len_seen_by_B", set()).add(e["pub_len"])
        g.setdefault("coords_form_seen_by_B", set()).add("affine" if e["z1"] else "jacobian")
        g.setdefault("B_waited_for_A", 0)
        g["B_waited_for_A"] += 1 if e["blocked"] == 1 else 0
        if e["_in"]:
            g.setdefault("stopped_in", set()).add(e["_in"])
        if e.get("_a_exc"):
            g.setdefault("A_ended_with", set()).add(e["_a_exc"])
    for g in groups.values():
        for k in ("table_len_seen_by_B", "coords_form_seen_by_B", "stopped_in", "A_ended_with"):
            g[k] = sorted(g.get(k, ()))
    # vacuity (judged below, only when the run is otherwise clean): A was really stopped before and after its
    # publication / assignment, inside callees, and really interrupted
    vacuity = []
    for gname, g in groups.items():
        pt = not gname.endswith(("/intr", "/fail"))
        if pt and "/B=" not in gname and ("/table/" in gname or "/jtable/" in gname or "/ptable/" in gname) and not {0, max(g["table_len_seen_by_B"])} <= set(g["table_len_seen_by_B"]):
            vacuity.append("B never saw both the empty and the complete table in %s" % gname)
        if pt and "/scale/" in gname and len(g["coords_form_seen_by_B"]) < 2 and _coord_accessor(_ctx(gname.split("/")[0])) is not None:
            vacuity.append("B never saw both coordinate forms in %s" % gname)
        # (which callee does not matter: a construction that inverts once at the end is rarely stopped in inverse_mod)
        if "+callees" in gname and "/B=" not in gname and not (set(g["stopped_in"]) - {"", "-", "_maybe_precompute", "scale"}):
            vacuity.append("thread A was never stopped inside a callee in %s" % gname)
        if gname.endswith("/intr") and "Interrupt" not in g["A_ended_with"]:
            vacuity.append("thread A was never interrupted in %s" % gname)
        if gname.endswith("/fail") and not g["A_ended_with"]:      # AssertionError; under `python -O` (asserts compiled away) TypeError
            g["note"] = "the multiplication of a generator without order did not fail here: there is no failing construction to observe"

    # ---- C->S: validate (one TLC configuration per table length)
    n_real = len(evs)
    total_stats = {"states": 0, "transitions": 0, "shards": 0, "tlc_wall_s": 0.0}
    rejected = []
    canaries = {}
    vjobs = []
    for name in curves:
        sub = [e for e in events if e["_curve"] == name]
        Nn = sub[0]["n"]
        # canaries: one corrupted field each; own group so that they do not disturb the step relation
        # (built from real events of the expected shape; if the real code never produced such an event - e.g. because it
        #  publishes the table early - the canaries are built from a synthesised well-formed event instead, so that the
        #  real events still reach the specification and are judged there)
        clean = dict(res_bad=0, f_res_bad=0, blocked=0, b_builds=True, pub_ok=True, co_ok=True, loc_ok=True, b_ok=True, b_co_ok=True, f_ok=True,
                     f_co_ok=True, b_z1=True, f_z1=True, op="pt")
        can = []
        tab = [e for e in sub if e["mode"] == "table"]
        if tab:
            mids = [e for e in tab if e["op"] == "pt" and 0 < e["loc_len"] < Nn and e["pub_len"] == 0 and e["blocked"] == 0]
            mid = mids[0] if mids else dict(tab[0], loc_len=max(1, Nn // 2), pub_len=0, same=False, b_len=Nn, f_len=Nn, z1=True, **clean)
            can += [dict(mid, pub_len=mid["loc_len"], same=True, grp="canary1", _want="table-partly-visible"),
                    dict(mid, res_bad=1, grp="canary2", _want="reader-result"),
                    dict(mid, same=True, grp="canary4", _want="published-before-complete"),
                    dict(mid, blocked=2, grp="canary6", _want="blocked-forever"),
                    dict(mid, op="intr", f_res_bad=1, grp="canary7", _want="final-result")]
            fulls = [e for e in tab if e["op"] == "pt" and e["pub_len"] == Nn and e["blocked"] == 0 and not e["res_bad"] and not e["f_res_bad"]]
            if fulls:
                can.append(dict(fulls[0], b_len=0, grp="canary8", _want="table-lost"))
        scs = [e for e in sub if e["mode"] == "scale" and e["op"] == "pt"]
        if scs:
            sc = dict(scs[0], **clean) if scs[0]["res_bad"] or scs[0]["blocked"] else scs[0]
            can += [dict(sc, co_ok=False, grp="canary3", _want="coords-mixed"),
                    dict(sc, f_z1=False, grp="canary5", _want="final-not-scaled")]
        for cn in can:
            tid += 1
            cn["tid"] = tid
            canaries[tid] = cn["_want"]
        vjobs.append((LT_TRACE, "CONSTANT N = %d\nINIT Init\nNEXT Next\n" % Nn, sub + can, os.path.join(wd, "tr_" + name)))
    with cf.ThreadPoolExecutor(max_workers=3) as ex:
        futs = [ex.submit(tlc.validate_trace, m, cfg, evl, d, shards=NPROC // 2 if len(evl) < 800 else NPROC, by="grp", timeout=1200)
                for (m, cfg, evl, d) in vjobs]
        for f in futs:
            rej, st = f.result()
            for k in ("states", "transitions", "shards"):
                total_stats[k] += st[k]
            total_stats["tlc_wall_s"] = round(max(total_stats["tlc_wall_s"], st["tlc_wall_s"]), 2)
            rejected += rej
    rej_by = {}
    for x in rejected:
        rej_by.setdefault(x[1], x[2])
    byid = {e["tid"]: e for e in events}
    seen = set()
    nviol = 0
    for t, clause in rej_by.items():
        if t in canaries:
            continue
        e = byid[t]
        k = (e["_g"], e["idx"], clause)
        if k in seen:
            continue
        seen.add(k)
        nviol += 1
        fn = "scale" if e["mode"] == "scale" else "_maybe_precompute"
        if e.get("_region") == "op":
            fn = "its whole operation on the shared object (the multiplication around %s)" % fn
        if e["op"] == "fail":
            what = "after `generator-without-order * 5` failed (%s) on %s" % (e.get("_a_exc") or "no exception", e["_curve"])
        elif e["op"] == "intr":
            what = ("after thread A's operation was interrupted at %s event %d of %s (in %s, line %d) on %s, scenario %s"
                    % (e["_gran"], e["idx"], fn, e["_in"] or "-", e["_line"], e["_curve"], e["_scen"]))
        else:
            what = ("thread A stopped at %s event %d of %s (in %s, line %d) on %s, scenario %s"
                    % (e["_gran"], e["idx"], fn, e["_in"] or "-", e["_line"], e["_curve"], e["_scen"]))
        detail = ""
        if e["_who"]:
            detail += "; never finished: " + ", ".join(e["_who"])
        if e["_bad"] or e["_fbad"]:
            detail += "; wrong: " + ", ".join((e["_bad"] or []) + (e["_fbad"] or []))
        rep.violation("C20:lazy-%s%s-%s" % (e["_scen"], "" if e["op"] == "pt" else "-" + e["op"], clause),
                      "%s: observation rejected by LazyTable (%s)%s" % (what, clause, detail), e)
    # self-tests of the machinery: only a clean run is required to pass them (a deviating library may legitimately
    # change what the recorder gets to see; it is reported above, through the specification's verdicts)
    if nviol == 0 and not rep.violations:
        for t, want in canaries.items():
            if rej_by.get(t) != want:
                raise MachineryError("binding self-test: corrupted lazy-table event (expected %s) got verdict %r" % (want, rej_by.get(t)))
        if vacuity:
            raise MachineryError("vacuity: " + "; ".join(vacuity))
    total_stats["record_wall_s"] = round(rec_wall, 2)
    total_stats["canaries_rejected"] = len(canaries)
    rep.add_trace("Trace_LazyTable (thread A stopped at / interrupted at every line / byte code; thread B's complete operations on the same object)",
                  total_stats, n_real, extra={"groups": groups})
    pick = [e for e in evs if e["_curve"] == "nist256p" and e["mode"] == "table" and e["op"] == "pt" and 0 < e["loc_len"] < e["n"]]
    for e in (pick[len(pick) // 2:len(pick) // 2 + 1] + [x for x in evs if x["mode"] == "scale" and x["_stopped"] and not x["z1"]][-1:]
              + [x for x in evs if x["op"] == "intr" and x["_stopped"] and x["loc_len"] > 0][:1]
              + [x for x in evs if x["op"] == "fail"][:1]):
        rep.sample(e)
    return n_real


def _fine_refinement(rep, tier, wd):
    """Statement-granularity model (mutex acquisition, counter update, counter test as separate steps) refines the
    lock-operation model that is walked on the real lock; the variant with the test after the mutex release does not."""
    fine = os.path.join(SPEC, "RWLockFine.tla")

    def cfg(R, W, P, broken):
        return ("SPECIFICATION Spec\nCONSTANTS R = %d\nW = %d\nPasses = %d\nBROKEN_RELEASE = %s\nPROPERTY Refines\nINVARIANT MutexFine\n"
                % (R, W, P, "TRUE" if broken else "FALSE"))
    for (R, W, P) in ([(2, 2, 1), (2, 1, 2)] if tier == "quick" else [(2, 2, 1), (2, 2, 2), (3, 2, 1)]):
        res = tlc.require_ok(tlc.run(fine, cfg(R, W, P, False), os.path.join(wd, "fine_%d%d%d" % (R, W, P)), workers=NPROC, timeout=2400, deadlock=True),
                             "RWLockFine %dR+%dW x %d" % (R, W, P))
        rep.add_mc("RWLockFine %dR+%dW x %d: statement-level model REFINES the lock-operation model RWLock (and Mutex)" % (R, W, P), res,
                   {"R": R, "W": W, "Passes": P})
    bad = tlc.run(fine, cfg(2, 2, 1, True), os.path.join(wd, "fine_bad"), workers=4, timeout=600, deadlock=True)
    if bad.ok or not any("Action property" in e or "violated" in e for e in bad.errors):
        raise MachineryError("self-test: BROKEN_RELEASE variant of RWLockFine was not refuted")
    rep.cov["parts"].setdefault("selftests_fine", []).append("RWLockFine with the counter test after the mutex release does not refine RWLock (TLC refutes)")


def _inductive(rep, tier, wd):
    """Unbounded in steps and passes: an inductive invariant of the lock model (spec/RWLockInd.tla, RWLockInd.md) checked with
    Apalache - Init => IndInv, IndInv /\\ Next => IndInv', IndInv => Mutex /\\ ReleaseHeld /\\ NoDeadlock /\\ CountersOK - for fixed
    numbers of readers and writers; TLC binds the Apalache-typed restatement to RWLock.tla; broken variants must be refuted."""
    from .. import apalache
    import shutil
    if os.environ.get("VERIF_ENVPASS"):
        return                                  # (a statement about the model: nothing to repeat in the second interpreter mode)
    if not shutil.which("apalache-mc"):
        rep.cov["parts"]["RWLockInd (Apalache)"] = "apalache-mc not installed: skipped"
        return
    insts = [(2, 2, True)] if tier == "quick" else [(2, 2, True), (3, 3, False), (4, 4, False)]
    for R, W, binding in insts:
        res = apalache.check_rwlock_inductive(os.path.join(wd, "apalache_%d%d" % (R, W)), R, W, timeout=900, binding=binding)
        if not res.get("refuted_selftest") and not rep.violations:
            raise MachineryError("Apalache self-test: a broken lock variant was not refuted (R=%d W=%d)" % (R, W))
        rep.cov["parts"]["RWLockInd (Apalache) R=%d W=%d" % (R, W)] = {
            "kind": "inductive invariant (any number of steps and passes) + TLC binding of the restatement" if binding else "inductive invariant (any number of steps and passes)",
            "ok": res["ok"], "steps": [{k: v for k, v in st.items() if k in ("name", "rc", "seconds", "outcome", "states")} for st in res["steps"]]}
        if not res["ok"]:
            bad = [st for st in res["steps"] if st.get("outcome") not in (None, "NoError") and not st["name"].startswith("selftest")]
            rep.violation("C20:rwlock-inductive-%s" % (bad[0]["name"] if bad else "step"),
                          "the inductive invariant of the lock model is refuted by Apalache (R=%d W=%d)" % (R, W), {"steps": res["steps"]})
    # the lazy-table model: one run covers every table length 1..K and both lock variants (N and LOCKED are symbolic constants)
    K = 32 if tier == "quick" else 128
    lt = apalache.check_lazytable_inductive(os.path.join(wd, "apalache_lt"), K, timeout=900, binding=(tier != "quick"))
    if not lt.get("refuted_selftest") and not rep.violations:
        raise MachineryError("Apalache self-test: a deviating LazyTable variant was not refuted")
    rep.cov["parts"]["LazyTableInd (Apalache) N<=%d" % K] = {
        "kind": "inductive invariant of the lazy-table model for every table length up to K (any number of steps, readers and interruptions)",
        "ok": lt["ok"], "steps": [{k: v for k, v in st.items() if k in ("name", "rc", "seconds", "cpu_s", "outcome", "states")} for st in lt["steps"]]}
    if not lt["ok"]:
        bad = [st for st in lt["steps"] if st.get("outcome") not in (None, "NoError") and not st["name"].startswith("selftest")]
        rep.violation("C20:lazytable-inductive-%s" % (bad[0]["name"] if bad else "step"),
                      "the inductive invariant of the lazy-table model is refuted by Apalache (N <= %d)" % K, {"steps": lt["steps"]})


def run(tier):
    rep = Report("C20", tier)
    with Scratch("c20") as wd:
        J = _all_tlc_runs(tier, wd)
        edges = _rwlock_part(rep, tier, wd, J)
        nev = _lazy_part(rep, tier, wd, J)
        _fine_refinement(rep, tier, wd)
        _inductive(rep, tier, wd)
    rep.cov["exhaustive"] = True
    rep.cov["explanation"] = ("RWLock: complete state graphs of the bounded instances, every edge replayed on the real lock (%d edges); "
                              "lazy table / rescaling / table of a Jacobian-form generator: thread A stopped at the lines (tiny curve and scale(): "
                              "also byte codes) of _maybe_precompute()/scale() AND of every library function they call%s, %d points"
                              % (edges, " (NIST256p: callees and byte codes too)" if tier == "thorough" else
                                 " (NIST256p table: every line of _maybe_precompute itself, lines inside callees sampled)", nev))
    rep.assumptions += [
        "threading.Lock: acquire blocks while held, release by any thread frees it; each controlled lock wraps a real lock that must agree",
        "CPython switches threads only between byte codes (GIL); NIST256p table: line-level pre-emption (callee lines sampled) in the quick tier, all callee lines and byte-code level in the thorough tier",
        "thread A is pre-empted inside _maybe_precompute()/scale() and everything below them in the ecdsa package; pre-emption of A inside other entry points (x(), y(), __eq__, mul_add) is not enumerated",
        "pre-emption inside the lock code only at lock calls: the light-switch counters are accessed only while the switch mutex is held (checked: counter values are compared after every step)",
        "model, unbounded in steps and passes: inductive invariant checked by Apalache for 2+2 (quick) and 3+3, 4+4 (thorough) readers + writers",
        "bounded instances: up to 3 readers + 2 writers x 2 passes / 3+3 x 1 (model); walk on the real lock: 2+2 x 1 and 2+1 x 2 (quick), also 2+2 x 2, 3+2 x 1, 2+3 x 1, 3+3 x 1 (thorough)",
        "thread B's operations are complete (not themselves pre-empted); two concurrent builders are covered only as 'B builds its own table while A is stopped'",
    ]
    return rep


def replay(path):
    """bin/check C20 --replay <file>: re-run one reported schedule / pre-emption point on the real code"""
    import json, re
    d = json.load(open(path))
    data = d.get("data") or {}
    if "schedule" in data and "instance" in data:
        R, W, P = data["instance"]
        real = sched.RealRW(_real_rwmod(), R, W, P)
        try:
            for lab in data["schedule"]:
                real.step(int(re.match(r"\w+\((\d+)\)", lab).group(1)))
            got = json.loads(json.dumps(sched.describe(real.project()), default=list))
        finally:
            real.close(abandon=True)
        print("schedule:", " ".join(data["schedule"]))
        print("expected:", data["expected"])
        print("real    :", got)
        same = got == json.loads(json.dumps(data["expected"], default=list))
        print("REPRODUCED" if not same else "not reproduced (real state equals the expected state now)")
        return 0 if same else 1
    if "_schedule" in data and "nr" in data:
        run = blackbox.BlackRW(_real_rwmod().__file__, data["nr"], data["nw"], 1)
        try:
            trace = []
            for t in data["_schedule"]:
                if isinstance(t, int):
                    run.step(t)
                    trace.append((t, run.holders()))
            st = run.status()
        finally:
            run.close()
        print("schedule:", data["_schedule"])
        print("holders (readers, writers) after each step:", trace[-6:])
        print("state after it:", st)
        bad = st[0] in ("deadlock", "exception") or any(len(w) > 1 or (w and r) for _, (r, w) in trace)
        print("REPRODUCED" if bad else "not reproduced")
        return 1 if bad else 0
    if "idx" in data and "_curve" in data:
        op, deep = data["_gran"] == "opcode", bool(data.get("_deep"))
        K = _count_events(data["_curve"], data["mode"], op, deep)
        e = _point({"name": data["_curve"], "mode": data["mode"], "kind": data.get("_kind", "pt"), "opcode": op, "deep": deep, "full": True,
                    "idx": data["idx"], "grp": "replay", "tid": 1, "K": K, "g": "replay"})
        print(json.dumps(e, indent=1, default=str))
        bad = e["blocked"] == 2 or e["res_bad"] or e["f_res_bad"] or not (e["pub_ok"] and e["co_ok"] and e["b_ok"] and e["b_co_ok"] and e["f_ok"] and e["f_co_ok"]) \
            or e["pub_len"] not in (0, e["n"])
        print("REPRODUCED" if bad else "not reproduced")
        return 1 if bad else 0
    print("nothing to replay in", path)
    return 2
