"""Shared pieces of the BEC2 checks (C02 C03 C06 C07 C08 C09)."""
import os, itertools

from ..common import SPEC, MachineryError, B
from .. import tlc, bf3lib as L, bec2lib as B2, bec2gen as G

from bec2format import Bec2File

TCFG = ("INIT Init\nNEXT Next\nCONSTANTS SHORT_READ_OK = FALSE\nENC_NEVER_DECRYPTS = FALSE\n"
        "DEC_STRIPS_ZEROS = FALSE\nECC_FALLBACK_SEL0 = %s\n")


def validate(events, wd, name="tr", fallback_sel0=False, timeout=1500):
    return tlc.validate_trace(os.path.join(SPEC, "Trace_Bec2.tla"), TCFG % ("TRUE" if fallback_sel0 else "FALSE"), events,
                              os.path.join(wd, name), shards=16, timeout=timeout)


def report_rejections(rep, pid, rec, rej, canaries):
    ids = {x[1]: x for x in rej}
    missing = [c for c in canaries if c not in ids]
    byid = {e["tid"]: e for e in rec.events}
    for tid, x in ids.items():
        if tid in canaries:
            continue
        e = byid[tid]
        slim = {k: (v if not isinstance(v, list) or len(v) < 400 else v[:400]) for k, v in e.items()}
        rep.violation("%s:%s:%s" % (pid, e["op"], x[2].split(":")[0]), "%s event rejected by the specification: %s" % (e["op"], x[2]), slim)
    # canaries are copies of REAL events with one field corrupted; if the real code misbehaves the copy may be meaningless,
    # so a missing canary rejection is a machinery failure only when the run is otherwise clean
    if missing and not rep.violations:
        raise MachineryError("binding self-test: corrupted event(s) %r accepted by the trace spec" % missing)


ORDERINGS = [list(p) for n in (1, 2, 3) for p in itertools.permutations(["cust", "ecc", "update"], n)]


def enc_specs(plan):
    # (in the order of plan.encs_w: encryptors for other selectors come before the matching one)
    return list(getattr(plan, "extra_encs", [])) + [{"sel": m["sel"], "pub": m["pub_der"]} for m in plan.meta if m["tag"] == 3 and m.get("explicit")]


def write_plan(rec, seams, orc, r, plan, content=None):
    f = Bec2File(content if content is not None else G.gen_content(r), plan.blocks, plan.key)
    text, ev = G.rec_bec2_write(rec, seams, orc, f, plan.meta, plan.encs_w, enc_specs(plan))
    return f, text, ev


def dec_subsets(plan):
    ks = [k for k in ("cust", "ecc", "update") if k in plan.decs]
    for n in range(1, len(ks) + 1):
        for sub in itertools.combinations(ks, n):
            # decryptors for other selectors (if the plan has any) in front of the matching ECC decryptor
            yield [d for k in sub for d in ((list(getattr(plan, "extra_decs", [])) if k == "ecc" else []) + [plan.decs[k]])]
