"""C02: BEC2 write-then-read for every key and block combination.
C->S: every ordered non-empty subset of block kinds x session-key classes (generic, ending in 00 / 00 00,
keys/versions whose wrapped payload has CRC low / high / both bytes 0x00) x every decryptor subset able to open
a block; TLC validates the written header (every block unwraps to the session key with AES.tla / the OpenSSL
ECIES key) and that the read-back equals ReadBec2 of the specification and the authentic content.
MC: the abstract BEC2 model (MC_Bec2) exhausts block subsets x decryptor subsets x key classes."""
import os, io

from ..common import SPEC, Scratch, rng, MachineryError, B
from ..report import Report
from .. import tlc, bf3lib as L, bec2lib as B2, bec2gen as G, errpaths as E
from ..oracle_openssl import Oracle
from . import bec2common as C
from .mc_bec2 import run_mc_bec2

from bec2format.bec2file import crc8404B


def crc_class_plan(r, rcpts, want, which):
    """A plan whose cust (zeros10+key) or update (key+version) payload has the wanted CRC class."""
    for _ in range(4000000):
        key = bytes(r.randrange(256) for _ in range(16))
        if which == "cust":
            c = crc8404B(bytes(10) + key)
            ver = None
        else:
            ver = r.randrange(256)
            c = crc8404B(key + bytes([ver]))
        if (want == "lo" and c & 255 == 0) or (want == "hi" and c >> 8 == 0) or (want == "both" and c == 0):
            p = G.Plan(r, rcpts, [which])
            p.key = key
            if which == "cust":            # no customer key: the wrapped payload must stay zeros10+key
                p2 = B2.dec_cust(bytes(p.meta[0]["wkey"]))
                p.encs_w, p.decs["cust"], p.meta[0]["ck"] = [p2[0]], p2, []
            else:
                from bec2format.bec2file import UpdateAuthBlock
                code = bytes(p.meta[0]["code"])
                p.blocks = [UpdateAuthBlock(code, ver)]
                p.meta[0]["version"] = ver
            return p
    return None


def run(tier):
    rep = Report("C02", tier)
    r = rng("c02")
    with Scratch("c02") as wd, B2.Seams() as seams:
        run_mc_bec2(rep, wd, tier, ["ReadRecovers"], selftest=("ReadRecovers", "ADAPTER_STRIPS"))
        orc = Oracle(wd)
        rcpts = G.Recipients(orc, r, 2 if tier == "quick" else 6)
        rec = L.Rec()
        classes = ["generic", "z1", "z2", "z15", "default-object", "zero"]
        nfiles = 0
        rounds = 3 if tier == "quick" else 6
        for rnd in range(rounds):
            for kinds in C.ORDERINGS:
                for kc in (classes if tier == "thorough" else [classes[(rnd + len(kinds)) % len(classes)], r.choice(classes)]):
                    plan = G.Plan(r, rcpts, kinds, key_cls=kc, explicit_key=True)
                    f, text, _ = C.write_plan(rec, seams, orc, r, plan)
                    nfiles += 1
                    auth = B2.proj_bec2(f)
                    subsets = list(C.dec_subsets(plan))
                    if tier == "quick" and len(subsets) > 2:
                        subsets = [subsets[-1]] + r.sample(subsets[:-1], 1)
                    for decs in subsets:
                        B2.rec_bec2_read(rec, text, decs, plan.ecc_privs, orc, True, auth=auth)
                    if text and subsets:
                        # another legal text layout of the same file; MAC checking off
                        B2.rec_bec2_read(rec, L.reformat(r, text), subsets[-1], plan.ecc_privs, orc, nfiles % 2 == 0, auth=auth)
        ncrc = 0
        for want in ("lo", "hi") + (("both",) if tier == "thorough" else ()):
            for which in ("cust", "update"):
                plan = crc_class_plan(r, rcpts, want, which)
                if plan is None:
                    raise MachineryError("no key found for CRC class %s/%s" % (want, which))
                f, text, _ = C.write_plan(rec, seams, orc, r, plan)
                B2.rec_bec2_read(rec, text, list(plan.decs.values()), plan.ecc_privs, orc, True, auth=B2.proj_bec2(f))
                ncrc += 1
        # no session key supplied: a random one is drawn and must come back
        for kinds in (["cust"], ["update", "ecc"]):
            plan = G.Plan(r, rcpts, kinds, explicit_key=False)
            f, text, _ = C.write_plan(rec, seams, orc, r, plan)
            B2.rec_bec2_read(rec, text, list(plan.decs.values()), plan.ecc_privs, orc, True, auth=B2.proj_bec2(f))
        # error-path histories: refused write then correct write of the same object; reads without a usable decryptor
        # (MAC checking on and off); three-block headers whose outer blocks disagree
        E.bec2_error_paths(rec, seams, orc, r, rcpts, C, 6 if tier == "quick" else 40)
        # the documented example flows (appnotes/create_bec2file_with_*.py) run as they are; the objects they leave behind are
        # written and read back through the recorders: derive_auth_blocks_from_config + derive_comments + set_config + write
        import runpy, contextlib
        from ..common import REPO
        from bec2format.bec2file import InitCustKeyAuthBlock as _IC, UpdateAuthBlock as _UP, InitEccAuthBlock as _IE
        napp = 0
        for script in ("create_bec2file_with_cust_key.py", "create_bec2file_with_ec_key.py"):
            try:
                with contextlib.redirect_stdout(io.StringIO()):
                    ns = runpy.run_path(os.path.join(REPO, "appnotes", script))
            except Exception as e:                               # noqa: BLE001 -- the shipped example itself fails
                rep.violation("C02:appnote-flow-raised:" + script, "the documented example %s raised %s: %s" % (script, type(e).__name__, e), {"script": script, "exc": L.exc_info(e)})
                seams.take()
                continue
            seams.take()
            bec = ns["bec2"]
            metas = []
            for b in bec.auth_blocks.values():
                if isinstance(b, _IC):
                    metas.append({"tag": 1, "wkey": B(bytes([0x12, 0x34] * 8)), "ck": [], "pos": 0})
                elif isinstance(b, _UP):
                    metas.append({"tag": 2, "wkey": B(B2.code_key(b.config_security_code)), "code": B(b.config_security_code), "version": b.version})
                elif isinstance(b, _IE):
                    metas.append({"tag": 3, "sel": b.key_selector, "explicit": False})
            encs = ns.get("encryptors", [])
            text, ev = G.rec_bec2_write(rec, seams, orc, bec, metas, list(encs), [])
            if "encryptors" in ns:
                decs = [B2.dec_cust(bytes([0x12, 0x34] * 8)), B2.dec_code(ns["config_security_code"])]
                B2.rec_bec2_read(rec, text, decs, {}, orc, True, auth=B2.proj_bec2(bec), label="appnote")
                B2.rec_bec2_read(rec, text, decs[1:], {}, orc, True, auth=B2.proj_bec2(bec), label="appnote")
            napp += 1
        # binding self-test: a read event whose recorded session key is altered must be rejected
        last_read = [e for e in rec.events if e["op"] == "bec2.read" and e["kind"] == "ok"][-1]
        can = dict(last_read)
        can["key"] = list(can["key"])
        can["key"][0] ^= 1
        can["has_auth"] = 0
        rec.add(can)
        rej, st = C.validate(rec.events, wd)
        C.report_rejections(rep, "C02", rec, rej, {can["tid"]})
        rep.add_trace("Trace_Bec2: bec2.write / bec2.read of the real code over block orderings x key classes x decryptor subsets",
                      st, len(rec.events) - 1, extra={"files": nfiles, "crc_class_files": ncrc})
        rep.cov["oracle_relation_events"] += sum(1 for e in rec.events if e["op"] == "bec2.write" and any(b["tag"] == 3 for b in e["blocks"]))
        e0 = rec.events[0]
        rep.sample({"op": e0["op"], "key": e0["key"], "blocks": [{k: v for k, v in b.items() if k in ("tag", "sel", "version")} for b in e0["blocks"]],
                    "text_len": len(e0["text"])})
    rep.assumptions += ["AES.tla, CRC16.tla", "ECDH x-coordinate from OpenSSL, SHA-256 from hashlib (oracle relation for ECC blocks)"]
    return rep
