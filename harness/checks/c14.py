"""C14: parsers fail only with format errors and always terminate.
MC (MC_Parsers): the reader specification is total over ARBITRARY cell strings (all strings up to a length over an alphabet
    with integers, huge values, MAC tokens and garbage; and arbitrary continuations of every prefix of valid files): the
    outcome is Accept or a named rejection clause whose library exception class is a format error or ValueError.
C->S: a seeded fuzz corpus (character/byte mutations, deletions, duplications, line reorderings of valid BF3/BEC2/BF2 files,
    crafted near-valid files aimed at the unguarded sites, random text) through every parsing entry point with decryptor sets
    none / public-only / private / wrong key; each call is recorded (outcome, exception class + MRO, raising site, time limit,
    identity of the crypto registry before/after) and TLC judges: allowed exception class, no hang, global state unchanged,
    and for BF3/BEC2 the accept/reject verdict of the concrete specification on the same bytes."""
import io, os, signal, time, traceback, multiprocessing as mp

from ..common import SPEC, Scratch, rng, MachineryError, B, REPO
from ..report import Report
from .. import tlc, bf3lib as L, bec2lib as B2, bec2gen as G, bf2lib
from ..oracle_openssl import Oracle
from . import bf3common as C3, bec2common as C

from bec2format import Bf3File, Bec2File, ConfigId, EccEncryptor
from bec2format.bf3file import pfid2_filter_to_str, cmac, BF3_FILE_SIG
from bec2format.bec2file import BEC2_FILE_SIG

TIME_LIMIT = 20


class _Timeout(BaseException):
    pass


def _alarm(signum, frame):
    raise _Timeout()


def site_of(e):
    tb = traceback.extract_tb(e.__traceback__)
    fr = [f for f in tb if f.filename.startswith(REPO)]
    f = (fr or tb)[-1]
    return "%s.%s" % (os.path.basename(f.filename).replace(".py", ""), f.name)


def call(rec, entry, fn, **extra):
    before = B2.registry_snapshot()
    ev = {"op": "c14.call", "entry": entry, "kind": "ok", "mro": [], "cls": "", "site": "", "timeout": 0, "reg_same": 1}
    signal.signal(signal.SIGALRM, _alarm)
    signal.alarm(TIME_LIMIT)
    try:
        fn()
    except _Timeout:
        ev["timeout"] = 1
    except BaseException as e:                          # noqa: BLE001
        if isinstance(e, (KeyboardInterrupt, SystemExit)):
            raise
        ev.update(kind="raise", cls=type(e).__name__, mro=[k.__name__ for k in type(e).__mro__], site=site_of(e), msg=str(e)[:120])
    finally:
        signal.alarm(0)
    ev["reg_same"] = 1 if B2.registry_snapshot() == before else 0
    ev.update(extra)
    return rec.add(ev)


def mutate(r, text):
    t = text
    for _ in range(r.choice([1, 1, 2, 3])):
        k = r.random()
        if not t:
            return r.choice(["", "\n", "x", ":\n\n00"])
        if k < 0.3:                                               # character replacement
            i = r.randrange(len(t))
            t = t[:i] + r.choice("0123456789ABCDEFabcdefgXZ :,-./=#>*\t\r\n _") + t[i + 1:]
        elif k < 0.45:                                            # deletion
            i = r.randrange(len(t))
            t = t[:i] + t[i + r.choice([1, 1, 2, 7, 40]):]
        elif k < 0.55:                                            # duplication
            i = r.randrange(len(t))
            n = r.choice([1, 2, 10, 80])
            t = t[:i] + t[i:i + n] + t[i:]
        elif k < 0.7:                                             # line reordering / duplication
            ls = t.split("\n")
            if len(ls) > 2:
                a, b = r.randrange(len(ls)), r.randrange(len(ls))
                if r.random() < 0.5:
                    ls[a], ls[b] = ls[b], ls[a]
                else:
                    ls.insert(a, ls[b])
            t = "\n".join(ls)
        elif k < 0.85:                                            # truncation
            t = t[:r.randrange(len(t))]
        else:                                                     # insertion of junk
            i = r.randrange(len(t))
            t = t[:i] + "".join(r.choice("0F\n:# >=,") for _ in range(r.choice([1, 2, 8]))) + t[i:]
    return t


def hex_text(binary, comments=None):
    s = io.StringIO()
    Bf3File.write_bf3_format(s, comments or {}, bytes(binary))
    return s.getvalue()


def crafted_bf3(r, big=True):
    """near-valid binaries aimed at the sites the property names (MACs recomputed with the library's cmac to craft inputs only)"""
    out = []
    key = L.ZERO_KEY

    def entry(adr, total, plen, pmac, tlv, idx):
        body = adr.to_bytes(4, "big") + total.to_bytes(4, "big") + plen.to_bytes(4, "big") + pmac + bytes([len(tlv)]) + tlv
        return body + cmac(body, key, idx.to_bytes(16, "big"))
    # stored length 0 with valid entry MAC: the payload MAC of an empty payload
    e = entry(5 + 4 + 1 + 45 + 1, 0, 0, bytes(16), b"", 1)
    d = bytes([len(e)]) + e + b"\x00"
    out.append(("stored-length-0", BF3_FILE_SIG + len(d).to_bytes(4, "big") + d))
    # session-key encrypted component whose stored length is not a multiple of 16
    pay = bytes(range(1, 9))
    tlv = bytes([0xC2, 1, 2])
    e = entry(5 + 4 + 1 + 48 + 1, 8, 8, cmac(pay, key), tlv, 1)
    d = bytes([len(e)]) + e + b"\x00"
    out.append(("enc-length-8", BF3_FILE_SIG + len(d).to_bytes(4, "big") + d + pay))
    # directories with 255, 256, 257 and 300 entries (assembled here; entry MACs chained from the 1-based index as a 128-bit number):
    # the genuine file, and the file whose LAST entry was MAC'd with the index reduced modulo 256
    for n in ((255, 256, 257, 300) if big else ()):
        for wrap in (False, True):
            dirlen = 4 + n * (1 + 45) + 1
            ents, pays = [], b""
            for j in range(1, n + 1):
                pay = bytes([j % 255 + 1])
                idx = (j % 256) if (wrap and j == n) else j
                e = entry(5 + dirlen + len(pays), 1, 1, cmac(pay, key), b"", idx)
                ents.append(bytes([len(e)]) + e)
                pays += pay
            d = b"".join(ents) + b"\x00"
            out.append(("entries-%d%s" % (n, "-last-index-mod-256" if wrap else ""), BF3_FILE_SIG + len(d).to_bytes(4, "big") + d + pays))
    # huge length fields
    for field in ("dirsize", "total"):
        f = L.Bf3File({}, [L.mk_comp({}, b"\x01\x02\x03")])
        b = bytearray(BF3_FILE_SIG + f.to_binary(5, key))
        pos = 5 if field == "dirsize" else 14
        b[pos:pos + 4] = b"\xff\xff\xff\xff"
        out.append(("huge-" + field, bytes(b)))
    return out


def crafted_bec2(r, body_of):
    out = []
    for name, hdr in (("ecc-empty", bytes([3, 0])), ("ecc-one-byte", bytes([3, 1, 0])), ("cust-15", bytes([1, 15]) + bytes(15)),
                      ("cust-0", bytes([1, 0])), ("update-16", bytes([2, 16]) + bytes(16)), ("update-0", bytes([2, 0])),
                      ("ecc-short", bytes([3, 40]) + bytes([0, 4]) + bytes(38)), ("tag0-len1", bytes([0, 1, 9])),
                      ("no-terminator", bytes([9, 2, 1, 2]))):
        h = BEC2_FILE_SIG + hdr + (b"" if name == "no-terminator" else b"\x00\x00")
        out.append((name, h + body_of(len(h))))
    return out


PROBE_BF2 = [
    "##Bf3Update: 1\n" + ":0000FE00\n:0000%02X0403000011\n:0000FF00\n" % t for t in (0x35, 0x39, 0x3D, 0x40)
] + ["##Bf3Update: 1\n#>SELECT_IF PROTOCOL=BRP\n:0000FE00\n:0000%02X0403000011\n:0000FF00\n" % t for t in (0x70, 0x83)] + [
    "##Bf3Update: 1\n:0000FE00\n:0000840403000011\n:0000FF00\n"]


def behaviour_probe():
    """Results of a fixed set of calls with fixed valid inputs.  Taken before and after the corpus: identical inputs must give
    identical results whatever ran in between (library-global state unchanged, judged by behaviour, so that a harmless
    internal cache is not an alarm but a cache that changes results is)."""
    out = []
    for t in PROBE_BF2:
        try:
            f = Bf3File.bf2_import(io.StringIO(t))
            out.append(("bf2", sorted(f.comments.items()), [(sorted((k, bytes(v)) for k, v in c.description.items()), bytes(c.blob)) for c in f.components]))
        except Exception as e:                               # noqa: BLE001
            out.append(("bf2-raise", type(e).__name__, str(e)))
    for filt in (b"\x01\x01\x00\x9B", b"\x01\x01\x12\x34", b"\x01\x02\x80\x9B\x00\xAD"):
        try:
            out.append(("pfid2", pfid2_filter_to_str(filt)))
        except Exception as e:                               # noqa: BLE001
            out.append(("pfid2-raise", type(e).__name__))
    for t in ("12345-0001-0002-03 name", "name (version 05)", "00001-9999-0000-07"):
        try:
            i = ConfigId.create_from_str(t)
            out.append(("cfgid", i.customer, i.project, i.device, i.version, i.name, str(i)))
        except Exception as e:                               # noqa: BLE001
            out.append(("cfgid-raise", type(e).__name__))
    f = Bf3File({}, [L.mk_comp({1: b"a"}, b"\x01\x02\x03")])
    f.set_config({(0x0620, 0x06): b"n", (0x0620, 0x07): b"\x01", (0x1234, 0x01): b"xyz"})
    b = f.to_binary(5, bytes(range(16)))
    out.append(("bf3", bytes(b)))
    g = Bf3File.read_file(io.StringIO(hex_text(BF3_FILE_SIG + b)), True, bytes(range(16)))
    out.append(("bf3-read", [(sorted(c.description.items()), bytes(c.blob), c.actual_len) for c in g.components]))
    return out


def _worker(args):
    seed, n, tier, widx = args
    import random
    r = random.Random(seed)
    rec = L.Rec()
    probe0 = behaviour_probe()
    with Scratch("c14w") as wd, B2.Seams() as seams:
        orc = Oracle(wd)
        rcpts = G.Recipients(orc, r, 0)
        # ---- valid seeds
        bf3_texts = []
        for _ in range(4):
            f = L.gen_bf3(r, 2)
            key = L.gen_key(r)
            try:
                bf3_texts.append((L.write_text(f, key, False, wd), key))
            except OverflowError:
                pass
        bec2 = []
        for kinds in (["cust", "update"], ["ecc"], ["update", "ecc", "cust"], ["ecc", "unknown"]):
            plan = G.Plan(r, rcpts, kinds, explicit_key=True)
            f = Bec2File(G.gen_content(r), plan.blocks, plan.key)
            s = io.StringIO()
            f.write_file(s, plan.encs_w)
            bec2.append((s.getvalue(), plan))
        bf2_texts = []
        for _ in range(4):
            items, Ls, enforce = bf2lib.gen_file(r, small=True)
            bf2_texts.append(bf2lib.print_text(items, Ls, r))
        seams.take()

        def dec_sets(plan):
            sets = {"none": ([], {}), "private": (list(plan.decs.values()), plan.ecc_privs)}
            wrong = [B2.dec_cust(bytes(16)), B2.dec_code(b"12345678"), B2.dec_ecc(0, rcpts.pairs[0][0]), B2.dec_ecc(1, rcpts.pairs[1][0]),
                     B2.dec_ecc(2, rcpts.pairs[2][0]), B2.dec_ecc(3, rcpts.pairs[3][0])]
            sets["wrong"] = (wrong, {i: rcpts.pairs[i][0] for i in range(4)})
            sets["public-only"] = ([(EccEncryptor(s), {"kind": "ecc", "key": [], "ck": [], "pos": 0, "code": [], "sel": s, "priv": 0}) for s in range(4)], {})
            return sets

        def do_bf3(text, key, label):
            chk = r.random() < 0.85
            call(rec, "Bf3File.read_file", lambda: Bf3File.read_file(io.StringIO(text), chk, key), label=label)
            L.rec_read(rec, text, key, chk, False, wd, label=label)

        def do_bec2(text, plan, which, label, chk=None):
            decs, privs = dec_sets(plan)[which]
            if chk is None:
                chk = r.random() < 0.75
            # the decryptors in every legal form of Iterable[Encryptor]; MAC checking on and off
            form = r.choice([list, tuple, iter, lambda x: (y for y in x)])
            call(rec, "Bec2File.read_file[%s]" % which, lambda: Bec2File.read_file(io.StringIO(text), form([d[0] for d in decs]), chk), label=label)
            B2.rec_bec2_read(rec, text, decs, privs, orc, chk, label=label)

        # ---- crafted inputs (every worker runs them once: cheap)
        for name, b in crafted_bf3(r, big=(widx in (0, 1))):        # (the large directories in two workers only)
            do_bf3(hex_text(b), L.ZERO_KEY, "crafted:" + name)
        plan0 = bec2[0][1]
        body = Bf3File({}, [L.mk_comp({}, b"\x01")])
        for name, b in crafted_bec2(r, lambda off: body.to_binary(off, plan0.key)):
            for which in ("none", "private", "wrong", "public-only"):
                do_bec2(hex_text(b), plan0, which, "crafted:" + name)
        # ECC blocks and decryptors for key selectors OUTSIDE the four published slots (the constructors accept any byte): valid,
        # truncated and damaged files read with the matching decryptor, a non-matching one and none
        from bec2format.bec2file import InitEccAuthBlock as _IEB
        for sel in (4, 7, 200, 255):
            priv_, pub_ = rcpts.pick(r)
            try:
                # (InitEccAuthBlock(sel).pack builds the published-key fallback for `sel` eagerly and fails for sel > 3: the block is
                #  assembled from its parts - selector byte + the encryptor's output)
                rawb = bytes([sel]) + B2.enc_ecc_pub(sel, pub_)[0].encrypt(plan0.key)
            except Exception:                                  # noqa: BLE001 -- the encryptor refuses such a selector: nothing to read
                continue
            seams.take()
            h = BEC2_FILE_SIG + bytes([3, len(rawb)]) + rawb + b"\x00\x00"
            full = h + body.to_binary(len(h), plan0.key)
            for variant, bb in (("valid", full), ("cut", full[:len(h) - 9]), ("damaged", full[:20] + bytes([full[20] ^ 1]) + full[21:])):
                for decs_, privs_ in (([B2.dec_ecc(sel, priv_)], {sel: priv_}), ([B2.dec_ecc((sel + 1) % 256, priv_)], {}), ([], {})):
                    t_ = hex_text(bb)
                    call(rec, "Bec2File.read_file[selector-%d]" % sel, lambda: Bec2File.read_file(io.StringIO(t_), [d[0] for d in decs_]), label="crafted:odd-selector-" + variant)
                    B2.rec_bec2_read(rec, t_, decs_, privs_, orc, True, label="crafted:odd-selector-" + variant)
        # well-formed containers (right key, valid CRC) around contents of unexpected length: only a key holder can make them
        for kind, tag in (("update", 2), ("cust", 1)):
            enc = plan0.decs[kind][0]
            for ln in (0, 1, 9, 15, 16, 17, 18, 25, 26, 27, 40):
                try:
                    raw = enc.encrypt(bytes(r.randrange(256) for _ in range(ln)))
                except Exception:                        # noqa: BLE001 -- e.g. customer-key slot beyond a short payload
                    continue
                h = BEC2_FILE_SIG + bytes([tag, len(raw)]) + raw + b"\x00\x00"
                for which in ("private", "none"):
                    do_bec2(hex_text(h + body.to_binary(len(h), plan0.key)), plan0, which, "crafted:valid-frame-%s-%d" % (kind, ln))
        for t, plan in bec2:
            for which in ("none", "private", "wrong", "public-only"):
                for chk in (True, False):
                    do_bec2(t, plan, which, "valid", chk)
        # every mapped base tag type: a three-line section whose SECOND line carries another tag type (a sample of all 256 values
        # per worker, the neighbours of the base type always): converts, or is refused with a format error
        for bt in bf2lib.MAPPED + bf2lib.IGNORED:
            for ty in sorted(set(r.sample(range(256), 40)) | {0, bt - 1, bt + 1, bt + bf2lib.PAGES[bt], 0xFD}):
                if ty in (0xFE, 0xFF) or ty == bt:
                    continue
                Lb = bf2lib.Lines()
                try:
                    items = [bf2lib.cmt("Bf3Update", "1"), bf2lib.item("grp", runs=bf2lib.to_runs(Lb, [(bt, 0, 3), (ty, 3, 4), (bt, 7, 2)]))]
                    t = bf2lib.print_text(items, Lb, r)
                except Exception:                               # noqa: BLE001 -- the driver cannot print this layout
                    continue
                call(rec, "Bf3File.bf2_import", lambda t=t: Bf3File.bf2_import(io.StringIO(t), ty % 2 == 0), label="crafted:second-line-type")
        # grammar-level confusions: every instruction name used as a header comment and vice versa, in front of a data section
        data = ":0000FE00\n:0000350403000011\n:0000FF00\n"
        # ("load" is the name the parser uses internally for a group of data lines)
        for nm in ("SELECT", "SELECT_IF", "CHECK_FWVER", "CRC", "REBOOT", "Firmware", "Creator", "Bf3Update", "load", "LOAD", "FOO", ""):
            for form in ("##%s: x\n", "#>%s\n", "#>%s a=b\n", "#>%s FILTER=zz,PROTOCOL=q,VERSIONDESC=1\n", "##%s: 0x\n"):
                t = "##Bf3Update: 1\n" + (form % nm) + data
                call(rec, "Bf3File.bf2_import", lambda t=t: Bf3File.bf2_import(io.StringIO(t)), label="crafted:confuse-" + nm)
        for label, t in (("reboot-first", "##Bf3Update: 1\n#>REBOOT\n"), ("checkfwver-twice", "#>CHECK_FWVER VERSIONDESC=*\n#>CHECK_FWVER VERSIONDESC=*\n"),
                         ("empty", ""), ("only-marker", ":0000FE00\n:0000FF00\n"), ("bad-instr", "#>SELECT\n"), ("cmt-no-colon", "##abc\n"),
                         ("instr-load", "#>load\n"), ("cmt-load", "##load: x\n"), ("instr-load-params", "#>load a=b\n"), ("instr-only", "#>\n"),
                         ("cmt-only", "##\n"), ("cmt-colon-only", "##:\n")):
            call(rec, "Bf3File.bf2_import", lambda t=t: Bf3File.bf2_import(io.StringIO(t)), label="crafted:" + label)
        # ---- fuzz loop
        for j in range(n):
            k = j % 5
            if k == 0:
                t, key = r.choice(bf3_texts)
                do_bf3(mutate(r, t) if r.random() < 0.9 else "".join(chr(r.randrange(32, 127)) for _ in range(r.randrange(0, 200))), key, "fuzz")
            elif k == 1:
                t, plan = r.choice(bec2)
                which = r.choice(["none", "private", "private", "wrong", "public-only"])
                do_bec2(mutate(r, t), plan, which, "fuzz")
            elif k == 2:
                t = mutate(r, r.choice(bf2_texts)) if r.random() < 0.9 else "".join(r.choice(":#>0123456789ABCDEF=,\n R") for _ in range(r.randrange(0, 300)))
                enf = r.random() < 0.7
                call(rec, "Bf3File.bf2_import", lambda: Bf3File.bf2_import(io.StringIO(t), enf), label="fuzz")
            elif k == 3:
                base = r.choice(["12345-0001-0002-03 name", "name (version 05)", "00000-0000-0000-00", "x", ""])
                t = mutate(r, base) if r.random() < 0.8 else "".join(chr(r.choice([r.randrange(32, 127), r.randrange(0x660, 0x66A), 10])) for _ in range(r.randrange(0, 40)))
                call(rec, "ConfigId.create_from_str", lambda: ConfigId.create_from_str(t), label="fuzz")
            else:
                nb = r.choice([0, 1, 2, 4, 6, 8])
                b = bytes([1, r.choice([nb // 2 - 1 if nb >= 2 else 0, r.randrange(6)])]) + bytes(r.randrange(256) for _ in range(nb)) if r.random() < 0.7 \
                    else bytes(r.randrange(256) for _ in range(r.randrange(0, 12)))
                call(rec, "pfid2_filter_to_str", lambda: pfid2_filter_to_str(b), label="fuzz")
    probe1 = behaviour_probe()
    diff = [(a[0], repr(a)[:300], repr(b)[:300]) for a, b in zip(probe0, probe1) if a != b]
    rec.add({"op": "c14.call", "entry": "behaviour-probe(after the corpus)", "kind": "ok", "mro": [], "cls": "", "site": "", "timeout": 0,
             "reg_same": 0 if diff else 1, "label": "probe", "msg": repr(diff)[:900]})
    for e in rec.events:
        e.pop("tid", None)
    return rec.events


def run(tier):
    rep = Report("C14", tier)
    r = rng("c14")
    with Scratch("c14") as wd:
        for ml, sd in (((6, "FALSE"), (3, "TRUE")) if tier == "quick" else ((7, "FALSE"), (4, "TRUE"))):
            res = tlc.require_ok(tlc.run(os.path.join(SPEC, "MC_Parsers.tla"), "INIT Init\nNEXT Next\n" + C3.sw_cfg() + "MaxLen = %d\nSeeded = %s\nINVARIANT Total\n" % (ml, sd),
                                         os.path.join(wd, "mc%d%s" % (ml, sd)), workers=16, timeout=2400), "MC_Parsers")
            rep.add_mc("MC_Parsers: reader total over %s up to %d cells" % ("arbitrary continuations of every prefix of valid files" if sd == "TRUE" else "ALL cell strings", ml),
                       res, {"MaxLen": ml, "Seeded": sd, "alphabet": 9})
        tl = 6 if tier == "quick" else 7
        tres = tlc.require_ok(tlc.run(os.path.join(SPEC, "MC_Text.tla"), 'INIT Init\nNEXT Next\nCONSTANTS Mode = "total"\nMaxBin = 0\nMaxLen = %d\nINVARIANT Total\n' % tl,
                                      os.path.join(wd, "mctext"), workers=16, timeout=1800), "MC_Text/total")
        rep.add_mc("MC_Text: the text-envelope reader is total over ALL character strings up to %d over {hex digits, non-hex letter, ':', blank, LF, CR}" % tl, tres)
        hl = 6 if tier == "quick" else 8
        hres = tlc.require_ok(tlc.run(os.path.join(SPEC, "MC_Bec2Header.tla"), "INIT Init\nNEXT Next\n" + C3.sw_cfg() + "MaxLen = %d\nINVARIANT HeaderTotal\nINVARIANT ReaderTotal\n" % hl,
                                      os.path.join(wd, "mchdr"), workers=16, timeout=2400), "MC_Bec2Header")
        rep.add_mc("MC_Bec2Header: BEC2 header reader and whole reader (without / with decryptors) total over ALL byte strings up to %d after the signature; "
                   "accepted headers re-pack to the bytes read" % hl, hres, {"MaxLen": hl, "alphabet": 6})
        # the reader as an explicit step machine: refines the functional reader, terminates, variant decreases
        for ml, sd in (((4, "FALSE"),) if tier == "quick" else ((5, "FALSE"), (2, "TRUE"))):
            rcfg = ("SPECIFICATION Spec\n" + C3.sw_cfg() + "MaxLen = %d\nSeeded = %s\nINVARIANT Refines\nINVARIANT OutcomeClass\n"
                    "PROPERTY Termination\nPROPERTY Variant\n" % (ml, sd))
            res = tlc.require_ok(tlc.run(os.path.join(SPEC, "Bf3Reader.tla"), rcfg, os.path.join(wd, "rd%d%s" % (ml, sd)), workers=16, timeout=2400), "Bf3Reader")
            rep.add_mc("Bf3Reader step machine (%s, <= %d cells): Refines the functional reader, Termination (liveness under weak fairness), Variant, OutcomeClass"
                       % ("continuations of valid prefixes" if sd == "TRUE" else "all strings", ml), res, {"MaxLen": ml, "Seeded": sd})
        bad = tlc.run(os.path.join(SPEC, "MC_Parsers.tla"), "INIT Init\nNEXT Next\n" + C3.sw_cfg() + "MaxLen = 4\nSeeded = FALSE\nINVARIANT NothingAccepted\n",
                      os.path.join(wd, "st"), workers=4, timeout=300)
        if "NothingAccepted" not in bad.violated:
            raise MachineryError("vacuity self-test: no arbitrary string is accepted")
        rep.cov["parts"]["selftests"] = ["vacuity: TLC finds an accepted string among the arbitrary ones"]
        per = 180 if tier == "quick" else 6000
        with mp.Pool(16) as pool:
            lists = pool.map(_worker, [(r.randrange(1 << 30), per, tier, w) for w in range(16)])
        rec = L.Rec()
        for evs in lists:
            for e in evs:
                rec.add(e)
        # binding self-test: a call that "raised IndexError" / "changed the registry" must be rejected
        c0 = [e for e in rec.events if e["op"] == "c14.call"][0]
        can1 = dict(c0, kind="raise", mro=["IndexError", "LookupError", "Exception", "BaseException", "object"], cls="IndexError")
        rec.add(can1)
        can2 = dict(c0, reg_same=0)
        rec.add(can2)
        rej, st = C.validate(rec.events, wd, timeout=2400)
        ids = {x[1]: x for x in rej}
        canary_missing = [c["tid"] for c in (can1, can2) if c["tid"] not in ids]
        byid = {e["tid"]: e for e in rec.events}
        for tid, x in ids.items():
            if tid in (can1["tid"], can2["tid"]):
                continue
            e = byid[tid]
            slim = {k: (v if not isinstance(v, list) or len(v) < 500 else v[:500]) for k, v in e.items()}
            if e["op"] == "c14.call":
                if x[2] == "exception-class":
                    rep.violation("C14:%s:%s@%s" % (e["entry"].split("[")[0], e["cls"], e["site"]),
                                  "%s raised %s (%s) at %s" % (e["entry"], e["cls"], e.get("msg", ""), e["site"]), slim)
                else:
                    rep.violation("C14:%s:%s" % (e["entry"].split("[")[0], x[2]), "%s: %s" % (e["entry"], x[2]), slim)
            else:
                rep.violation("C14:%s:%s" % (e["op"], x[2].split(":")[0]), "verdict differs from the specification: %s (%s)" % (x[2], e.get("label")), slim)
        if canary_missing and not rep.violations:
            raise MachineryError("binding self-test: corrupted call event accepted")
        calls = [e for e in rec.events if e["op"] == "c14.call"]
        by_entry = {}
        for e in calls:
            k = e["entry"]
            d = by_entry.setdefault(k, {"calls": 0, "returned": 0, "classes": {}})
            d["calls"] += 1
            if e["kind"] == "ok":
                d["returned"] += 1
            else:
                d["classes"][e["cls"]] = d["classes"].get(e["cls"], 0) + 1
        rep.add_trace("Trace_Bec2 c14.call + verdict events: fuzz corpus through every parsing entry point", st, len(rec.events) - 2,
                      extra={"calls": len(calls) - 2, "by_entry": by_entry})
        rep.sample({k: c0[k] for k in ("entry", "kind", "cls", "site", "label")})
        ex = [e for e in calls if e["kind"] == "raise"]
        if ex:
            rep.sample({k: ex[0][k] for k in ("entry", "kind", "cls", "mro", "site", "label")})
    rep.assumptions += ["time limit %d s per call = 'hangs'" % TIME_LIMIT, "registry identity = the four module globals of bec2format.crypto"]
    return rep
