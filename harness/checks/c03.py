"""C03: written bytes have exactly the documented BF3/BEC2 container layout.
The specification's Serialize (written from the documented layout, with AES.tla as an independent AES) is the
independent serialiser: TLC must reproduce the real writer's bytes EXACTLY, for BF3 at many start offsets and for BEC2
bodies behind real headers, and the text envelope exactly.  AES.tla itself is cross-checked against OpenSSL each run.
MC: LayoutLemmas on the abstract instance (directory size = real size and independent of key/offset - the soundness of
the two-pass address computation -, addresses absolute and contiguous, every field recovered, payloads up to EOF)."""
import os

from ..common import SPEC, Scratch, rng, MachineryError, B
from ..report import Report
from .. import tlc, bf3lib as L, bec2lib as B2, bec2gen as G, errpaths as E
from ..oracle_openssl import Oracle
from . import bf3common as C3, bec2common as C


def run(tier):
    rep = Report("C03", tier)
    r = rng("c03")
    with Scratch("c03") as wd, B2.Seams() as seams:
        if tier == "quick":
            C3.mc_hold(rep, wd, "mc1", ["LayoutLemmas"], 1, 3)
        else:
            C3.mc_hold(rep, wd, "mc1", ["LayoutLemmas"], 1, 4)
            C3.mc_hold(rep, wd, "mc2", ["LayoutLemmas", "RoundTrip"], 2, 2)
        orc = Oracle(wd)
        rec = L.Rec()
        # AES.tla against OpenSSL
        for _ in range(200 if tier == "quick" else 1000):
            key = bytes(r.randrange(256) for _ in range(r.choice([16, 16, 24, 32])))
            pt = bytes(r.randrange(256) for _ in range(16))
            rec.add({"op": "aes.block", "key": B(key), "pt": B(pt), "ct": B(orc.aes_ecb(key, pt))})
        naes = len(rec.events)
        # BF3: to_binary at start offsets, write_file text
        offs = [0, 1, 5, 2 ** 8, 2 ** 16 - 1, 2 ** 16]
        nfiles = 200 if tier == "quick" else 1500
        for j in range(nfiles):
            f = L.gen_bf3(r)
            if r.random() < 0.3:
                blob = L.gen_payload(r, r.choice([1, 15, 16, 17, 33]))
                f.components.append(L.mk_comp({0xC3: b"\x03", 0xC2: b"\x02"}, blob, len(blob), True))
            key = L.gen_key(r)
            try:
                for off in (r.sample(offs, 2) + [r.randrange(2 ** 16 + 1)]):
                    L.rec_to_binary(rec, f, off, key)
                L.rec_write(rec, f, key, j % 4 == 0, wd)
            except OverflowError:
                continue
        # histories on ONE object: serialise, edit the object (not through set_config), serialise again - with any key or
        # framing the second output must be the layout of the CURRENT content (nothing cached from the first pass)
        from bec2format import Bec2File
        for j in range(25 if tier == "quick" else 300):
            f = L.gen_bf3(r, 2)
            key = L.gen_key(r)
            try:
                L.rec_to_binary(rec, f, r.choice(offs), key)
                for _step in range(r.choice([1, 2, 3])):
                    edit = r.choice(["append", "tag", "delete", "insert", "setcfg"])
                    if edit == "append":
                        f.components.append(L.gen_plain_comp(r))
                    elif edit == "insert":
                        f.components.insert(0, L.gen_plain_comp(r))
                    elif edit == "tag" and f.components:
                        f.components[r.randrange(len(f.components))].description[r.randrange(0x20, 0x60)] = bytes(r.randrange(256) for _ in range(r.choice([0, 1, 5])))
                    elif edit == "delete" and f.components:
                        del f.components[r.randrange(len(f.components))]
                    elif edit == "setcfg":
                        f.set_config({(r.randrange(0x10000), r.randrange(0xFF)): bytes(r.randrange(256) for _ in range(r.choice([1, 7, 30])))})
                    key2 = key if r.random() < 0.5 else L.gen_key(r)
                    L.rec_to_binary(rec, f, r.choice(offs + [r.randrange(2 ** 16)]), key2)
                    L.rec_write(rec, f, key2, False, wd)
            except OverflowError:
                continue
        # the edge shapes of C01 (same object listed twice, mapping types other than dict, ...) byte-exact
        from .c01 import edge_files
        for f in edge_files(r):            # (all of them: a slice silently dropped shapes when more were added)
            key = L.gen_key(r)
            L.rec_to_binary(rec, f, r.choice(offs), key)
            L.rec_write(rec, f, key, False, wd)
        # more than 255 components: the entry MAC is chained from the 1-based entry index as a 128-bit big-endian number
        big = L.Bf3File({}, [L.mk_comp({}, bytes([1 + (j % 255)])) for j in range(258 if tier == "quick" else 300)])
        L.rec_to_binary(rec, big, 5, L.gen_key(r), _cost=60)
        # the encryption FLAG decides, whatever the ENC tag of the description says (and vice versa: a plain component may carry any tag)
        for desc in ({0xC2: b"\x01"}, {0xC2: b"\x00"}, {0xC2: b"\x03"}, {0xC2: b"\x00\x02"}, {0xC2: b""}, {0xC2: b"\x01", 0xC3: b"\x02"}):
            for flag in (True, False):
                f = L.Bf3File({}, [L.mk_comp(desc, L.gen_payload(r, 21), 21, flag), L.gen_plain_comp(r)])
                L.rec_to_binary(rec, f, 5, L.gen_key(r))
        # a component of 64 KiB and more, session-key encrypted, serialised under one key and then - the SAME objects - under
        # another key and as a BEC2 body: every serialisation is the layout for the key given to it
        for n in ((65536 + 16,) if tier == "quick" else (65536, 65536 + 16, 70001, 131072 + 5)):
            big_c = L.mk_comp({0xC3: b"\x03", 0xC2: b"\x02"}, bytes((j * 131 + j // 251) % 256 for j in range(n)), n, True)
            fbig = L.Bf3File({}, [big_c, L.mk_comp({}, b"\x01\x02")])
            k1, k2 = L.gen_key(r), bytes(r.randrange(1, 256) for _ in range(16))
            L.rec_to_binary(rec, fbig, 5, k1, _cost=n // 64)
            L.rec_to_binary(rec, fbig, 5, k2, _cost=n // 64)
            L.rec_to_binary(rec, L.Bf3File({}, [big_c]), 7 + 34, k1, _cost=n // 64)
        # encrypted components whose declared length was not given explicitly
        for n in (7, 16, 20):
            f = L.Bf3File({}, [L.mk_comp({0xC2: b"\x02"}, L.gen_payload(r, n), None, True), L.gen_plain_comp(r)])
            L.rec_to_binary(rec, f, 5, L.gen_key(r))
        # error-path histories (a refused serialisation, then the repaired object and an unrelated one); large payloads
        E.bf3_failed_then_good(rec, r, wd, 6 if tier == "quick" else 60, enc=True)
        E.bf3_large(rec, r, wd, (300, 4128) if tier == "quick" else (257, 300, 1000, 4096, 4128, 8200), read=False)
        E.bf3_huge(rec, r, wd, tier if not os.environ.get("VERIF_ENVPASS") else "quick")
        # BEC2 framing: header + body at offset = header length
        rcpts = G.Recipients(orc, r, 1)
        for j in range(60 if tier == "quick" else 300):
            plan = G.Plan(r, rcpts, r.choice(C.ORDERINGS + [["ecc", "unknown"], ["unknown", "cust"]]),
                          key_cls=r.choice(["generic", "z1"]), explicit_key=r.random() < 0.7, use_default_rcpt=r.random() < 0.5)
            f, text, _ = C.write_plan(rec, seams, orc, r, plan)
            if j % 3 == 0:
                f.bf3file.components.append(L.gen_plain_comp(r))
                G.rec_bec2_write(rec, seams, orc, f, plan.meta, plan.encs_w, C.enc_specs(plan))
        # binding self-test: flip one byte of a recorded to_binary output
        tb = dict([e for e in rec.events if e["op"] == "bf3.to_binary"][0])
        tb["out"] = list(tb["out"])
        tb["out"][len(tb["out"]) // 2] ^= 0x10
        rec.add(tb)
        rej, st = C.validate(rec.events, wd)
        C.report_rejections(rep, "C03", rec, rej, {tb["tid"]})
        rep.add_trace("Trace_Bec2/Bf3: bf3.to_binary (byte-exact at start offsets), bf3.write text envelope, bec2.write header+body", st,
                      len(rec.events) - 1 - naes, extra={"offsets": offs + ["random 0..2^16"]})
        rep.cov["oracle_relation_events"] += naes
        rep.cov["traces_validated_against_impl"] += 0
        rep.cov["parts"]["aes_vs_openssl"] = {"kind": "oracle cross-check of AES.tla (EncBlock/DecBlock, 128/192/256-bit keys) against openssl enc -aes-*-ecb", "pairs": naes}
        e0 = [e for e in rec.events if e["op"] == "bf3.to_binary"][0]
        rep.sample({k: e0[k] for k in ("op", "off", "key", "comps")})
        rep.sample({"op": "bf3.to_binary", "out_first_64": e0["out"][:64]})
    rep.assumptions += ["TLC evaluating Serialize/AES.tla; OpenSSL only to cross-check AES.tla and ECDH", "UTF-8 locale"]
    return rep
