"""C10: configuration dictionary -> bounded TLV blocks -> configuration component.

MC    MC_ConfigTlv (abstract instance of spec/ConfigTlv.tla): the merge algorithm of conf_dict_to_tlv refines the
      declarative validity (no empty block, <= 117 when all entries fit, Decode = Ops(dict), framing, extra blocks)
      on every entry sequence of length <= 3 (quick) / 4 (thorough) over the boundary content lengths.
S->C  every case TLC explored (quick: a seeded sample) is concretised to a real dictionary, run through the real
      conf_dict_to_tlv and Bf3File.set_config (with and without extra blocks), and the REAL bytes go back to TLC
      (Trace_ConfigTlv, concrete instance of the same declarative text) which judges them.
C->S  random dictionaries over the full key / value-id / content ranges, judged the same way.
The harness holds no model: it encodes inputs and outputs; every verdict is TLC's."""
import os, re

from ..common import SPEC, Scratch, rng, MachineryError, B
from ..report import Report
from .. import tlc

LENS = "{0,1,2,50,105,106,107,110,111,112,113,200,250,251,254}"
KF_EMPTY = "C10:first-entry-oversize-empty-block"
KF_OVER255 = "C10:entry-over-255-bytes-OverflowError"
KF_250 = "C10:entry-250-bytes-not-last-OverflowError"


def _cfg(n, switch, emit, invs, switch2=False):
    return ("INIT Init\nNEXT Next\nCONSTANTS MaxN = %d\nLens = %s\nEMPTY_FIRST_BLOCK = %s\nFF_PAST_255 = %s\nEMIT = %s\n"
            % (n, LENS, "TRUE" if switch else "FALSE", "TRUE" if switch2 else "FALSE", "TRUE" if emit else "FALSE")
            + "".join("INVARIANT %s\n" % i for i in invs))


MC = os.path.join(SPEC, "MC_ConfigTlv.tla")
TR = os.path.join(SPEC, "Trace_ConfigTlv.tla")
_E = re.compile(r'^<<"E", <<(.*)>>>>\s*$')
_T = re.compile(r"<<(\d+), (\d+), (\d+)>>")


def _cases(out):
    """Entry sequences printed by TLC: tuple of (kind code, content length, same-key flag)."""
    seen = {}
    for ln in out.splitlines():
        m = _E.match(ln)
        if m:
            c = tuple((int(a), int(b), int(s)) for a, b, s in _T.findall(m.group(1)))
            seen[c] = None
    return list(seen)


# ---------------------------------------------------------------- real code
def _lib():
    from ..bf3lib import Bf3File, mk_comp
    from bec2format.bf3file import conf_dict_to_tlv
    return Bf3File, mk_comp, conf_dict_to_tlv


SPECIAL = [0x00, 0x01, 0x02, 0xFF, 0xFE, 0x75, 0x76]


def _content(r, n):
    m = r.random()
    if m < 0.25:
        return bytes(r.choice(SPECIAL) for _ in range(n))        # bytes that look like ops / terminators / lengths
    if m < 0.35:
        return bytes([r.choice(SPECIAL)]) * n
    return bytes(r.randrange(256) for _ in range(n))


def concretise(case, r):
    """TLC case -> real dictionary.  Keys ascend with 'next', value ids ascend inside a key, so the order of
    the abstract entries is the sorted order of the real ones; insertion order of the dict is shuffled."""
    key = r.choice([0, 1, 2, 0x00FF, 0x0100, 0x01FF, 0x0202, 0x0620, 0xFE00, 0xFFF0, r.randrange(0, 0xFFF0)])
    items, vid = [], None
    for kind, ln, same in case:
        if not same and items:
            key += r.choice([1, 1, 2, 0x100 if key < 0xFE00 else 1])
        if not same or vid is None:
            vid = r.choice([0, 0, 1, 2, 0x75, r.randrange(0, 200)])
        else:
            vid += r.choice([1, 1, 2, 5])
        if kind == 2:
            items.append(((key, None), None))
        elif kind == 1:
            items.append(((key, vid), None))
        else:
            items.append(((key, vid), _content(r, ln)))
    if not all(0 <= k <= 0xFFFF and (v is None or 0 <= v <= 0xFE) for (k, v), _ in items):
        raise MachineryError("concretisation left the property's domain: %r" % (items,))
    r.shuffle(items)
    return dict(items)


def random_dict(r):
    """Full ranges: keys 0..0xFFFF, value ids 0..0xFE, contents 0..254 bytes, up to ~40 entries."""
    n = r.choice([0, 1, 1, 2, 3, 5, 8, 13, 20, 30, 40])
    keys = [r.randrange(0x10000) if r.random() < 0.6 else r.choice([0, 1, 2, 0xFF, 0x100, 0x1FF, 0x2FF, 0xFF01, 0xFF02, 0xFFFF])
            for _ in range(max(1, n // r.choice([1, 2, 4])))]
    delk = {k for k in keys if r.random() < 0.15}
    d = {}
    big = r.random() < 0.35
    for _ in range(n):
        k = r.choice(keys)
        if k in delk:
            d[(k, None)] = None
            continue
        v = r.randrange(0xFF) if r.random() < 0.7 else r.choice([0, 1, 2, 0xFE, 0xFD])
        m = r.random()
        if m < 0.2:
            d[(k, v)] = None
        else:
            ln = r.choice([0, 1, 2, 3, 8, 16, 50, 100, 105, 106, 107, 110, 111]) if not big else \
                r.choice([0, 1, 4, 30, 111, 112, 113, 117, 127, 128, 200, 249, 250, 251, 254, r.randrange(255)])
            if r.random() < 0.3:
                ln = r.randrange(0, 112 if not big else 255)
            d[(k, v)] = _content(r, ln)
    return d


def enc_dict(d):
    out = []
    for (k, v), c in d.items():
        if v is None:
            out.append({"kind": "delk", "key": k, "vid": 255, "content": []})
        elif c is None:
            out.append({"kind": "delv", "key": k, "vid": v, "content": []})
        else:
            out.append({"kind": "set", "key": k, "vid": v, "content": B(c)})
    return out


# every representation of an equal mapping the clean library accepts (it only uses .items() / iteration);
# "dict" keeps the insertion order of the generator (already shuffled), "reversed" turns it round
MFORMS = ["dict", "reversed", "OrderedDict", "defaultdict", "dict-subclass", "MappingProxyType"]


class _ConfDict(dict):
    """a plain subclass of dict"""


def as_mapping(d, mform):
    import collections, types
    items = list(d.items())
    if mform == "dict":
        return dict(items)
    if mform == "reversed":
        return dict(reversed(items))
    if mform == "OrderedDict":
        return collections.OrderedDict(items)
    if mform == "defaultdict":
        m = collections.defaultdict(bytes)
        m.update(items)
        return m
    if mform == "dict-subclass":
        return _ConfDict(items)
    if mform == "MappingProxyType":
        return types.MappingProxyType(dict(items))
    raise ValueError(mform)


class Recorder:
    def __init__(self):
        self.Bf3File, self.mk_comp, self.tlv = _lib()
        self.evs, self.inputs, self.tid = [], {}, 0

    def _new(self, d, extra, src):
        self.tid += 1
        self.inputs[self.tid] = (d, extra, src)
        return self.tid

    def rec_tlv(self, d, src, mform=None):
        """mform: the representation in which the (equal) mapping is handed over; the event records the entries in the
        order of that mapping"""
        tid = self._new(d, None, src)
        mform = mform or MFORMS[tid % len(MFORMS)]
        m = as_mapping(d, mform)
        ev = {"tid": tid, "op": "tlv", "dict": enc_dict(m), "k": "ok", "cls": "", "blocks": [], "mform": mform}
        try:
            ev["blocks"] = [B(b) for b in self.tlv(m)]
        except Exception as e:                                    # noqa: BLE001  (recorded, judged by TLC)
            ev["k"], ev["cls"] = "raise", type(e).__name__
        ev["_cost"] = 1 + sum(len(c or b"") for c in d.values()) // 64
        self.evs.append(ev)
        return ev

    def rec_setcfg(self, d, extra, src, prefill=False, form=None, file=None, mform=None, raw_map=None, raw_extra=None,
                   poison_after=True):
        """extra: the caller's blocks (recorded as such); form: the kind of Iterable[bytes] they are handed over in;
        file: an existing Bf3File to update (histories), else a fresh one; raw_map / raw_extra: hand over exactly these
        caller objects (equal to d / extra at the time of the call); poison_after: once the result is recorded, the
        objects the call produced are edited in place (they are the caller's)."""
        tid = self._new(d, extra, src)
        f = file if file is not None else \
            self.Bf3File({"k": "v"}, [self.mk_comp({0xC3: b"\x02"}, b"fw")] if prefill else [])
        blocks = [bytes(x) for x in (extra or [])]
        if form is None:
            form = "omitted" if not blocks else FORMS[tid % len(FORMS)]
        if form == "keysview" and len(set(blocks)) != len(blocks):
            form = "generator"
        mform = mform or MFORMS[tid % len(MFORMS)]
        if raw_map is not None:
            m, mform = raw_map, "caller's dict object"
        else:
            m = as_mapping(d, mform)
        if raw_extra is not None:
            form = "caller's list object"
        ev = {"tid": tid, "op": "setcfg", "dict": enc_dict(m), "extra": [B(x) for x in blocks], "k": "ok", "cls": "",
              "desc": [], "blob": [], "alen": 0, "enc": 0, "form": form, "mform": mform}
        try:
            if raw_extra is not None:
                f.set_config(m, raw_extra)
            elif form == "omitted":
                f.set_config(m)
            else:
                def inner(d_=dict(d)):
                    try:
                        self.Bf3File({}, []).set_config(dict(d_), [b"\x03\x7f\x7e\x7d"])
                    except Exception:                              # noqa: BLE001  (the inner package is not the one under judgement)
                        pass
                f.set_config(m, as_iterable(blocks, form, inner))
            self._project(f, ev)
        except Exception as e:                                    # noqa: BLE001
            ev["k"], ev["cls"] = "raise", type(e).__name__
        ev["_cost"] = 1 + sum(len(c or b"") for c in d.values()) // 64
        self.evs.append(ev)
        if poison_after and ev["k"] == "ok":
            poison(f, tid)
        return ev

    @staticmethod
    def _project(f, ev):
        c = f.components[-1]
        ev.update(desc=[[int(t), B(v)] for t, v in c.description.items()], blob=B(c.blob), alen=int(c.actual_len),
                  enc=1 if c.encrypt_by_session_key else 0)

    def rec_reproject(self, f, d, extra, src):
        """no call: the component an EARLIER set_config(d, extra) appended to f, looked at again now (after the caller
        went on using the objects it had handed over) - judged as the result of that call"""
        tid = self._new(d, extra, src)
        ev = {"tid": tid, "op": "setcfg", "dict": enc_dict(d), "extra": [B(bytes(x)) for x in (extra or [])], "k": "ok", "cls": "",
              "desc": [], "blob": [], "alen": 0, "enc": 0, "form": "looked at again later", "mform": "dict"}
        try:
            self._project(f, ev)
        except Exception as e:                                    # noqa: BLE001
            ev["k"], ev["cls"] = "raise", type(e).__name__
        ev["_cost"] = 1
        self.evs.append(ev)
        return ev


def poison(f, k):
    """The caller owns what set_config produced.  After the event has been recorded the new component is edited IN PLACE
    (description: every value changed and tags added / REBOOT 00, ENC 00 and a HWCID tag / cleared; blob; encrypted flag)
    and so are the file's comments.  Nothing a later call produces - on this or any other file - may show these edits."""
    try:
        c = f.components[-1]
        desc = c.description
        if k % 3 == 0:
            for t in list(desc):
                desc[t] = b"\xEE" + bytes(desc[t])
            desc[0xEE] = b"poisoned"
            desc[0xC5] = b"\x00"
            desc[0xC2] = b"\x00"
        elif k % 3 == 1:
            desc[0xC5] = b"\x00"
            desc[0xC4] = b"\x00\x12"
            desc[0xC2] = b"\x00"
        else:
            desc.clear()
        c.blob = b"\xEE" * (len(c.blob) or 1)
        c.actual_len = 1
        c.encrypt_by_session_key = False
        f.comments["Poisoned"] = "yes"
    except Exception:                                             # noqa: BLE001 -- immutable containers: nothing to edit
        pass


# every way of handing over Iterable[bytes] (the signature of set_config), re-iterable and one-shot
FORMS = ["list", "tuple", "iterator", "generator", "map", "iterable-class", "keysview", "reentrant-generator"]


class _Blocks:
    """an Iterable that is neither a sequence nor sized; each iteration starts afresh"""

    def __init__(self, blocks):
        self._b = list(blocks)

    def __iter__(self):
        return iter(list(self._b))


def as_iterable(blocks, form, inner=None):
    if form == "reentrant-generator":
        # the caller prepares ANOTHER package while this one's extra blocks are being drawn (a lazily evaluated pipeline):
        # a complete set_config on a second file runs inside the first call; the first call's result is judged as any other
        def gen():
            for b in list(blocks):
                if inner is not None:
                    inner()
                yield b
        return gen()
    if form == "list":
        return list(blocks)
    if form == "tuple":
        return tuple(blocks)
    if form == "iterator":
        return iter(list(blocks))
    if form == "generator":
        return (b for b in list(blocks))
    if form == "map":
        return map(bytes, list(blocks))
    if form == "iterable-class":
        return _Blocks(blocks)
    if form == "keysview":
        return dict.fromkeys(blocks).keys()
    raise ValueError(form)


def histories(rec, r, n):
    """Single-process histories: the same / an equal dictionary converted several times, with and without extra blocks,
    on the same and on different Bf3File objects, the list returned by conf_dict_to_tlv mutated by the caller in
    between.  Every call is one event; TLC judges each against its own input (the functions are pure by the property)."""
    n0 = len(rec.evs)
    for j in range(n):
        d = random_dict(r) if j % 3 else {}
        if j % 5 == 1:
            d = {(0x0620, 0x01): b"\x00\x01\x00\x00", (0x0620, 0x06): b"Name", (0x0101, 5): None, (0x0300, None): None}
        src = ("history", j)
        # error path first: conversions that are refused AFTER valid entries were already processed (content too long for
        # its length byte, key out of range, content of the wrong type) - whatever they leave behind must not show below
        for bad in ({(1, 1): b"ok", (2, 2): bytes(300 + j)}, {(1, 1): b"a", (3, None): None, (0x20000, 1): b"x"}, {(1, 1): b"a", (5, 5): "text"}):
            for call in (lambda: rec.tlv(dict(bad)), lambda: rec.Bf3File({}, []).set_config(dict(bad), [b"\x01\x02"])):
                try:
                    call()
                except Exception:                                 # noqa: BLE001 -- refused, as intended
                    pass
        equal = dict(reversed(list(d.items())))                   # equal dictionary, other object, other insertion order
        x1, x2 = _extra(r), _extra(r)
        rec.rec_tlv(d, src)
        try:                                                      # the caller owns the returned list: mutate a fresh result
            got = rec.tlv(dict(d))
            got.append(b"\x02\xAA\xBB")
            got.insert(0, b"")
            if len(got) > 2:
                got[1] = b"\xff" + got[1]
        except Exception:                                         # noqa: BLE001  (the recorded call above shows it)
            pass
        rec.rec_tlv(d, src)
        rec.rec_tlv(equal, src)
        f = rec.Bf3File({}, [])
        rec.rec_setcfg(d, x1, src, file=f, form=FORMS[j % len(FORMS)])
        rec.rec_setcfg(d, [], src, file=f)                        # same file, same dictionary, now without extras
        rec.rec_setcfg(equal, x2, src, file=f, form=FORMS[(j + 3) % len(FORMS)])
        rec.rec_setcfg(equal, [], src)                            # other file
        rec.rec_tlv(d, src)
        rec.rec_setcfg(d, x1, src, form="list")
        rec.rec_setcfg(d, x1, src, form="generator")
        rec.rec_setcfg(d, [], src, file=f)
        for mform in MFORMS:                                      # the equal mapping in every representation
            rec.rec_tlv(d, src, mform=mform)
            rec.rec_setcfg(d, x2 if j % 2 else [], src, file=f if j % 3 == 0 else None, mform=mform)
        # the SAME dictionary and list objects handed to two calls, edited by the caller in between
        m, x = dict(d), [bytes(b) for b in x1]
        d0, x0 = dict(m), list(x)
        fa, fb = rec.Bf3File({}, []), rec.Bf3File({}, [])
        first = rec.rec_setcfg(d0, x0, src, file=fa, raw_map=m, raw_extra=x, poison_after=False)
        newkey = next(k for k in range(0x7001, 0x7100) if all(kk != k for (kk, _v) in m))
        m[(newkey, 1)] = b"added later"
        if len(m) > 1:
            del m[next(iter(m))]
        x.append(b"\x02\x70\x01")
        x[0] = b"\x99" + x[0][:50]
        if first["k"] == "ok":
            rec.rec_reproject(fa, d0, x0, src)                    # what the first call produced is not affected
        rec.rec_setcfg(dict(m), list(x), src, file=fb, raw_map=m, raw_extra=x)
        rec.rec_setcfg(dict(m), list(x), src, file=fa, raw_map=m, raw_extra=x)
    return len(rec.evs) - n0


def collision_histories(rec, r, n):
    """Caller-supplied extra blocks that COLLIDE with the encoder's own output: one of the dictionary's own generated
    blocks, all of them, a generated block of another dictionary of the run, the same extra twice, an extra equal to an
    earlier extra.  They follow unchanged, in order, with multiplicity (TLC judges as for any setcfg event)."""
    n0 = len(rec.evs)
    dicts = [{(0x0101, 1): b"abc"}, {(0x0101, 1): b"abc", (0x0102, None): None}, {(0x0300, None): None},
             {(0x0620, 1): b"\x00\x01", (0x0620, 6): b"Name", (0x0620, 7): b"\x01"}, {(1, 1): bytes(100), (1, 2): bytes(100), (2, 1): bytes(60)}]
    while len(dicts) < n:
        d = random_dict(r)
        if d:
            dicts.append(d)
    outs = []
    for d in dicts:
        try:
            outs.append([bytes(b) for b in rec.tlv(dict(d)) if 0 < len(b) <= 255])
        except Exception:                                         # noqa: BLE001 -- recorded elsewhere
            outs.append([])
    for j, d in enumerate(dicts):
        own, other = outs[j], outs[(j + 1) % len(dicts)]
        x = bytes(r.randrange(256) for _ in range(r.choice([1, 3, 9])))
        variants = [[x, x], [x, b"\x02\x00\x01", x], [x] + other[:1] + [x]]
        if own:
            variants += [[own[0]], list(own), [own[-1], own[-1]], [x, own[0], x], list(own) + list(own), [own[0]] + _extra(r),
                         list(reversed(own))]
        if other:
            variants += [[other[0]], list(other) + own[:1]]
        for k, v in enumerate(variants):
            rec.rec_setcfg(d, v, ("collision", j), form=FORMS[(j + k) % len(FORMS)])
    return len(rec.evs) - n0


def prior_config_histories(rec, r, thorough):
    """set_config on files that ALREADY hold a configuration component, in every variation of that component's
    description (REBOOT 00 / 01 / absent / two bytes / other value, ENC and FMT values, further tags, encrypted flag),
    built by hand and read back from a written file, alone and between firmware components.  The tags of the new
    component are a function of the call's arguments only (TLC judges them as for any other setcfg event)."""
    import io, itertools
    n0 = len(rec.evs)
    reboots = [None, b"\x00", b"\x01", b"\x00\x00", b"\x01\x00", b"\x02", b""]
    encs = [b"\x02", b"\x00", None]
    fmts = [b"\x03", b"\x00"]
    others = [{}, {0xC4: b"\x00\x12"}, {0xC7: b"\xAB\xCD", 0xC8: b"1.0"}]
    combos = list(itertools.product(reboots, encs, fmts, others, [True, False]))
    if not thorough:                                              # every REBOOT value with every ENC, the rest sampled
        combos = [c for c in combos if c[2] == b"\x03" and not c[3] and c[4]] + r.sample(combos, 40)
    for j, (rb, en, fm, oth, flag) in enumerate(combos):
        desc = {0xC3: b"\x03"}
        if en is not None:
            desc[0xC2] = en
        if fm is not None:
            desc[0xC1] = fm
        if rb is not None:
            desc[0xC5] = rb
        desc.update(oth)
        old = rec.mk_comp(desc, b"\x03\x02\x00\x01\x00" + bytes(r.randrange(256) for _ in range(r.choice([0, 3, 11]))), None, flag)
        fw = rec.mk_comp({0xC3: b"\x02", 0xC5: b"\x00"}, b"firmware")
        comps = [[old], [fw, old], [old, fw]][j % 3]
        f = rec.Bf3File({"k": "v"}, comps)
        how = "hand-built"
        if j % 2:                                                 # the same file as another tool would hand it over: written, read back
            try:
                buf = io.StringIO()
                f.write_file(buf)
                g = rec.Bf3File.read_file(io.StringIO(buf.getvalue()))
                if any(c.description.get(0xC3) == b"\x03" for c in g.components):
                    f, how = g, "read back"
            except Exception:                                     # noqa: BLE001 -- variant not writable/readable: keep the hand-built file
                pass
        d = random_dict(r) if j % 4 else {(0x0101, 1): b"abc"}
        src = ("prior-config", "%s, old description {%s}, encrypted flag %s" % (
            how, ", ".join("%02X: %s" % (t, v.hex() or "''") for t, v in desc.items()), flag))
        rec.rec_setcfg(d, _extra(r) if j % 3 == 0 else [], src, file=f)
        rec.rec_setcfg(d, [], src, file=f)                        # and once more on the result
    return len(rec.evs) - n0


def _extra(r):
    return [bytes(r.randrange(256) for _ in range(r.choice([1, 2, 5, 17, 117, 120]))) for _ in range(r.choice([1, 1, 2, 3]))]


def _first_oversize(d):
    """input class of finding #5: no deletions and the smallest assignment does not fit in one block"""
    if not d or any(v is None or c is None for (k, v), c in d.items()):
        return False
    return 6 + len(d[min(d)]) > 117


def _key_for(clause, d, ev):
    if clause in ("empty-block", "data-after-terminator") and _first_oversize(d):
        return KF_EMPTY
    if clause == "raised-entry-over-255" and ev.get("cls") == "OverflowError":
        return KF_OVER255
    if clause == "raised" and ev.get("cls") == "OverflowError" and any(c is not None and len(c) == 250 for c in d.values()):
        return KF_250
    return "C10:" + clause


def run(tier):
    rep = Report("C10", tier)
    r = rng("c10")
    thorough = tier == "thorough"
    n = 4 if thorough else 3
    with Scratch("c10") as wd:
        # ---------------- MC: merge algorithm refines the declarative validity
        res = tlc.require_ok(tlc.run(MC, _cfg(n, False, False, ["OpsSorted", "Refines", "Unframable"]),
                                     os.path.join(wd, "mc"), workers=16, timeout=1500), "MC_ConfigTlv")
        rep.add_mc("MC_ConfigTlv (MergeAlgo refines declarative validity; entry sequences of length <= %d)" % n, res,
                   {"MaxN": n, "Lens": LENS, "kinds": "set, delete-value, delete-key", "key": "same | next",
                    "invariants": "OpsSorted, Refines, Unframable"})
        # ---------------- self-tests on the model: switch on => refuted; boundaries are reached (vacuity)
        bad = tlc.run(MC, _cfg(3, True, False, ["Refines"]), os.path.join(wd, "sw"), workers=4, timeout=300)
        if "Refines" not in bad.violated:
            raise MachineryError("self-test: EMPTY_FIRST_BLOCK = TRUE was not refuted by TLC")
        cex = bad.trace()[-1][1].get("es")
        if not cex:
            raise MachineryError("self-test: no counterexample trace from TLC")
        cex_case = tuple(({"set": 0, "delv": 1, "delk": 2}[e["k"]], e["l"], 1 if e["s"] else 0) for e in cex)
        bad2 = tlc.run(MC, _cfg(3, False, False, ["Refines"], switch2=True), os.path.join(wd, "sw2"), workers=4, timeout=300)
        if "Refines" not in bad2.violated:
            raise MachineryError("self-test: FF_PAST_255 = TRUE was not refuted by TLC")
        cex2 = bad2.trace()[-1][1].get("es")
        cex2_case = tuple(({"set": 0, "delv": 1, "delk": 2}[e["k"]], e["l"], 1 if e["s"] else 0) for e in cex2)
        guards = {}
        for g in ("NeverExactly117", "NeverTwoBlocks", "NeverOversize"):
            gr = tlc.run(MC, _cfg(3, False, False, [g]), os.path.join(wd, "g_" + g), workers=2, timeout=300)
            if g not in gr.violated:
                raise MachineryError("vacuity guard %s holds: the bounded model never reaches that boundary" % g)
            guards[g] = "violated as required"
        rep.cov["parts"]["selftest-model"] = {"EMPTY_FIRST_BLOCK=TRUE": "Refines refuted by TLC, counterexample %r" % (cex_case,),
                                              "FF_PAST_255=TRUE": "Refines refuted by TLC, counterexample %r" % (cex2_case,),
                                              "vacuity": guards}
        # ---------------- S->C: cases out of TLC
        gen = tlc.require_ok(tlc.run(MC, _cfg(3, False, True, ["Emit"]), os.path.join(wd, "gen"), workers=1, timeout=600),
                             "MC_ConfigTlv (emit)")
        cases3 = _cases(gen.out)
        if len(cases3) != gen.distinct - 1:
            raise MachineryError("case export incomplete: %d lines for %d states" % (len(cases3), gen.distinct))
        cases4 = []
        if thorough:
            sim = tlc.run(MC, _cfg(4, False, True, ["Emit"]), os.path.join(wd, "sim"), workers=1, timeout=900,
                          simulate="num=3000", depth=5, seed=r.randrange(1 << 30))
            cases4 = sorted(c for c in _cases(sim.out) if len(c) == 4)      # TLC evaluates the invariant on all successors
            cases4 = r.sample(cases4, min(len(cases4), 60000))
            if len(cases4) < 1000:
                raise MachineryError("simulation produced too few length-4 cases:\n" + sim.clean()[-2000:])
            chosen = cases3 + cases4
        else:
            chosen = r.sample(cases3, 6000)
            chosen += [c for c in cases3 if len(c) == 1]           # every single-entry case (incl. every oversize first entry)
        chosen.append(cex2_case)
        chosen.append(cex_case)
        rec = Recorder()
        for c in chosen:
            d = concretise(c, r)
            rec.rec_tlv(d, ("S->C", c))
            rec.rec_setcfg(d, [], ("S->C", c), prefill=r.random() < 0.3)
            if thorough or r.random() < 0.5:
                rec.rec_setcfg(d, _extra(r), ("S->C", c), prefill=r.random() < 0.3)
        n_s2c = len(rec.evs)
        # the counterexample of the switch, on the real code (it is the last case): does the defect exist there?
        cex_tids = [e["tid"] for e in rec.evs[-3:] if rec.inputs[e["tid"]][2][1] == cex_case]
        # ---------------- C->S: random dictionaries over the full ranges
        for _ in range(6000 if thorough else 700):
            d = random_dict(r)
            rec.rec_tlv(d, ("C->S", None))
            rec.rec_setcfg(d, _extra(r) if r.random() < 0.5 else [], ("C->S", None), prefill=r.random() < 0.3)
        n_hist = histories(rec, r, 400 if thorough else 60)
        for form in FORMS:                                           # every form at least once on a fixed dictionary
            rec.rec_setcfg({(0x0101, 1): b"abc", (0x0102, None): None}, [b"\x02\xAA\xBB", b"\x01\xCC\xDD\x07\x01\x99"],
                           ("forms", form), form=form)
        n_prior = prior_config_histories(rec, r, thorough)
        n_prior += collision_histories(rec, r, 120 if thorough else 24)
        unsorted = {(0x0300, 2): b"late", (0x0300, 1): b"early", (0x0101, 7): b"\x01\x02", (0x0200, 9): None, (0x0100, None): None}
        for mform in MFORMS:                                         # assignments first, keys descending, deletions last
            rec.rec_tlv(unsorted, ("mapping-forms", mform), mform=mform)
            rec.rec_setcfg(unsorted, [b"\x02\xAA\xBB"], ("mapping-forms", mform), mform=mform, form="list")
        n_real = len(rec.evs)
        # ---------------- binding self-test: corrupted canaries must be rejected
        good = next(e for e in rec.evs if e["op"] == "setcfg" and e["k"] == "ok" and len(e["blob"]) > 12
                    and not _first_oversize(rec.inputs[e["tid"]][0]) and any(x["kind"] == "set" and x["content"] for x in e["dict"]))
        canaries = {}

        def canary(tag, ev):
            rec.tid += 1
            ev = dict(ev, tid=rec.tid)
            canaries[rec.tid] = tag
            rec.evs.append(ev)

        b = list(good["blob"]); b[-2] ^= 1
        canary("blob byte flipped", dict(good, blob=b))
        canary("terminator dropped", dict(good, blob=good["blob"][:-1]))
        canary("second terminator", dict(good, blob=good["blob"] + [0]))
        canary("REBOOT tag value", dict(good, desc=[[t, [0] if t == 0xC5 else v] for t, v in good["desc"]]))
        canary("declared length", dict(good, alen=good["alen"] + 1))
        canary("not encrypted", dict(good, enc=0))
        gt = next(e for e in rec.evs if e["op"] == "tlv" and e["k"] == "ok" and len(e["blocks"]) >= 2 and all(e["blocks"]))
        canary("blocks swapped", dict(gt, blocks=[gt["blocks"][1], gt["blocks"][0]] + gt["blocks"][2:]))
        canary("empty block inserted", dict(gt, blocks=[[]] + gt["blocks"]))
        ge = next(e for e in rec.evs if e["op"] == "setcfg" and e["k"] == "ok" and e["extra"]
                  and not _first_oversize(rec.inputs[e["tid"]][0]))
        x = [list(v) for v in ge["extra"]]; x[-1][0] ^= 0x80
        canary("extra block changed", dict(ge, extra=x))
        rej, st = tlc.validate_trace(TR, "INIT Init\nNEXT Next\n", rec.evs, os.path.join(wd, "tr"), shards=16, timeout=1500)
        rejd = {}
        for x in rej:
            rejd.setdefault(x[1], x[2])
        for tid, tag in canaries.items():
            if tid not in rejd:
                raise MachineryError("binding self-test: corrupted event (%s) was accepted by Trace_ConfigTlv" % tag)
        rep.cov["parts"]["selftest-binding"] = {"canaries rejected": {tag: rejd[t] for t, tag in canaries.items()}}
        byid = {e["tid"]: e for e in rec.evs}
        if any(c == "input-out-of-domain" for t, c in rejd.items() if t not in canaries):
            raise MachineryError("harness generated a dictionary outside the property's domain")
        for tid, clause in sorted(rejd.items()):
            if tid in canaries:
                continue
            d, extra, src = rec.inputs[tid]
            ev = byid[tid]
            key = _key_for(clause, d, ev)
            small = {k: v for k, v in ev.items() if not k.startswith("_")}
            rep.violation(key, "%s on dictionary %s: specification verdict '%s'%s" % (
                "conf_dict_to_tlv" if ev["op"] == "tlv" else "Bf3File.set_config",
                _show(d) + (" handed over as %s" % ev["mform"] if ev.get("mform") not in (None, "dict") else "")
                + ((", extra blocks as %s" % ev["form"]) if ev.get("form") not in (None, "omitted") else ""), clause,
                (" (raised %s)" % ev["cls"]) if ev["k"] == "raise" else "") + (" [%s %s]" % (src[0], src[1]) if src[0] in ("history", "prior-config", "collision") else ""),
                {"event": small, "source": src[0], "tlc_case": src[1]})
        if not any(t in rejd for t in cex_tids):
            rep.cov["parts"]["selftest-model"]["counterexample on the real code"] = "accepted (defect not present in the code)"
        else:
            rep.cov["parts"]["selftest-model"]["counterexample on the real code"] = "rejected: " + ", ".join(
                sorted({rejd[t] for t in cex_tids if t in rejd}))
        rep.add_replay("S->C: TLC-generated entry sequences concretised, run on the real code, real bytes judged by TLC "
                       "(events counted under Trace_ConfigTlv)", 0,
                       {"cases": len(chosen), "cases_length_le_3_available": len(cases3), "cases_length_4_sampled": len(cases4),
                        "events": n_s2c, "all_length_le_3": thorough})
        rep.add_trace("Trace_ConfigTlv (real conf_dict_to_tlv / set_config bytes judged by the declarative validity)", st,
                      n_real, extra={"s2c_events": n_s2c, "random_dict_events": n_real - n_s2c - n_hist - n_prior - len(FORMS) - 2 * len(MFORMS),
                                     "prior_configuration_component_events": n_prior, "history_events": n_hist,
                                     "extra_block_forms": FORMS, "mapping_forms": MFORMS, "canaries": len(canaries),
                                     "rejected_real_events": len([t for t in rejd if t not in canaries])})
        for e in (rec.evs[0], rec.evs[n_s2c + 1], rec.evs[1]):
            rep.sample({k: v for k, v in e.items() if not k.startswith("_")})
    rep.cov["exhaustive"] = True
    rep.cov["explanation"] = ("bounded space (entry sequences <= %d over 15 boundary lengths) enumerated completely by TLC; "
                              "real code sampled/enumerated from that space and from random full-range dictionaries" % n)
    rep.assumptions += [
        "'an entry fits in one block' = its self-contained encoding including the FF terminator is <= 117 bytes (content <= 111)",
        "abstract instance: a non-empty content is one symbolic token of its length; Decode/validity text is shared with the "
        "concrete instance that judges the real bytes",
        "dictionaries in the domain: delete-key never shares its key; extra blocks are non-empty and <= 255 bytes",
        "entries whose block would exceed 255 bytes (content 251..254) cannot be framed with a one-byte length at all",
    ]
    return rep


def _show(d):
    parts = []
    for (k, v), c in sorted(d.items(), key=lambda kv: (kv[0][0], -1 if kv[0][1] is None else kv[0][1])):
        if v is None:
            parts.append("(0x%04X, None): None" % k)
        elif c is None:
            parts.append("(0x%04X, 0x%02X): None" % (k, v))
        else:
            parts.append("(0x%04X, 0x%02X): <%d bytes>" % (k, v, len(c)))
    s = "{" + ", ".join(parts[:6]) + (", ... %d entries" % len(parts) if len(parts) > 6 else "") + "}"
    return s


def replay(path):
    """bin/check C10 --replay <file>: re-run the recorded dictionary on the real code, let TLC judge the new bytes."""
    import json
    ev0 = json.load(open(path))["data"]["event"]
    d = {}
    for e in ev0["dict"]:
        d[(e["key"], None if e["kind"] == "delk" else e["vid"])] = bytes(e["content"]) if e["kind"] == "set" else None
    rec = Recorder()
    rec.rec_tlv(d, ("replay", None))
    rec.rec_setcfg(d, [bytes(x) for x in ev0.get("extra", [])], ("replay", None))
    with Scratch("c10r") as wd:
        rej, _ = tlc.validate_trace(TR, "INIT Init\nNEXT Next\n", rec.evs, wd, shards=1)
    for x in rej:
        print("REJECTED %s: %s on %s" % (x[2], rec.evs[x[1] - 1]["op"], _show(d)))
    if not rej:
        print("accepted: %s" % _show(d))
    return 1 if rej else 0
