"""C06: encrypted components are stored only as ciphertext and decrypt to the original.
MC: CipherOnly + RoundTrip on the abstract instance with encrypted components (payload cells are cipher cells of the
    zero-padded content under the file key; read-back equals the content up to the declared length).
C->S: real files with session-key encrypted (configuration) components of every length mod 16, every trailing-zero count,
    all-zero content, BF3 and BEC2 framing: payload region = AES-128-CBC(key, zero IV, zero-padded content) (byte-exact
    Serialize with AES.tla), read-back blob[:declared] = content, needle scan of the written file for configuration
    plaintext / session key / security code / customer key, and writing with the cipher unregistered or raising fails
    without emitting anything."""
import io, os

from ..common import SPEC, Scratch, rng, MachineryError, B
from ..report import Report
from .. import tlc, bf3lib as L, bec2lib as B2, bec2gen as G, errpaths as E
from ..oracle_openssl import Oracle
from . import bf3common as C3, bec2common as C

import bec2format
from bec2format import Bf3File, Bec2File
from bec2format import crypto as _crypto

CFG_DESC = {0xC3: b"\x03", 0xC2: b"\x02", 0xC1: b"\x03", 0xC5: b"\x01"}


def content(r, n, mode):
    if mode == "zero":
        return bytes(n)
    b = bytearray(r.randrange(1, 256) for _ in range(n))
    if mode.startswith("z"):
        z = min(n, int(mode[1:]))
        b[n - z:] = bytes(z)
    return bytes(b)


def needle_of(blob):
    core = blob.rstrip(b"\0")
    if len(core) >= 6 and len(set(core)) >= 4:
        return core
    return None


def real_set_config_file(r):
    cfg = {(r.randrange(0x10000), r.randrange(0xFF)): bytes(r.randrange(256) for _ in range(r.choice([1, 3, 8, 20, 60]))) for _ in range(r.choice([1, 2, 5]))}
    f = Bf3File({}, [])
    if r.random() < 0.5:
        f.components.append(L.gen_plain_comp(r))
    f.set_config(cfg)
    return f, cfg


class Raising(_crypto.AES128):
    def encrypt(self, data):
        raise RuntimeError("cipher hardware failure")

    def decrypt(self, data):
        raise RuntimeError("cipher hardware failure")

    def mac(self, data):
        raise RuntimeError("cipher hardware failure")


class PartlyRaising(Raising):
    """MAC works (delegates to the real plug-in), encryption fails: only the plaintext-protecting step is missing."""

    def mac(self, data):
        import register_crypto_plugin as P
        return P.AES128Proxy(self._key, self._iv).mac(data)


def run(tier):
    rep = Report("C06", tier)
    r = rng("c06")
    with Scratch("c06") as wd, B2.Seams() as seams:
        if tier == "quick":
            C3.mc_hold(rep, wd, "mc1", ["CipherOnly", "RoundTrip"], 1, 4)
        else:
            C3.mc_hold(rep, wd, "mc1", ["CipherOnly", "RoundTrip"], 1, 5)
            C3.mc_hold(rep, wd, "mc2", ["CipherOnly", "RoundTrip"], 2, 2)
        C3.mc_refuted(rep, wd, "st1", "RoundTrip", "ENC_NEVER_DECRYPTS")
        C3.mc_refuted(rep, wd, "st2", "RoundTrip", "DEC_STRIPS_ZEROS")
        orc = Oracle(wd)
        rcpts = G.Recipients(orc, r, 1)
        rec = L.Rec()
        lens = range(1, 65) if tier == "thorough" else list(range(1, 36)) + [47, 48, 49, 64]
        modes = ["rnd", "z1", "z2", "z15", "z16", "z17", "zero"]
        for n in lens:
            for mode in (modes if tier == "thorough" else r.sample(modes, 3) + ["zero"] * (n % 5 == 0)):
                blob = content(r, n, mode)
                key = L.gen_key(r)
                f = Bf3File({"Configuration": "x"}, [L.mk_comp(CFG_DESC, blob, len(blob), True)])
                if r.random() < 0.3:
                    f.components.insert(0, L.gen_plain_comp(r))
                L.rec_to_binary(rec, f, 5, key)                        # payload region = Enc(key, pad(content)) (byte-exact)
                text = L.rec_write(rec, f, key, False, wd)
                L.rec_read(rec, text, key, True, False, wd, auth=rec.last_written)
                # with the right key the content comes back whether or not the MACs are checked, and in any legal text layout
                L.rec_read(rec, text, key, False, n % 2 == 0, wd, auth=rec.last_written)
                if text:
                    L.rec_read(rec, L.reformat(r, text), key, n % 3 != 0, False, wd, auth=rec.last_written)
                needles = []
                nd = needle_of(blob)
                if nd:
                    needles.append({"name": "configuration-plaintext", "bytes": B(nd)})
                if len(set(key)) >= 4:
                    needles.append({"name": "session-key", "bytes": B(key)})
                if needles:
                    rec.add({"op": "c06.scan", "text": L.chars(text), "needles": needles})
        # contents chosen BACKWARDS from the ciphertext: the stored payload looks like something else (a well-formed TLV
        # configuration, zeros, FF.., a BF3 / BEC2 signature, ASCII hex) - it is ciphertext all the same and reads back as the content
        from bec2format.crypto import create_AES128 as _mk
        looks = [bytes([0x0E, 0x01, 0x01, 0x02, 0x03, 0x01, 0xAA, 0x01, 0x01, 0x02, 0x04, 0x01, 0xBB, 0xFF, 0xFF, 0x00]),
                 bytes([0x1E, 0x01, 0x06, 0x20, 0x01, 0x02, 0x12, 0x34, 0x05, 0x02, 0x00, 0x07, 0xFF] + [0x02, 0x01, 0x02] * 6 + [0x00]),
                 bytes(16), bytes([255] * 32), b"BF3\x00\x00" + bytes(11), b"BEC2\x00" + bytes(27), b"0123456789ABCDEF" * 2,
                 bytes([0x02, 0x01, 0x80, 0x00] + [0] * 12)]
        for look in looks:
            for key in (L.ZERO_KEY, L.gen_key(r)):
                try:
                    plain = _mk(bytes(key)).decrypt(look)               # (the library's cipher only to CRAFT the content)
                except Exception:                                      # noqa: BLE001
                    continue
                for desc in (CFG_DESC, {0xC3: b"\x03", 0xC2: b"\x02", 0xC1: b"\x03"}):
                    f = Bf3File({}, [L.mk_comp(desc, plain, len(plain), True)])
                    L.rec_to_binary(rec, f, 5, key)
                    text = L.rec_write(rec, f, key, False, wd)
                    L.rec_read(rec, text, key, True, False, wd, auth=rec.last_written)
                    L.rec_read(rec, text, key, False, False, wd, auth=rec.last_written)
        # components marked for encryption in every way the object model allows: declared length given / not given (None),
        # with the ENC tag, without it, with a 2-byte ENC value, with an empty description - the FLAG decides, and the stored
        # payload must be ciphertext of the zero-padded content in all cases
        for n in (5, 16, 21, 33):
            for desc in (CFG_DESC, {0xC3: b"\x03"}, {}, {0xC2: b"\x02\x00"}, {0xC2: b"\x00"}, {0xC2: b"\x01"}, {0xC2: b"\x03"},
                         {0xC2: b"\x00\x02"}, {0xC2: b""}, {0xC2: b"\x01", 0xC3: b"\x02"}, {0xC1: b"\x02", 0xC2: b"\x01"}):
                for alen in (None, n):
                    blob = content(r, n, "rnd")
                    key = L.gen_key(r)
                    f = Bf3File({}, [L.mk_comp(desc, blob, alen, True)])
                    L.rec_to_binary(rec, f, 5, key)
                    text = L.rec_write(rec, f, key, False, wd)
                    nd = needle_of(blob)
                    if nd and text:
                        rec.add({"op": "c06.scan", "text": L.chars(text), "needles": [{"name": "configuration-plaintext", "bytes": B(nd)}]})
        # histories on ONE object: write, replace the configuration (set_config) or the blob, write again with the SAME key:
        # the second file must carry the ciphertext of the CURRENT content
        for _ in range(12 if tier == "quick" else 150):
            f, cfg = real_set_config_file(r)
            key = L.gen_key(r)
            L.rec_to_binary(rec, f, 5, key)
            text1 = L.rec_write(rec, f, key, False, wd)
            for _step in range(r.choice([1, 2])):
                if r.random() < 0.7:
                    cfg = {(r.randrange(0x10000), r.randrange(0xFF)): bytes(r.randrange(1, 256) for _ in range(r.choice([2, 9, 40])))}
                    f.set_config(cfg)
                else:
                    comp = f.components[-1]
                    comp.blob = bytes(r.randrange(1, 256) for _ in range(len(comp.blob)))
                L.rec_to_binary(rec, f, 5, key)
                text = L.rec_write(rec, f, key, False, wd)
                L.rec_read(rec, text, key, True, False, wd, auth=rec.last_written)
            # and the object read back from the first file, edited and written again
            try:
                g = L.Bf3File.read_file(io.StringIO(text1), True, key)
                g.comments["x"] = "y"
                L.rec_to_binary(rec, g, 5, key)
                t2 = L.rec_write(rec, g, key, False, wd)
                L.rec_read(rec, t2, key, True, False, wd, auth=rec.last_written)
            except Exception:                              # noqa: BLE001 -- a failing read is judged by the read events above
                pass
        # error-path histories: a refused write (over-long entry), then the repaired object - its encrypted components
        # must still be stored as ciphertext; and contents longer than 256 / 4096 bytes
        E.bf3_failed_then_good(rec, r, wd, 6 if tier == "quick" else 60, enc=True)
        E.bf3_large(rec, r, wd, (300, 4128) if tier == "quick" else (257, 300, 1000, 4096, 4128, 8200))
        # components produced by the real set_config
        for _ in range(20 if tier == "quick" else 300):
            f, cfg = real_set_config_file(r)
            key = L.gen_key(r)
            L.rec_to_binary(rec, f, 5, key)
            text = L.rec_write(rec, f, key, False, wd)
            L.rec_read(rec, text, key, True, False, wd, auth=rec.last_written)
            nds = [{"name": "configuration-plaintext", "bytes": B(v)} for v in cfg.values() if needle_of(v) == v]
            if nds:
                rec.add({"op": "c06.scan", "text": L.chars(text), "needles": nds})
            # the application edits the component set_config produced (a plain development build: ENC = 00, flag off; other tags
            # changed) and drops the file: a LATER set_config on an unrelated file must not inherit any of it
            L.poison(f)
        # BEC2 framing: session key, security code, customer key must not appear either
        for _ in range(15 if tier == "quick" else 200):
            plan = G.Plan(r, rcpts, r.choice(C.ORDERINGS), key_cls="generic", explicit_key=r.random() < 0.6, use_default_rcpt=r.random() < 0.5)
            blob = content(r, r.choice([7, 16, 23, 40]), r.choice(modes[:-1]))
            cont = Bf3File({}, [L.mk_comp(CFG_DESC, blob, len(blob), True)])
            f, text, ev = C.write_plan(rec, seams, orc, r, plan, content=cont)
            if plan.decs:
                B2.rec_bec2_read(rec, text, list(plan.decs.values()), plan.ecc_privs, orc, True, auth=B2.proj_bec2(f))
                B2.rec_bec2_read(rec, L.reformat(r, text) if text else text, list(plan.decs.values()), plan.ecc_privs, orc, False, auth=B2.proj_bec2(f))
            needles = [{"name": "session-key", "bytes": B(f.session_key)}]
            nd = needle_of(blob)
            if nd:
                needles.append({"name": "configuration-plaintext", "bytes": B(nd)})
            for m in plan.meta:
                if m["tag"] == 2:
                    needles.append({"name": "security-code", "bytes": m["code"]})
                if m["tag"] == 1 and m["ck"]:
                    needles.append({"name": "customer-key", "bytes": m["ck"]})
            rec.add({"op": "c06.scan", "text": L.chars(text), "needles": needles})
        # cipher missing / failing: writing must fail and emit nothing
        saved = B2.current_backends()["AES128"]
        try:
            for cls, nm in ((_crypto.AES128, "unregistered"), (Raising, "raising"), (PartlyRaising, "encrypt-raising")):
                for _ in range(4):
                    blob = content(r, r.choice([9, 16, 30]), "rnd")
                    f = Bf3File({"c": "d"}, [L.mk_comp(CFG_DESC, blob, len(blob), True)])
                    bec = Bec2File(f, [], bytes(range(1, 17)))
                    bec2format.register_AES128(cls)
                    for target, wr in (("bf3", lambda s: f.write_file(s, bytes(range(1, 17)))), ("bec2", lambda s: bec.write_file(s, []))):
                        s = io.StringIO()
                        ev = {"op": "c06.nocipher", "registry": nm, "framing": target, "kind": "ok", "emitted": [],
                              "needles": [{"name": "configuration-plaintext", "bytes": B(blob)},
                                          {"name": "configuration-plaintext-hex", "bytes": L.chars(blob.hex().upper())}]}
                        try:
                            wr(s)
                        except BaseException as e:                 # noqa: BLE001
                            ev["kind"] = "raise"
                            ev["exc"] = L.exc_info(e)
                        ev["emitted"] = L.chars(s.getvalue())
                        rec.add(ev)
                    bec2format.register_AES128(saved)
                    # the cipher is back: the SAME objects written again must come out encrypted (nothing left over from the failure)
                    k = bytes(range(1, 17))
                    L.rec_to_binary(rec, f, 5, k)
                    t = L.rec_write(rec, f, k, False, wd)
                    L.rec_read(rec, t, k, True, False, wd, auth=rec.last_written)
                    if t:
                        rec.add({"op": "c06.scan", "text": L.chars(t), "needles": [{"name": "configuration-plaintext", "bytes": B(blob)}]})
                    s2 = io.StringIO()
                    try:
                        bec.write_file(s2, [])
                        rec.add({"op": "c06.scan", "text": L.chars(s2.getvalue()), "needles": [{"name": "configuration-plaintext", "bytes": B(blob)}]})
                    except Exception:                            # noqa: BLE001 -- bec2 writes are judged by C02/C07
                        pass
        finally:
            bec2format.register_AES128(saved)
        # binding self-tests: a scan event whose needle IS present, a nocipher event that "succeeded"
        sc = [e for e in rec.events if e["op"] == "c06.scan"][0]
        can = dict(sc)
        can["needles"] = [{"name": "signature-as-needle", "bytes": [0x42, 0x46, 0x33, 0, 0]}]
        rec.add(can)
        can2 = dict([e for e in rec.events if e["op"] == "c06.nocipher"][0])
        can2["kind"] = "ok"
        rec.add(can2)
        rej, st = C.validate(rec.events, wd)
        C.report_rejections(rep, "C06", rec, rej, {can["tid"], can2["tid"]})
        rep.add_trace("Trace_Bec2: to_binary (ciphertext byte-exact), write/read-back, needle scans, cipher-absent writes", st, len(rec.events) - 2,
                      extra={"scan_events": sum(1 for e in rec.events if e["op"] == "c06.scan") - 1,
                             "nocipher_events": sum(1 for e in rec.events if e["op"] == "c06.nocipher") - 1})
        e0 = rec.events[0]
        rep.sample({k: e0[k] for k in ("op", "off", "key", "comps")})
        rep.sample({"op": "c06.scan", "needles": sc["needles"]})
    rep.assumptions += ["AES.tla", "needles are >= 6 bytes with >= 4 distinct values (chance occurrence < 2^-40 per file)"]
    return rep
