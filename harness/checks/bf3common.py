"""Shared pieces of the BF3 container checks (C01 C03 C04 C05 C06)."""
import os

from ..common import SPEC, MachineryError
from .. import tlc

IDEAL = dict(SHORT_READ_OK="FALSE", ENC_NEVER_DECRYPTS="FALSE", DEC_STRIPS_ZEROS="FALSE")


def sw_cfg(**over):
    d = dict(IDEAL)
    d.update(over)
    return "CONSTANTS\n" + "".join("%s = %s\n" % kv for kv in d.items())


def mc_cfg(invs, max_comps, max_blob, with_enc=True, **over):
    return ("SPECIFICATION Spec\n" + sw_cfg(**over) + "MaxComps = %d\nMaxBlob = %d\nWithEnc = %s\n" % (
        max_comps, max_blob, "TRUE" if with_enc else "FALSE") + "".join("INVARIANT %s\n" % i for i in invs))


def run_mc(rep, wd, name, invs, max_comps, max_blob, with_enc=True, timeout=1500, **over):
    res = tlc.run(os.path.join(SPEC, "MC_Bf3.tla"), mc_cfg(invs, max_comps, max_blob, with_enc, **over),
                  os.path.join(wd, name), workers=16, timeout=timeout)
    return res


def mc_hold(rep, wd, name, invs, max_comps, max_blob, with_enc=True):
    res = tlc.require_ok(run_mc(rep, wd, name, invs, max_comps, max_blob, with_enc), name)
    rep.add_mc("MC_Bf3 %s: invariants %s" % (name, ",".join(invs)), res,
               {"MaxComps": max_comps, "MaxBlob": max_blob, "WithEnc": with_enc, "keys": 2, "cells": "{0,1} + tokens"})
    return res


def mc_refuted(rep, wd, name, inv, switch, max_comps=1, max_blob=2):
    """Self-test: with the deviation switch on, TLC must produce a counterexample."""
    res = run_mc(rep, wd, name, [inv], max_comps, max_blob, True, **{switch: "TRUE"})
    if inv not in res.violated:
        raise MachineryError("self-test: %s not refuted with %s=TRUE:\n%s" % (inv, switch, res.clean()[-1500:]))
    tr = res.trace()
    rep.cov["parts"].setdefault("selftests", []).append(
        "%s=TRUE: TLC refutes %s in %d states (trace length %d)" % (switch, inv, res.distinct, len(tr)))
    return tr


TRACE_CFG = "INIT Init\nNEXT Next\n"


def validate(events, wd, name="trace", **over):
    return tlc.validate_trace(os.path.join(SPEC, "Trace_Bf3.tla"), TRACE_CFG + sw_cfg(**over), events,
                              os.path.join(wd, name), shards=16, timeout=1500)


# --- S->C: contents enumerated by TLC, concretised (abstract cell -> 8 real bytes)
def gamma_cell(c, pos):
    if c["k"] != "i":
        raise ValueError("only integer cells are concretised")
    v = c["v"][0]
    if v == 0:
        return bytes(8)
    return bytes([(v * 37 + pos * 11 + j * 5) % 255 + 1 for j in range(8)])


def gamma_blob(cells):
    return b"".join(gamma_cell(c, i) for i, c in enumerate(cells))


def gamma_comp(c):
    desc = {}
    for tag, val in c["desc"]:
        if tag == 2:                                  # abstract ENC tag / value
            desc[0xC2] = b"\x02"
        else:
            desc[0xA0 + tag] = gamma_blob(val)
    return desc, gamma_blob(c["blob"]), c["alen"] * 8, c["enc"]
