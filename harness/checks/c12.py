"""C12: configuration identifiers.

MC    MC_ConfigId (reduced widths dd-d-d-d, unknown code 9): ParseId(PrintId(i)) = i for every identifier in the
      domain whose name is not a numeric look-alike, and that exclusion is exact (every look-alike fails);
      PrintId(ParseId(t)) = t for canonical texts; derivation cases over all subsets of the naming values.
      RoundTripAllNames (no exclusion) must be refuted: the text format is ambiguous.
C->S  the real ConfigId: every numeric range exhaustively (thorough; quick: a seeded sample), adversarial names,
      None fields, derivation from real config dicts over all subsets and byte widths 1..4, unparsable and lenient
      texts.  Every event is judged by Trace_ConfigId (real widths), which computes PrintId / ParseId / Derive at
      character level."""
import os, re, itertools, concurrent.futures as cf

from ..common import SPEC, Scratch, rng, MachineryError, repo_on_path
from ..report import Report
from .. import tlc

MC = os.path.join(SPEC, "MC_ConfigId.tla")
TR = os.path.join(SPEC, "Trace_ConfigId.tla")
TR_CFG = "INIT Init\nNEXT Next\nCONSTANTS WC = 5\nWP = 4\nWD = 4\nWV = 2\nUNK = 9999\n"
KF_TYPEERR = "C12:str-device-unknown-TypeError"
KF_NUMERIC = "C12:name-looks-numeric-no-roundtrip"
KF_DEVPRJ0 = "C12:dev-settings-fallback-project-0"


def _mc_cfg(init, nxt, invs, full, nd=3, nt=4):
    return ("INIT %s\nNEXT %s\nCONSTANTS WC = 2\nWP = 1\nWD = 1\nWV = 1\nUNK = 9\nND = %d\nNT = %d\nFULL = %s\n"
            % (init, nxt, nd, nt, "TRUE" if full else "FALSE") + "".join("INVARIANT %s\n" % i for i in invs))


def _lib():
    repo_on_path()
    from bec2format.configid import ConfigId
    from ..bf3lib import Bf3File
    return ConfigId, Bf3File


def chars(s):
    return [ord(ch) for ch in s]


def _i(x):
    return -1 if x is None else int(x)


def _fields(o):
    return {"c": _i(o.customer), "p": _i(o.project), "d": _i(o.device), "v": _i(o.version),
            "hn": 0 if o.name is None else 1, "name": [] if o.name is None else chars(o.name)}


NOF = {"c": -1, "p": -1, "d": -1, "v": 0, "hn": 0, "name": []}


def _exc(e):
    return type(e).__name__, [k.__name__ for k in type(e).__mro__]


class Recorder:
    def __init__(self):
        self.ConfigId, self.Bf3File = _lib()
        self.evs, self.tid, self.last = [], 0, None

    def _tid(self):
        self.tid += 1
        return self.tid

    def rec_id(self, c, p, d, v, name):
        o = self.ConfigId(c, p, d, v, name)
        ev = {"tid": self._tid(), "op": "id",
              "a": {"c": _i(c), "p": _i(p), "d": _i(d), "v": _i(v), "hn": 0 if name is None else 1,
                    "name": [] if name is None else chars(name)},
              "f": _fields(o), "ds": 1 if o.is_device_settings else 0, "bs": 1 if o.is_baltech_naming_scheme else 0,
              "sk": "ok", "s": [], "scls": "", "smro": [], "pk": "skip", "g": NOF, "pcls": "", "pmro": []}
        try:
            s = str(o)
            ev["s"] = chars(s)
        except Exception as e:                                    # noqa: BLE001  (recorded, judged by TLC)
            ev["sk"] = "raise"
            ev["scls"], ev["smro"] = _exc(e)
            self.evs.append(ev)
            return ev
        try:
            g = self.ConfigId.create_from_str(s)
            ev["pk"], ev["g"] = "ok", _fields(g)
            ev["_eq"] = (g == o)
        except Exception as e:                                    # noqa: BLE001
            ev["pk"] = "raise"
            ev["pcls"], ev["pmro"] = _exc(e)
        self.evs.append(ev)
        return ev

    def rec_obj(self, o, how):
        """the object as it is NOW (after the caller assigned attributes): everything it prints / compares"""
        ev = {"tid": self._tid(), "op": "obj", "how": how, "f": _fields(o), "ds": 1 if o.is_device_settings else 0,
              "bs": 1 if o.is_baltech_naming_scheme else 0, "sk": "ok", "s": [], "scls": "", "ck": "ok", "cs": [],
              "pk": "skip", "g": NOF, "pcls": "", "pmro": [], "eq": 1}
        fresh = type(o)(None, None, None, None, None)      # (through the constructor: the fields may be properties over private storage)
        for a in ("customer", "project", "device", "version", "name"):
            setattr(fresh, a, getattr(o, a))
        try:
            if not (o == fresh and fresh == o and not (o != fresh) and repr(o) == repr(fresh)):
                ev["eq"] = 0
        except Exception:                                         # noqa: BLE001
            ev["eq"] = 0
        try:
            cs = o.cfgid_str
            if cs is None:
                ev["ck"] = "none"
            else:
                ev["cs"] = chars(cs)
        except Exception:                                         # noqa: BLE001
            ev["ck"] = "raise"
        try:
            s = str(o)
            ev["s"] = chars(s)
        except Exception as e:                                    # noqa: BLE001
            ev["sk"], ev["scls"] = "raise", type(e).__name__
            self.evs.append(ev)
            return ev
        try:
            ev["pk"], ev["g"] = "ok", _fields(self.ConfigId.create_from_str(s))
        except Exception as e:                                    # noqa: BLE001
            ev["pk"] = "raise"
            ev["pcls"], ev["pmro"] = _exc(e)
        self.evs.append(ev)
        return ev

    def rec_parse(self, text):
        ev = {"tid": self._tid(), "op": "parse", "text": chars(text), "k": "ok", "f": NOF, "cls": "", "mro": [],
              "rk": "skip", "r": [], "rcls": ""}
        self.last = None
        try:
            o = self.ConfigId.create_from_str(text)
            self.last = o                                         # (histories edit the object the caller received)
            ev["f"] = _fields(o)
        except Exception as e:                                    # noqa: BLE001
            ev["k"] = "raise"
            ev["cls"], ev["mro"] = _exc(e)
            self.evs.append(ev)
            return ev
        try:
            ev["r"], ev["rk"] = chars(str(o)), "ok"
        except Exception as e:                                    # noqa: BLE001
            ev["rk"], ev["rcls"] = "raise", type(e).__name__
        self.evs.append(ev)
        return ev

    def rec_derive(self, which, vals, noise):
        """vals: {value id: bytes} for the present naming values of key 0x0620"""
        cfg = {(0x0620, vid): b for vid, b in vals.items()}
        cfg.update(noise)
        ev = {"tid": self._tid(), "op": "derive", "which": which,
              "vals": [{"has": 1 if v in vals else 0, "b": list(vals.get(v, b""))} for v in range(1, 8)],
              "k": "ok", "f": NOF, "cls": "", "mro": [], "ck": "unset", "ctext": [], "ccls": ""}
        fn = self.ConfigId.create_from_prj_settings if which == "prj" else self.ConfigId.create_from_dev_settings
        self.last = None
        try:
            self.last = fn(dict(cfg))
            ev["f"] = _fields(self.last)
        except Exception as e:                                    # noqa: BLE001
            ev["k"] = "raise"
            ev["cls"], ev["mro"] = _exc(e)
        # the user of the identifier: Bf3File.derive_comments_from_config
        f = self.Bf3File({"Configuration": "stale", "DeviceSettings": "stale"}, [])
        try:
            f.derive_comments_from_config(dict(cfg))
            key = "Configuration" if which == "prj" else "DeviceSettings"
            if key in f.comments:
                ev["ck"], ev["ctext"] = "set", chars(f.comments[key])
        except Exception as e:                                    # noqa: BLE001
            ev["ck"], ev["ccls"] = "raise", type(e).__name__
        self.evs.append(ev)
        return ev


NAMES = [
    "x", "Reader 7", " lead", "trail ", "  ", "a (version 12)", "(version 12)", " (version 07)", "a (version 12) b",
    "a (version 12) (version 13)", "x (version 1)", "x (version 123)", "x (version ab)", "x (Version 12)", "x(version 12)",
    "12345-0001-0002-03", "12345-0001-0002-03 tail", "12345-0001-0002-03x", "00000-0000-0000-00", "09999-9999-9999-99",
    "99999-9999-0000-99 (version 12)", "1234-0001-0002-03", "12345-0001-0002-3", "123456-0001-0002-03", "12345_0001_0002_03",
    " 12345-0001-0002-03", "12345-0001-0002-03\t", "-", "0", "99", "12345", "12345-", "1-2-3-4", "----", "((()))",
    "ünïcödé ✓", "名前", "１２３４５-0001-0002-03",
    "١٢٣٤٥-٠٠٠١-0002-03 z", "x (version ١٢)", "tab\there", "cr\rhere",
    "ff\x0chere", "nel\x85here", "ls here", "a\nb", "a\n (version 12)", "\nx", "x\n", "", "\U0001F600 smile",
]
ALPHA = list("0123456789") * 2 + list("-- ()") + list("versionVxyzAB") + ["(version ", " (version 12)", "12345-0001-0002-03",
                                                                        "ä", "€", "１", "\t"]


def rand_name(r):
    return "".join(r.choice(ALPHA) for _ in range(r.choice([1, 2, 3, 5, 8, 20])))


UNPARSABLE = [
    "", " ", "x", "12345", "1234-0001-0002-03", "12345-001-0002-03", "12345-0001-002-03", "12345-0001-0002-3",
    "12345 0001 0002 03", "12345-0001-0002_03", "a12345-0001-0002-03", " 12345-0001-0002-03", "x (version 1)", "x (version 1 )",
    "x (version123)", "x (version ab)", "x (Version 12)", "x(version 12)", "x (version 12", "x version 12)", "x (version  12)",
    "x\n (version 12)", "x \n(version 12)", "\n12345-0001-0002-03", "(version 12)", "name only", "12345-0001-0002-0x (v 12)",
    "123456-0001-0002-03", "12345--0001-0002-03", "x (version -1)", "x (ver 12)",
]
LENIENT = [   # parsable by the prefix patterns although not canonical (recorded and judged against ParseId)
    "12345-0001-0002-03x", "12345-0001-0002-03\nrest", "12345-0001-0002-03 name\nmore", "12345-0001-0002-03 ", "12345-0001-0002-031",
    "abc (version 12)zzz", "abc (version 12)\nzzz", "abc (version 12) (version 1)", " (version 12)", "abc (version 123) (version 45)6",
    "09999-0001-0002-03", "09999-0001-0002-03 named", "12345-9999-0002-03", "12345-0001-9999-03", "12345-0001-9999-03 n",
    "12345-0001-0000-03", "１２３４５-0001-0002-03", "x (version ١٢)", "12345-0001-0002-03  two",
    "12345-0001-0002-03 (version 04)", "00000-0000-0000-00", "99999-9998-9998-99 z",
]


def _int_bytes(r, val, maxw=4):
    """big-endian encoding of val in a random width 1..4 that can hold it"""
    need = max(1, (val.bit_length() + 7) // 8)
    return val.to_bytes(r.randrange(need, maxw + 1), "big")


def gen_events(rec, r, thorough):
    sel = (lambda rng_, frac: rng_) if thorough else (lambda rng_, frac: r.sample(list(rng_), max(1, int(len(rng_) * frac))))
    # ---- each numeric range, the others fixed at a few values
    fixed = [(1, 2, 3, None), (4711, 0, 7, "Office")]
    for c in sel(range(100000), 0.05):
        if c != 9999:
            rec.rec_id(c, 17, 3, 5, None)
    for c in sel(range(100000), 0.01):
        if c != 9999:
            rec.rec_id(c, 0, 0, 99, "n " + str(c))
    for p in sel(range(10000), 0.15):
        for (c, d, v, nm) in fixed:
            rec.rec_id(c, p, d, v, nm)
    for d in sel(range(10000), 0.15):
        for (c, p, v, nm) in fixed:
            rec.rec_id(c, p, d, v, nm)
    for v in range(100):
        for (c, p, d, nm) in fixed + [(99999, 9998, 9998, "z"), (0, 0, 0, None)]:
            rec.rec_id(c, p, d, v, nm)
        rec.rec_id(None, None, None, v, "Name only")
    n_numeric = len(rec.evs)
    # ---- the unknown code and None in every position
    for c, p, d in itertools.product([None, 9999, 0, 12345], [None, 9999, 0, 42], [None, 9999, 0, 42]):
        for nm in (None, "nm"):
            rec.rec_id(c, p, d, 7, nm)
    # ---- adversarial names, in both forms
    names = NAMES + [rand_name(r) for _ in range(3000 if thorough else 400)]
    for nm in names:
        rec.rec_id(None, None, None, r.choice([0, 5, 12, 99]), nm)
        rec.rec_id(r.choice([0, 1, 12345, 99999]), r.choice([0, 1, 9998, None]), r.choice([0, 1, 9998]), r.choice([0, 3, 99]), nm)
    # out-of-range numbers (not in the domain; str / parse still have to agree with the spec where defined)
    for c, p, d, v in [(100000, 1, 1, 1), (1, 10000, 1, 1), (1, 1, 10000, 1), (1, 1, 1, 100), (123456, 12345, 12345, 123)]:
        rec.rec_id(c, p, d, v, None)
    n_ids = len(rec.evs)
    # ---- texts
    for t in UNPARSABLE + LENIENT:
        rec.rec_parse(t)
    for _ in range(4000 if thorough else 500):
        m = r.random()
        if m < 0.35:       # canonical numeric, with or without name
            t = "%05d-%04d-%04d-%02d" % (r.randrange(100000), r.randrange(10000), r.randrange(10000), r.randrange(100))
            if r.random() < 0.5:
                t += " " + rand_name(r)
        elif m < 0.6:      # canonical name-only
            t = rand_name(r) + " (version %02d)" % r.randrange(100)
        elif m < 0.8:      # damaged canonical
            t = "%05d-%04d-%04d-%02d %s" % (r.randrange(100000), r.randrange(10000), r.randrange(10000), r.randrange(100), rand_name(r))
            k = r.randrange(len(t))
            t = r.choice([t[:k] + t[k + 1:], t[:k] + r.choice("x- 9(") + t[k:], t[:k] + r.choice("x- 9)") + t[k + 1:], t[:k]])
        else:
            t = rand_name(r)
        rec.rec_parse(t)
    n_parse = len(rec.evs) - n_ids
    # ---- derivation: every subset of the 7 naming values, both kinds, widths 1..4
    dnames = [b"x", b"Door 1", b"", b"12345-0001-0002-03", b"a (version 12)", b"12345-0001-0002-03 (version 04)", b" "]
    for which in ("prj", "dev"):
        for mask in range(128):
            for _ in range(12 if thorough else 3):
                vals = {}
                for vid in range(1, 8):
                    if not mask & (1 << (vid - 1)):
                        continue
                    if vid in (3, 6):
                        vals[vid] = r.choice(dnames)
                    else:
                        hi = {1: 99999, 2: 9999, 5: 9999, 4: 99, 7: 99}[vid]
                        val = r.choice([0, 1, hi, 9999, r.randrange(hi + 1), r.randrange(hi + 1), hi + 1, r.randrange(1 << 24)])
                        if vid in (4, 7) and val == 9999:
                            val = r.randrange(100)
                        vals[vid] = _int_bytes(r, val)
                noise = {(0x0202, 0x82): b"\x01\x02", (0x0620, 0x20): b"\x01"} if r.random() < 0.3 else {}
                rec.rec_derive(which, vals, noise)
    # ---- derivation histories in one process: the same configurations in every order, both kinds in both orders
    #      (a derivation must depend on its own configuration only)
    A = {1: b"\x4f\x79", 2: b"\x1a\x85", 3: b"Dev A", 4: b"\x02", 5: b"\x04\x57", 6: b"Prj A", 7: b"\x03"}
    Bc = {1: b"\x00\x01\x86\x9f", 4: b"\x00\x07", 5: b"\x00\x01", 6: b"Other", 7: b"\x09"}           # no device value
    C = {2: b"\x00\x2a", 3: b"Only name", 4: b"\x05", 6: b"Only name", 7: b"\x05"}                        # no customer
    D = {1: b"\x01", 2: b"\x02", 5: b"\x03"}                                                            # no versions
    for k, perm in enumerate(itertools.permutations([A, Bc, C, D])):
        for vals in perm:
            for which in (("prj", "dev") if k % 2 == 0 else ("dev", "prj")):
                rec.rec_derive(which, dict(vals), {})
    n_derive = len(rec.evs) - n_ids - n_parse
    # ---- histories on returned identifiers: the caller owns the object it got; editing it must not show in a later
    #      parse of an equal text / derivation from an equal configuration (each call is an ordinary event)
    n_before = len(rec.evs)

    def edit(o):
        if o is not None:
            o.version = (o.version or 0) + 1
            o.name = "edited by the caller"
            o.customer, o.project, o.device = 4242, 17, 99

    texts = ["12345-0001-0002-03", "12345-0001-0002-03 Office", "00007-0000-0000-00", "54321-9999-0000-99 n", "Door (version 07)",
             "a (version 12) (version 13)", "12345-0001-0002-03x", "abc (version 12)zzz", "unparsable", "x (version 1)"]
    texts += ["%05d-%04d-%04d-%02d" % (r.randrange(100000), r.randrange(9999), r.randrange(9999), r.randrange(100)) for _ in range(10)]
    for t in texts:
        rec.rec_parse(t)
        edit(rec.last)
        rec.rec_parse(t)                                          # the same str object
        edit(rec.last)
        rec.rec_parse("".join(list(t)))                           # an equal str, another object
        rec.rec_parse(t + " tail")
        rec.rec_parse(t)
    for vals in (A, Bc, C):
        for which in ("prj", "dev", "prj"):
            rec.rec_derive(which, dict(vals), {})
            edit(rec.last)
            rec.rec_derive(which, dict(vals), {})                 # an equal configuration, another dict object
    n_obj_hist = len(rec.evs) - n_before
    # ---- names RELATED to the identifier's own fields: construct -> print -> parse, and configuration -> comment
    n_before = len(rec.evs)
    for (c, p, d, v) in [(1, 2, 3, 4), (12345, 17, 0, 5), (99999, 9998, 9998, 99), (0, 0, 0, 0), (4711, 0, 815, 7),
                         (r.randrange(100000), r.randrange(9999), r.randrange(9999), r.randrange(100))]:
        if c == 9999:
            c = 1
        for prj in (True, False):
            pp = p if prj else 0                                  # a device-settings identifier has project 0000
            head = "%05d-%04d-%04d-%02d" % (c, pp, d, v)
            other = "%05d-%04d-%04d-%02d" % (c, pp, d, (v + 1) % 100)
            related = [head, head + " Reader A", head + "x", head + " " + head, head + "  two", other, other + " Reader A", head[:17],
                       head[:-1], " " + head, head + " (version %02d)" % v, "Reader (version %02d)" % v, "(version %02d)" % v,
                       "Reader A (version %02d) x" % v, str(rec.ConfigId(c, pp, d, v, "Reader A")), str(rec.ConfigId(c, pp, d, v, None)) + " ",
                       "%05d" % c, "%05d-%04d" % (c, pp), str(rec.ConfigId(None, None, None, v, "Reader A"))]
            for nm in related:
                rec.rec_id(c, pp, d, v, nm)
                rec.rec_id(None, None, None, v, nm)
                vals = {1: _int_bytes(r, c), 2: _int_bytes(r, d), (6 if prj else 3): nm.encode(), (7 if prj else 4): _int_bytes(r, v)}
                if prj:
                    vals[5] = _int_bytes(r, pp)
                rec.rec_derive("prj" if prj else "dev", vals, {})
    n_related = len(rec.evs) - n_before
    # ---- names whose first / last / only character is one that codecs and str methods treat specially, and names
    #      that are not UTF-8 at all; through the configuration (bytes -> name -> comment) and construct -> print -> parse
    n_before = len(rec.evs)
    special = ["\ufeff", "\u200b", "\u00a0", "\u2028", "\u2029", "\u0085", "\x1c", "\x1d", "\x1e", "\x1f", "\x0b", "\x0c", "\r", "\t", " ",
               "\U0001F600", "\U00010000", "\U0010FFFF", "\u0301", "\u20dd", "\ufffd", "\ufffe", "\x00", "\x7f", "\u00ad", "\u202e"]
    for k, ch in enumerate(special):
        for nm in (ch, ch + "Name", "Name" + ch, ch + ch, ch + "Name" + ch, "Na" + ch + "me"):
            rec.rec_id(r.choice([1, 12345]), 2, 3, 4, nm)
            rec.rec_id(None, None, None, 4, nm)
            for which in ("prj", "dev"):
                vals = {(6 if which == "prj" else 3): nm.encode("utf-8"), (7 if which == "prj" else 4): b"\x04"}
                if (k + len(nm)) % 2:                             # numeric scheme complete / name-only fallback
                    vals.update({1: b"\x30\x39", 5: b"\x02", 2: b"\x03"})
                rec.rec_derive(which, vals, {})
    undecodable = [b"\xff", b"\xfe\xff", b"\xc3", b"ab\x80", b"\xed\xa0\x80", b"\xc0\x80", b"\xe0\x80\x80", b"\xf4\x90\x80\x80",
                   b"\xef\xbb", b"\xef\xbb\xbf\xff", b"Name\xe2\x82", b"\xf5\x80\x80\x80", b"\xff\xfeN\x00"]
    signature = [b"\xef\xbb\xbf", b"\xef\xbb\xbfName", b"\xef\xbb\xbf\xef\xbb\xbfName", b"\xef\xbb\xbf ", b"Name\xef\xbb\xbf"]
    for nb in undecodable + signature:
        for which in ("prj", "dev"):
            for scheme in (True, False):
                vals = {(6 if which == "prj" else 3): nb, (7 if which == "prj" else 4): b"\x04"}
                if scheme:
                    vals.update({1: b"\x30\x39", 5: b"\x02"})
                rec.rec_derive(which, vals, {})
                mine, others, over = (6, 3, 4) if which == "prj" else (3, 6, 7)
                # the undecodable name belongs to the OTHER kind (whose version is present): this kind's identifier is fine
                rec.rec_derive(which, {**vals, mine: b"ok", others: nb, over: b"\x05"}, {})
    n_special = len(rec.evs) - n_before
    # ---- attribute-assignment histories: construct / parse / derive, print, assign each public attribute (new value, None,
    #      9999, the value it has), print and compare again: every print is judged against the CURRENT attribute values
    n_before = len(rec.evs)
    cfgA = {(0x0620, vid): b for vid, b in A.items()}
    sources = [("ConfigId(1, 2, 3, 4, 'Reader A')", lambda: rec.ConfigId(1, 2, 3, 4, "Reader A")),
               ("ConfigId(12345, 17, 0, 5, None)", lambda: rec.ConfigId(12345, 17, 0, 5, None)),
               ("ConfigId(4711, 9999, 815, 99, 'x')", lambda: rec.ConfigId(4711, 9999, 815, 99, "x")),
               ("ConfigId(None, None, None, 7, 'Door')", lambda: rec.ConfigId(None, None, None, 7, "Door")),
               ("create_from_str('54321-0001-0002-03 Office')", lambda: rec.ConfigId.create_from_str("54321-0001-0002-03 Office")),
               ("create_from_str('Door (version 07)')", lambda: rec.ConfigId.create_from_str("Door (version 07)")),
               ("create_from_prj_settings", lambda: rec.ConfigId.create_from_prj_settings(dict(cfgA))),
               ("create_from_dev_settings", lambda: rec.ConfigId.create_from_dev_settings(dict(cfgA)))]
    for how, make in sources:
        for order in (("customer", "project", "device", "version", "name"), ("name", "version", "device", "project", "customer")):
            o = make()
            rec.rec_obj(o, how)
            for attr in order:
                orig = getattr(o, attr)
                if attr == "name":
                    values = ["New name", None, "", "12345-0001-0002-03", orig]
                elif attr == "version":
                    values = [((orig or 0) + 1) % 100, 0, 99, None, orig]
                else:
                    values = [((orig or 0) + 1) % 9999, None, 9999, 0, orig]
                for val in values:
                    setattr(o, attr, val)
                    rec.rec_obj(o, "%s, then %s = %r" % (how, attr, val))
    n_assign = len(rec.evs) - n_before
    return {"numeric_range_ids": n_numeric, "id_events": n_ids, "parse_events": n_parse, "derive_events": n_derive,
            "returned_object_history_events": n_obj_hist, "names_related_to_own_fields_events": n_related,
            "special_character_and_undecodable_name_events": n_special, "attribute_assignment_history_events": n_assign}


_HEAD = re.compile(r"\d{5}-\d{4}-\d{4}-\d{2}")


def _key_for(clause, ev):
    if ev["op"] in ("id", "obj"):
        f = ev["f"]
        if clause == "str-raised" and ev["scls"] == "TypeError" and f["c"] != -1 and f["d"] == -1:
            return KF_TYPEERR
        if clause == "roundtrip-differs" and f["c"] == -1 and f["hn"] == 1 and _HEAD.match("".join(map(chr, f["name"]))):
            return KF_NUMERIC
    if ev["op"] == "parse":
        f = ev["f"]
        if clause == "reprint-raised" and ev["rcls"] == "TypeError" and f["c"] != -1 and f["d"] == -1:
            return KF_TYPEERR
    if ev["op"] == "derive":
        if clause == "derive-fields" and ev["which"] == "dev" and ev["vals"][0]["has"] == 0 and ev["f"]["p"] == 0 and ev["f"]["c"] == -1:
            return KF_DEVPRJ0
        dev = ev["vals"][1]
        if clause == "comment-raised" and ev["ccls"] == "TypeError" and ev["vals"][0]["has"] and dev["has"] \
                and int.from_bytes(bytes(dev["b"]), "big") == 9999:
            return KF_TYPEERR
    return "C12:" + clause


def _show(ev):
    def ident(f):
        return "ConfigId(%s, %s, %s, %s, %s)" % tuple(
            [None if f[k] == -1 else f[k] for k in "cpdv"] + [repr("".join(map(chr, f["name"]))) if f["hn"] else None])
    if ev["op"] == "id":
        s = "constructed %s" % ident(ev["a"])
        s += (" str() raised " + ev["scls"]) if ev["sk"] == "raise" else " str() = %r" % "".join(map(chr, ev["s"]))
        if ev["pk"] == "ok":
            s += " create_from_str -> " + ident(ev["g"])
        elif ev["pk"] == "raise":
            s += " create_from_str raised " + ev["pcls"]
        return s
    if ev["op"] == "obj":
        s = "%s: object now %s" % (ev["how"], ident(ev["f"]))
        s += (" str() raised " + ev["scls"]) if ev["sk"] == "raise" else " str() = %r" % "".join(map(chr, ev["s"]))
        s += " cfgid_str = %s" % (repr("".join(map(chr, ev["cs"]))) if ev["ck"] == "ok" else ev["ck"])
        if ev["pk"] == "ok":
            s += " create_from_str -> " + ident(ev["g"])
        return s
    if ev["op"] == "parse":
        s = "create_from_str(%r)" % "".join(map(chr, ev["text"]))
        s += (" raised " + ev["cls"]) if ev["k"] == "raise" else " -> " + ident(ev["f"])
        if ev["rk"] == "raise":
            s += ", str() of it raised " + ev["rcls"]
        elif ev["rk"] == "ok":
            s += ", str() = %r" % "".join(map(chr, ev["r"]))
        return s
    vals = {i + 1: bytes(c["b"]).hex() for i, c in enumerate(ev["vals"]) if c["has"]}
    s = "create_from_%s_settings(0x0620 values %r)" % (ev["which"], vals)
    s += (" raised " + ev["cls"]) if ev["k"] == "raise" else " -> " + ident(ev["f"])
    if ev["ck"] == "raise":
        s += "; derive_comments_from_config raised " + ev["ccls"]
    return s


def run(tier):
    rep = Report("C12", tier)
    r = rng("c12")
    thorough = tier == "thorough"
    with Scratch("c12") as wd:
        # ---------------- MC on the reduced instance (three case spaces) + the expected refutation
        jobs = {
            "ids": ("InitId", "NextId", ["RoundTrip", "AmbiguityIsGenuine", "SentinelPrinted"], 10 if thorough else 8),
            "texts": ("InitText", "NextText", ["CanonRoundTrip", "ParseSound"], 4),
            "derive": ("InitDerive", "NextDerive", ["DeriveCases", "DerivedRoundTrip"], 2),
            "ambig": ("InitId", "NextId", ["RoundTripAllNames"], 2),
            "wrong": ("InitId", "NextId", ["WrongVariantNonGreedy"], 2),
        }
        nt = 5 if thorough else 4
        nd = 4 if thorough else 3

        def mc(name):
            init, nxt, invs, workers = jobs[name]
            return name, tlc.run(MC, _mc_cfg(init, nxt, invs, thorough, nd=nd, nt=nt),
                                 os.path.join(wd, "mc_" + name), workers=workers, timeout=1700)

        with cf.ThreadPoolExecutor(5) as ex:
            results = dict(ex.map(mc, list(jobs)))
        consts = {"widths": "2-1-1-1", "UNK": 9, "name_tokens_max": nd, "text_tokens_max": nt, "all_project_device_values": thorough}
        for name, label in (("ids", "MC_ConfigId identifiers (ParseId(PrintId(i)) = i, PrintId canonical, exclusion exact)"),
                            ("texts", "MC_ConfigId texts (PrintId(ParseId(t)) = t for canonical t, ParseId sound)"),
                            ("derive", "MC_ConfigId derivation (all subsets of the naming values, errors, fallback, round trip)")):
            rep.add_mc(label, tlc.require_ok(results[name], "MC_ConfigId/" + name), dict(consts, invariants=jobs[name][2]))
        amb = results["ambig"]
        if "RoundTripAllNames" not in amb.violated:
            raise MachineryError("self-test: the unrestricted round trip (ambiguous names included) was not refuted by TLC:\n"
                                 + amb.clean()[-1500:])
        cex = amb.trace()[-1][1].get("x")
        cex_name = "".join(chr(ch) for ch in cex["n"]["s"]) if isinstance(cex, dict) else "?"
        wrong = results["wrong"]
        if "WrongVariantNonGreedy" not in wrong.violated:
            raise MachineryError("self-test: the non-greedy name pattern (wrong variant) was not refuted by TLC:\n"
                                 + wrong.clean()[-1500:])
        wx = wrong.trace()[-1][1].get("x")
        wname = "".join(chr(ch) for ch in wx["n"]["s"]) if isinstance(wx, dict) else "?"
        rep.cov["parts"]["selftest-model"] = {
            "RoundTripAllNames": "refuted by TLC: name-only identifier named %r prints a text the numeric pattern claims" % cex_name,
            "WrongVariantNonGreedy": "refuted by TLC on the name %r" % wname}
        # ---------------- C->S
        rec = Recorder()
        counts = gen_events(rec, r, thorough)
        n_real = len(rec.evs)
        # binding self-test: corrupted canaries
        canaries = {}

        def canary(tag, ev, **chg):
            ev = dict(ev, **chg)
            ev["tid"] = rec._tid()
            canaries[ev["tid"]] = tag
            rec.evs.append(ev)

        gi = next(e for e in rec.evs if e["op"] == "id" and e["sk"] == "ok" and e["pk"] == "ok" and e.get("_eq") and e["f"]["c"] > 9999)
        s2 = list(gi["s"]); s2[4] = 48 + (s2[4] - 48 + 1) % 10
        canary("str digit changed", gi, s=s2)
        canary("parsed device changed", gi, g=dict(gi["g"], d=(gi["g"]["d"] + 1) % 9999))
        canary("unknown code not mapped", gi, a=dict(gi["a"], p=9999))
        gp = next(e for e in rec.evs if e["op"] == "parse" and e["k"] == "raise")
        canary("unparsable text accepted", gp, k="ok", rk="ok", r=gp["text"])
        canary("unparsable text wrong exception", gp, mro=["ValueError", "Exception", "BaseException", "object"], cls="ValueError")
        gq = next(e for e in rec.evs if e["op"] == "parse" and e["k"] == "ok" and e["rk"] == "ok" and e["f"]["hn"] == 1 and e["f"]["c"] == -1)
        canary("parsed name changed", gq, f=dict(gq["f"], name=gq["f"]["name"] + [33]))
        gd = next(e for e in rec.evs if e["op"] == "derive" and e["k"] == "ok" and e["f"]["c"] != -1)
        canary("derived version changed", gd, f=dict(gd["f"], v=gd["f"]["v"] + 1))
        ge = next(e for e in rec.evs if e["op"] == "derive" and e["k"] == "raise" and e["which"] == "prj")
        canary("wrong missing-error class", ge, cls="MissingDeviceSettingsNameError",
               mro=["MissingDeviceSettingsNameError"] + ge["mro"][1:])
        for e in rec.evs:
            e["_cost"] = 1
        rej, st = tlc.validate_trace(TR, TR_CFG, rec.evs, os.path.join(wd, "tr"), shards=16, timeout=1700)
        rejd = {}
        for x in rej:
            rejd.setdefault(x[1], x[2])
        for tid, tag in canaries.items():
            if tid not in rejd:
                raise MachineryError("binding self-test: corrupted event (%s) was accepted by Trace_ConfigId" % tag)
        rep.cov["parts"]["selftest-binding"] = {"canaries rejected": {tag: rejd[t] for t, tag in canaries.items()}}
        byid = {e["tid"]: e for e in rec.evs}
        # Python's own == must agree with the field comparison TLC made
        for e in rec.evs:
            if e["op"] == "id" and e.get("_eq") is not None and e["tid"] not in canaries:
                if e["_eq"] != (e["g"] == e["f"]):
                    rep.violation("C12:eq-inconsistent", "ConfigId.__eq__ disagrees with field-wise equality: " + _show(e), e)
        for tid, clause in sorted(rejd.items()):
            if tid in canaries:
                continue
            ev = byid[tid]
            rep.violation(_key_for(clause, ev), "%s: specification verdict '%s'" % (_show(ev), clause),
                          {k: v for k, v in ev.items() if not k.startswith("_")})
        rep.add_trace("Trace_ConfigId (real ConfigId calls judged by PrintId / ParseId / Derive at character level)", st, n_real,
                      extra=dict(counts, canaries=len(canaries), numeric_ranges_exhaustive=thorough,
                                 rejected_real_events=len([t for t in rejd if t not in canaries])))
        for e in (rec.evs[0], rec.evs[counts["id_events"] - 20], rec.evs[counts["id_events"] + 3], rec.evs[n_real - 1]):
            rep.sample({k: v for k, v in e.items() if not k.startswith("_")})
    rep.cov["exhaustive"] = thorough
    rep.cov["explanation"] = ("reduced-width instance exhausted by TLC; real code: numeric ranges %s, names/texts/derivations sampled"
                              % ("enumerated completely" if thorough else "sampled (thorough tier enumerates them)"))
    rep.assumptions += [
        "patterns match a prefix of the text (re.match): text after a complete numeric identifier or after ')' is ignored; "
        "'unparsable' = neither pattern matches a prefix",
        "\\d / int() digit classes modelled: ASCII, Arabic-Indic, Extended Arabic-Indic, Devanagari, Fullwidth (the harness uses no others)",
        "an unknown device (9999 -> None) prints as 9999, like an unknown project",
        "naming-value names in derivation events are ASCII (bytes = characters); integers < 2^31",
        "round-trip domain: numeric identifiers with customer != 9999 and absent or non-empty single-line name; name-only "
        "identifiers with customer = project = device = None and non-empty single-line name (names that begin like a "
        "numeric identifier are IN the domain and are reported as a finding)",
    ]
    return rep


def replay(path):
    """bin/check C12 --replay <file>: re-run the recorded call on the real code, let TLC judge the new event."""
    import json
    ev0 = json.load(open(path))["data"]
    rec = Recorder()

    def arg(a):
        return [None if a[k] == -1 else a[k] for k in "cpdv"] + ["".join(map(chr, a["name"])) if a["hn"] else None]
    if ev0["op"] == "id":
        rec.rec_id(*arg(ev0["a"]))
    elif ev0["op"] == "parse":
        rec.rec_parse("".join(map(chr, ev0["text"])))
    else:
        rec.rec_derive(ev0["which"], {i + 1: bytes(c["b"]) for i, c in enumerate(ev0["vals"]) if c["has"]}, {})
    with Scratch("c12r") as wd:
        rej, _ = tlc.validate_trace(TR, TR_CFG, rec.evs, wd, shards=1)
    for x in rej:
        print("REJECTED %s: %s" % (x[2], _show(rec.evs[0])))
    if not rej:
        print("accepted: %s" % _show(rec.evs[0]))
    return 1 if rej else 0
