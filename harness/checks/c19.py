"""C19: key and point encodings round-trip and are byte-compatible with OpenSSL.

MC (TLC, exhaustive on bounded instances)
  MC_DER       all byte strings over a small alphabet up to length N: valid DER is prefix-free
               (no truncation / extension of a valid value is valid), canonical (re-encoding the
               decoded tree gives the same bytes = minimal length forms), decoder total.
  MC_DERTrees  bounded TLV trees incl. long length forms: round trip, truncations, extensions;
               all length-octet forms: accepted <=> the unique minimal form.
  MC_KeyEnc    27-byte P-256 header lemma, header uniqueness, header per curve; toy keys in all
               shapes: parser fields, truncations, extensions, every single-byte mutant is judged.
  self-tests   decoder that ignores trailing bytes / wrong header constant must be refuted.
C->S (Trace_DER / Trace_KeyEnc)
  der.py primitives; library encodings of all 17 curves x SPKI/SEC1/PKCS#8 x named/explicit x
  uncompressed/compressed/hybrid, point and scalar strings, PEM: bytes computed (named) or
  structurally validated (explicit) by TLC, library round trip; openssl re-encodes the library's
  bytes; the library decodes openssl's bytes; bec2format's raw<->DER header through the real
  PublicEccKeyProxy; every truncation / extension / single-byte mutation through the six decoders.
The harness holds no model: expected bytes and verdicts come from TLC, openssl supplies the other side."""
import os, re, shutil, signal, subprocess, base64, traceback, random, multiprocessing as mp
import concurrent.futures as cf

from ..common import SPEC, Scratch, rng, seed as _seed, MachineryError
from ..report import Report
from .. import tlc

CFG = "INIT Init\nNEXT Next\n"
FORMS = ("uncompressed", "compressed", "hybrid")
CPES = ("named_curve", "explicit")
DOCUMENTED = ("UnexpectedDER", "MalformedPointError", "UnknownCurveError", "ValueError")
# SigningKey.to_der leaves the generator of explicit parameters uncompressed and from_der ignores the [1] public key,
# so the three point forms of a private key with explicit parameters differ only in bytes the decoder never reads:
# one form per container is damaged (the others cost ~25 ms per accepted mutant on the 512/521-bit curves);
# the thorough tier damages all forms on the curves up to 256 bits
SKIP_DAMAGE = ("sec1/explicit/compressed", "sec1/explicit/hybrid", "pkcs8/explicit/uncompressed", "pkcs8/explicit/hybrid")
CPU_LIMIT_S = 120           # CPU seconds (ITIMER_VIRTUAL, not wall clock) for one decoder call


# ------------------------------------------------------------------ library access
def _lib():
    from register_crypto_plugin import ecdsa
    from register_crypto_plugin.ecdsa import SigningKey, VerifyingKey, der, curves
    return ecdsa, SigningKey, VerifyingKey, der, curves


def _ws_curves():
    curves = _lib()[4]
    return [c for c in curves.curves if not c.name.startswith("Ed")]


def _curve(name):
    for c in _ws_curves():
        if c.name == name:
            return c
    raise KeyError(name)


def _flen(c):
    return (c.curve.p().bit_length() + 7) // 8


def _raw_of_vk(vk):
    """X||Y from the point's integers (not through the library's own encoders)."""
    L = _flen(vk.curve)
    pt = vk.pubkey.point
    return int(pt.x()).to_bytes(L, "big") + int(pt.y()).to_bytes(L, "big")


def _priv_of_sk(sk):
    return int(sk.privkey.secret_multiplier).to_bytes(sk.curve.baselen, "big")


def _mk_sk(cname, d):
    SigningKey = _lib()[1]
    return SigningKey.from_secret_exponent(d, _curve(cname))


# ------------------------------------------------------------------ openssl, batched
class Ossl:
    """Collects openssl invocations, runs them from 16 shell scripts in parallel."""

    def __init__(self, wd):
        self.exe = shutil.which("openssl")
        if not self.exe:
            raise MachineryError("openssl CLI not found")
        self.wd = os.path.join(wd, "ossl")
        os.makedirs(self.wd, exist_ok=True)
        self.jobs, self.res, self.total, self.round = [], {}, 0, 0

    def add(self, args, data=None, infile=None):
        """args: list; '@in' is replaced by the input file. Output = stdout. Returns job id."""
        jid = len(self.res) + len(self.jobs)
        if data is not None:
            infile = os.path.join(self.wd, "i%d" % jid)
            with open(infile, "wb") as f:
                f.write(data)
        self.jobs.append((jid, [infile if a == "@in" else a for a in args]))
        return jid

    def outfile(self, jid):
        return os.path.join(self.wd, "o%d" % jid)

    def run(self, nproc=16):
        if not self.jobs:
            return
        self.round += 1
        scripts = []
        for k in range(nproc):
            part = self.jobs[k::nproc]
            if not part:
                continue
            sp = os.path.join(self.wd, "r%d_%d.sh" % (self.round, k))
            with open(sp, "w") as f:
                for jid, args in part:
                    cmd = " ".join("'%s'" % a for a in [self.exe] + args)
                    f.write("%s > '%s' 2> '%s.e'; echo %d $? >> '%s.st'\n" % (cmd, self.outfile(jid), self.outfile(jid), jid, sp))
            scripts.append(sp)
        env = dict(os.environ)
        env.pop("OPENSSL_CONF", None)
        procs = [subprocess.Popen(["/bin/sh", sp], env=env, stdin=subprocess.DEVNULL) for sp in scripts]
        for p in procs:
            try:
                p.wait(timeout=900)
            except subprocess.TimeoutExpired:
                p.kill()
                raise MachineryError("openssl batch timed out")
        for sp in scripts:
            try:
                for ln in open(sp + ".st"):
                    jid, rc = ln.split()
                    jid = int(jid)
                    out = open(self.outfile(jid), "rb").read()
                    err = open(self.outfile(jid) + ".e", "r", errors="replace").read()
                    self.res[jid] = (int(rc), out, err)
            except OSError as e:
                raise MachineryError("openssl batch output missing: %s" % e)
        missing = [j for j, _ in self.jobs if j not in self.res]
        if missing:
            raise MachineryError("openssl batch: %d jobs produced no status" % len(missing))
        self.total += len(self.jobs)
        self.jobs = []

    def get(self, jid, must=False, what=""):
        rc, out, err = self.res[jid]
        if must and (rc != 0 or not out):
            raise MachineryError("openssl failed (%s): rc=%d %s" % (what, rc, err[:300]))
        return rc, out


def _unpem(pem):
    body = b"".join(l.strip() for l in pem.split(b"\n") if l and not l.startswith(b"-----"))
    return base64.b64decode(body, validate=True)


def _parse_text(txt, L, n):
    """priv / pub from `openssl ec -text -noout`."""
    def block(name):
        m = re.search(name + r":\s*\n((?:\s+[0-9a-f:]+\n)+)", txt)
        if not m:
            raise MachineryError("openssl -text: no %s block" % name)
        return bytes.fromhex(re.sub(r"[\s:]", "", m.group(1)))
    priv, pub = block("priv"), block("pub")
    if len(pub) != 2 * L + 1 or pub[0] != 4:
        raise MachineryError("openssl -text: unexpected pub block")
    return int.from_bytes(priv, "big").to_bytes(n, "big"), pub[1:]


# ------------------------------------------------------------------ key search (worker)
def _find_keys(a):
    cname, sd, nrand = a
    c = _curve(cname)
    r = random.Random(sd)
    n, L, nb = c.order, _flen(c), c.baselen
    out = [("random", r.randrange(1, n)) for _ in range(nrand)]
    out.append(("scalar-leading-zero", r.randrange(1, min(n, 256 ** (nb - 1)))))
    out += [("scalar-1", 1), ("scalar-2", 2), ("scalar-n-1", n - 1), ("scalar-n-2", n - 2)]
    lim = 256 ** (L - 1)
    need = {"x-leading-zero", "y-leading-zero"}
    k = r.randrange(1, n - 200000)
    P = c.generator * k
    G = c.generator
    for _ in range(100000):
        if not need:
            break
        P = P + G
        k += 1
        aff = P.to_affine()
        if "x-leading-zero" in need and aff.x() < lim:
            out.append(("x-leading-zero", k)); need.discard("x-leading-zero")
        elif "y-leading-zero" in need and aff.y() < lim:
            out.append(("y-leading-zero", k)); need.discard("y-leading-zero")
    if need:
        raise MachineryError("no key with %s found on %s" % (sorted(need), cname))
    return cname, out


# ------------------------------------------------------------------ library encodings (worker)
def _dec_result(fn):
    """Run a library decoder on a VALID encoding; -> (ok, dpub, dpriv, dcurve)."""
    try:
        k = fn()
    except Exception:
        return False, [], [], ""
    vk = getattr(k, "verifying_key", None) or k
    dpriv = list(_priv_of_sk(k)) if hasattr(k, "privkey") else []
    return True, list(_raw_of_vk(vk)), dpriv, vk.curve.openssl_name or vk.curve.name


def _record_curve(a):
    """All library encodings of the keys of one curve.  Returns (events, openssl job specs)."""
    cname, keys, npem = a
    ecdsa, SigningKey, VerifyingKey, der, curves = _lib()
    c = _curve(cname)
    on = c.openssl_name
    evs, jobs = [], []

    def ossl_job(kind, rel, enc, ref, args, post, tag):
        evs.append({"op": "ossl", "kind": kind, "curve": on, "rel": rel, "what": tag, "enc": list(enc), "ref": list(ref),
                    "ossl": None, "_cost": 2 + len(enc) // 40})
        jobs.append((len(evs) - 1, args, enc, post))

    for kname, d in keys:
        sk = SigningKey.from_secret_exponent(d, c)
        vk = sk.verifying_key
        pub, priv = _raw_of_vk(vk), _priv_of_sk(sk)
        base = {"curve": on, "key": kname, "pub": list(pub)}
        for cpe in CPES:
            for pe in FORMS:
                # SubjectPublicKeyInfo
                enc = vk.to_der(pe, cpe)
                ok, dpub, dpriv, dc = _dec_result(lambda: VerifyingKey.from_der(enc))
                evs.append(dict(base, op="enc", kind="spki", cpe=cpe, pe=pe, priv=[], enc=list(enc), dok=ok, dpub=dpub,
                                dpriv=dpriv, dcurve=dc, _cost=4 + len(enc) // 8))
                ossl_job("spki", "bytes", enc, enc, ["ec", "-pubin", "-inform", "DER", "-in", "@in", "-pubout", "-outform", "DER",
                                                     "-conv_form", pe, "-param_enc", cpe], "der", "VerifyingKey.to_der(%s,%s)" % (pe, cpe))
                for fmt, kind in (("ssleay", "sec1"), ("pkcs8", "pkcs8")):
                    enc = sk.to_der(pe, fmt, cpe)
                    ok, dpub, dpriv, dc = _dec_result(lambda: SigningKey.from_der(enc))
                    evs.append(dict(base, op="enc", kind=kind, cpe=cpe, pe=pe, priv=list(priv), enc=list(enc), dok=ok,
                                    dpub=dpub, dpriv=dpriv, dcurve=dc, _cost=4 + len(enc) // 8))
                    # SigningKey.to_der writes the generator of explicit parameters uncompressed whatever the
                    # form of the public key; openssl has one conversion form for both, so for explicit +
                    # compressed/hybrid it is asked for the uncompressed form and compared with the library's
                    ope = "uncompressed" if (cpe == "explicit" and pe != "uncompressed") else pe
                    ref = enc if ope == pe else sk.to_der(ope, fmt, cpe)
                    tag = "SigningKey.to_der(%s,%s,%s)" % (pe, fmt, cpe)
                    if kind == "sec1":
                        ossl_job(kind, "bytes", enc, ref, ["ec", "-inform", "DER", "-in", "@in", "-outform", "DER", "-conv_form", ope,
                                                           "-param_enc", cpe], "der", tag)
                    else:
                        ossl_job(kind, "pkcs8", enc, ref, ["pkey", "-inform", "DER", "-in", "@in", "-outform", "PEM", "-ec_conv_form", ope,
                                                           "-ec_param_enc", cpe], "pem2der", tag)
        # point and scalar strings
        for pe in ("raw",) + FORMS:
            enc = vk.to_string(pe)
            ok, dpub, _, dc = _dec_result(lambda: VerifyingKey.from_string(enc, curve=c))
            evs.append(dict(base, op="pt", pe=pe, enc=list(enc), dok=ok, dpub=dpub, _cost=2))
        enc = sk.to_string()
        ok, _, dpriv, dc = _dec_result(lambda: SigningKey.from_string(enc, curve=c))
        evs.append({"op": "pt", "curve": on, "key": kname, "pub": list(priv), "pe": "scalar", "enc": list(enc), "dok": ok,
                    "dpub": dpriv, "_cost": 2})
        # PEM
        for cpe, pe in (("named_curve", "uncompressed"), ("named_curve", "compressed"), ("explicit", "uncompressed"),
                        ("explicit", "hybrid"))[:npem]:
            for kind, fmt in (("spki", None), ("sec1", "ssleay"), ("pkcs8", "pkcs8")):
                if kind == "spki":
                    dr, pem = vk.to_der(pe, cpe), vk.to_pem(pe, cpe)
                    ok, dpub, dpriv, dc = _dec_result(lambda: VerifyingKey.from_pem(pem))
                    p = []
                else:
                    dr, pem = sk.to_der(pe, fmt, cpe), sk.to_pem(pe, fmt, cpe)
                    ok, dpub, dpriv, dc = _dec_result(lambda: SigningKey.from_pem(pem))
                    p = list(priv)
                evs.append(dict(base, op="pem", kind=kind, cpe=cpe, pe=pe, der=list(dr), pem=list(pem), priv=p, dok=ok, dpub=dpub,
                                dpriv=dpriv, _cost=4 + len(pem) // 6))
                if cpe == "named_curve" and pe == "uncompressed":
                    tag = "to_pem(%s)" % kind
                    if kind == "spki":
                        ossl_job("pem-spki", "bytes", pem, pem, ["ec", "-pubin", "-in", "@in", "-pubout"], "raw", tag)
                    elif kind == "sec1":
                        ossl_job("pem-sec1", "bytes", pem, pem, ["ec", "-in", "@in"], "raw", tag)
                    else:
                        ossl_job("pkcs8", "pkcs8", dr, dr, ["pkey", "-in", "@in"], "pem2der", tag)
                        jobs[-1] = (jobs[-1][0], jobs[-1][1], pem, "pem2der")      # openssl reads the PEM text
    return cname, evs, jobs



def _record_pub_curve(a):
    """Public keys given as constructed points (x, y) - value classes no scalar search reaches, see harness/c19points.py:
    every public encoding of the library, openssl's re-encoding of it, openssl's own six forms decoded by the library,
    openssl's validity check.  Returns (cname, points, events, fill jobs, decode jobs, check jobs)."""
    cname, npem = a
    ecdsa, SigningKey, VerifyingKey, der, curves = _lib()
    from register_crypto_plugin.ecdsa import ellipticcurve
    from .. import c19points
    c = _curve(cname)
    on, L = c.openssl_name, _flen(c)
    pts = c19points.special_points(c.curve.p(), c.curve.a(), c.curve.b(), c.order, c.curve.cofactor() or 1)
    evs, jobs, djobs, cjobs = [], [], [], []
    for kname, x, y in pts:
        pub = x.to_bytes(L, "big") + y.to_bytes(L, "big")
        base = {"curve": on, "key": kname, "pub": list(pub)}
        try:
            vk = VerifyingKey.from_public_point(ellipticcurve.Point(c.curve, x, y), c)
        except Exception as e:                                  # noqa: BLE001 -- a valid point refused: recorded, rejected by the spec
            evs.append(dict(base, op="pt", pe="raw", enc=[], dok=False, dpub=[], _cost=1))
            continue
        for cpe in CPES:
            for pe in FORMS:
                enc = vk.to_der(pe, cpe)
                ok, dpub, dpriv, dc = _dec_result(lambda: VerifyingKey.from_der(enc))
                evs.append(dict(base, op="enc", kind="spki", cpe=cpe, pe=pe, priv=[], enc=list(enc), dok=ok, dpub=dpub,
                                dpriv=dpriv, dcurve=dc, _cost=4 + len(enc) // 8))
                evs.append({"op": "ossl", "kind": "spki", "curve": on, "rel": "bytes", "what": "VerifyingKey.to_der(%s,%s) of %s" % (pe, cpe, kname),
                            "enc": list(enc), "ref": list(enc), "ossl": None, "_cost": 2 + len(enc) // 40})
                jobs.append((len(evs) - 1, ["ec", "-pubin", "-inform", "DER", "-in", "@in", "-pubout", "-outform", "DER", "-conv_form", pe,
                                            "-param_enc", cpe], enc, "der"))
        for pe in ("raw",) + FORMS:
            enc = vk.to_string(pe)
            ok, dpub, _, dc = _dec_result(lambda: VerifyingKey.from_string(enc, curve=c))
            evs.append(dict(base, op="pt", pe=pe, enc=list(enc), dok=ok, dpub=dpub, _cost=2))
        for cpe, pe in (("named_curve", "compressed"), ("explicit", "compressed"), ("named_curve", "uncompressed"), ("explicit", "hybrid"))[:npem]:
            dr, pem = vk.to_der(pe, cpe), vk.to_pem(pe, cpe)
            ok, dpub, dpriv, dc = _dec_result(lambda: VerifyingKey.from_pem(pem))
            evs.append(dict(base, op="pem", kind="spki", cpe=cpe, pe=pe, der=list(dr), pem=list(pem), priv=[], dok=ok, dpub=dpub, dpriv=dpriv,
                            _cost=4 + len(pem) // 6))
        # openssl's own encodings of this key (converted from the uncompressed named form, which TLC has computed itself)
        src = vk.to_der()
        for cpe in CPES:
            for pe in FORMS:
                fl = ["-conv_form", pe, "-param_enc", cpe]
                djobs.append((kname, cpe, pe, pub, src, ["ec", "-pubin", "-inform", "DER", "-in", "@in", "-pubout", "-outform", "DER"] + fl,
                              ["ec", "-pubin", "-inform", "DER", "-in", "@in", "-pubout", "-outform", "PEM"] + fl))
        cjobs.append((kname, src, ["pkey", "-pubin", "-inform", "DER", "-in", "@in", "-pubcheck", "-noout"]))
    return cname, pts, evs, jobs, djobs, cjobs


# ------------------------------------------------------------------ damaged encodings (worker)
class _CpuTimeout(BaseException):
    pass


def _alarm(*a):
    raise _CpuTimeout()


def _decoders(c):
    ecdsa, SigningKey, VerifyingKey, der, curves = _lib()
    return {
        "VerifyingKey.from_der": lambda b: VerifyingKey.from_der(b),
        "SigningKey.from_der": lambda b: SigningKey.from_der(b),
        "VerifyingKey.from_pem": lambda b: VerifyingKey.from_pem(b),
        "SigningKey.from_pem": lambda b: SigningKey.from_pem(b),
        "VerifyingKey.from_string": lambda b: VerifyingKey.from_string(b, curve=c),
        "SigningKey.from_string": lambda b: SigningKey.from_string(b, curve=c),
    }


def _site(tb):
    """Innermost frame inside the ecdsa package that is not the byte-index helper."""
    site = ""
    for fr in traceback.extract_tb(tb):
        fn = fr.filename.replace("\\", "/")
        if "/ecdsa/" in fn and not fn.endswith("_compat.py"):
            site = "%s.%s" % (os.path.splitext(os.path.basename(fn))[0], fr.name)
    return site


def _call(fn, data):
    signal.setitimer(signal.ITIMER_VIRTUAL, CPU_LIMIT_S)
    try:
        fn(data)
        return "ok", [], ""
    except _CpuTimeout:
        return "timeout", [], ""
    except BaseException as e:                                  # noqa: the class is what is being recorded
        signal.setitimer(signal.ITIMER_VIRTUAL, 0)
        return "raise", [k.__name__ for k in type(e).__mro__], _site(e.__traceback__)
    finally:
        signal.setitimer(signal.ITIMER_VIRTUAL, 0)


def _base_encodings(cname, d):
    """label -> (decoder name, layer, bytes) for one key."""
    sk = _mk_sk(cname, d)
    vk = sk.verifying_key
    out = {}
    for cpe in CPES:
        for pe in FORMS:
            out["spki/%s/%s" % (cpe, pe)] = ("VerifyingKey.from_der", "der", vk.to_der(pe, cpe))
            out["sec1/%s/%s" % (cpe, pe)] = ("SigningKey.from_der", "der", sk.to_der(pe, "ssleay", cpe))
            out["pkcs8/%s/%s" % (cpe, pe)] = ("SigningKey.from_der", "der", sk.to_der(pe, "pkcs8", cpe))
    for pe in ("raw",) + FORMS:
        out["point/%s" % pe] = ("VerifyingKey.from_string", "point", vk.to_string(pe))
    out["scalar"] = ("SigningKey.from_string", "scalar", sk.to_string())
    out["pem/spki"] = ("VerifyingKey.from_pem", "pem", vk.to_pem())
    out["pem/sec1"] = ("SigningKey.from_pem", "pem", sk.to_pem())
    out["pem/pkcs8"] = ("SigningKey.from_pem", "pem", sk.to_pem(format="pkcs8"))
    out["pem/spki/explicit"] = ("VerifyingKey.from_pem", "pem", vk.to_pem("compressed", "explicit"))
    return out


def _damage(base, mk, pos, val):
    if mk == "trunc":
        return base[:pos]
    if mk == "ext":
        return base + bytes([val])
    return base[:pos] + bytes([val]) + base[pos + 1:]


def _mut_job(a):
    cname, d, label, plan = a
    signal.signal(signal.SIGVTALRM, _alarm)
    c = _curve(cname)
    dec, layer, base = _base_encodings(cname, d)[label]
    fn = _decoders(c)[dec]
    res = []
    for mk, pos, val in plan:
        out, mro, site = _call(fn, _damage(base, mk, pos, val))
        res.append((mk, pos, val, out, mro, site))
    return cname, label, res


def _pem_body_end(pem):
    """Index one past the last base64 character that carries data (not '=' padding)."""
    end = pem.index(b"-----END")
    k = end
    while k > 0 and pem[k - 1:k] in (b"\n", b"\r", b"="):
        k -= 1
    return k



# ------------------------------------------------------------------ text representations of a PEM file (worker)
def _pem_variants(pem):
    """(variant, form, text) : the representations of one PEM file that the unchanged library reads as the same key
    (probed on the clean tree; CR-only line ends, text after the END line and memoryview input are NOT among them)."""
    crlf = pem.replace(b"\n", b"\r\n")
    lines = pem.split(b"\n")

    def body(f):
        return b"\n".join(f(l) if l and not l.startswith(b"-----") else l for l in lines)
    vs = [("lf", pem), ("crlf", crlf), ("lf-no-final-line-end", pem[:-1]), ("crlf-no-final-line-end", crlf[:-2]),
          ("lf-trailing-blank-line", pem + b"\n"), ("crlf-trailing-blank-line", crlf + b"\r\n"),
          ("lf-leading-blank-line", b"\n" + pem), ("crlf-leading-blank-line", b"\r\n" + crlf),
          ("trailing-whitespace-line", pem + b"  \t\n"), ("leading-whitespace-line", b"   \n" + pem),
          ("space-after-every-line", b"\n".join(l + b" " if l else l for l in lines)),
          ("tab-after-body-lines", body(lambda l: l + b"\t")), ("space-before-body-lines", body(lambda l: b" " + l)),
          ("blank-line-after-begin", lines[0] + b"\n\n" + b"\n".join(lines[1:])),
          ("blank-line-before-end", b"\n".join(lines[:-2]) + b"\n\n" + lines[-2] + b"\n"),
          ("first-line-crlf-rest-lf", lines[0] + b"\r\n" + b"\n".join(lines[1:]))]
    out = []
    for name, t in vs:
        out.append((name, "bytes", t))
        out.append((name, "str", t.decode("ascii")))
    out.append(("lf", "bytearray", bytearray(pem)))
    out.append(("crlf", "bytearray", bytearray(crlf)))
    return out


def _pemrep_curve(a):
    cname, d = a
    ecdsa, SigningKey, VerifyingKey, der, curves = _lib()
    from register_crypto_plugin.ecdsa import ECDH
    c = _curve(cname)
    on = c.openssl_name
    sk = SigningKey.from_secret_exponent(d, c)
    vk = sk.verifying_key
    pub, priv = list(_raw_of_vk(vk)), list(_priv_of_sk(sk))

    def ecdh_priv(t):
        e = ECDH(curve=c)
        e.load_private_key_pem(t)
        return e.private_key

    def ecdh_pub(t):
        e = ECDH(curve=c)
        e.load_received_public_key_pem(t)
        return e.public_key
    loaders = [("VerifyingKey.from_pem", "spki", VerifyingKey.from_pem, vk.to_der(), vk.to_pem(), pub, []),
               ("VerifyingKey.from_pem(explicit,compressed)", "spki", VerifyingKey.from_pem, vk.to_der("compressed", "explicit"),
                vk.to_pem("compressed", "explicit"), pub, []),
               ("SigningKey.from_pem(sec1)", "sec1", SigningKey.from_pem, sk.to_der(), sk.to_pem(), pub, priv),
               ("SigningKey.from_pem(pkcs8)", "pkcs8", SigningKey.from_pem, sk.to_der(format="pkcs8"), sk.to_pem(format="pkcs8"), pub, priv),
               ("Curve.from_pem(named)", "ecparams", curves.Curve.from_pem, c.to_der(), c.to_pem(), [], []),
               ("Curve.from_pem(explicit)", "ecparams", curves.Curve.from_pem, c.to_der("explicit"), c.to_pem("explicit"), [], []),
               ("ECDH.load_private_key_pem", "sec1", ecdh_priv, sk.to_der(), sk.to_pem(), pub, priv),
               ("ECDH.load_received_public_key_pem", "spki", ecdh_pub, vk.to_der(), vk.to_pem(), pub, [])]
    evs = []
    for lname, kind, fn, dr, pem, epub, epriv in loaders:
        if isinstance(pem, str):
            pem = pem.encode("ascii")
        for vname, form, text in _pem_variants(pem):
            ev = {"op": "pemrep", "loader": lname, "kind": kind, "curve": on, "variant": vname, "form": form, "der": list(dr),
                  "text": list(text.encode("ascii") if isinstance(text, str) else bytes(text)), "pub": epub, "priv": epriv,
                  "dok": True, "dcurve": "", "dpub": [], "dpriv": [], "exc": "", "_cost": 3 + len(pem) // 8}
            try:
                k = fn(text)
                if kind == "ecparams":
                    ev["dcurve"] = k.openssl_name or k.name
                else:
                    kvk = getattr(k, "verifying_key", None) or k
                    ev["dcurve"] = kvk.curve.openssl_name or kvk.curve.name
                    ev["dpub"] = list(_raw_of_vk(kvk))
                    ev["dpriv"] = list(_priv_of_sk(k)) if hasattr(k, "privkey") else []
            except Exception as e:                              # noqa: BLE001 -- recorded, judged by the spec
                ev["dok"], ev["exc"] = False, "%s: %s" % (type(e).__name__, str(e)[:80])
            evs.append(ev)
    return evs


# ------------------------------------------------------------------ the plug-in's key classes as decoders
def _proxy_events(r, th, keys256):
    """register_crypto_plugin.PublicEccKeyProxy / PrivateEccKeyProxy, bec2format.crypto's registry functions and
    EccDecryptor.decrypt on valid and damaged raw (64 byte) and DER keys; the raw and the DER route side by side."""
    import register_crypto_plugin as plugin
    from bec2format import crypto
    from bec2format.bec2file import EccDecryptor
    HEADER = bytes.fromhex("3059301306072A8648CE3D020106082A8648CE3D03010703420004")
    signal.signal(signal.SIGVTALRM, _alarm)
    Pub, Prv = plugin.PublicEccKeyProxy, plugin.PrivateEccKeyProxy

    def pcall(fn, data):
        signal.setitimer(signal.ITIMER_VIRTUAL, CPU_LIMIT_S)
        try:
            k = fn(data)
            signal.setitimer(signal.ITIMER_VIRTUAL, 0)
            rraw, rder = [], []
            if hasattr(k, "to_raw_bin_fmt"):
                rraw, rder = list(k.to_raw_bin_fmt()), list(k.to_der_fmt())
            elif hasattr(k, "private_key"):
                rraw = list(k.public_key.to_raw_bin_fmt())
            return "ok", "", [], rraw, rder
        except _CpuTimeout:
            return "timeout", "", [], [], []
        except BaseException as e:                              # noqa: the class is what is being recorded
            signal.setitimer(signal.ITIMER_VIRTUAL, 0)
            return "raise", type(e).__name__, [k.__name__ for k in type(e).__mro__], [], []
        finally:
            signal.setitimer(signal.ITIMER_VIRTUAL, 0)

    evs = []

    def rec(entry, fn, mk, pos, val, data, pair=None, pin=b""):
        out, cls, mro, rraw, rder = pcall(fn, data)
        ev = {"op": "proxy", "entry": entry, "mk": mk, "pos": pos, "val": val, "input": list(data), "out": out, "cls": cls, "mro": mro,
              "rraw": rraw, "rder": rder, "pin": list(pin), "pout": "", "pcls": "", "pmro": [], "praw": [], "pder": [], "_cost": 1}
        if pair is not None:
            ev["pout"], ev["pcls"], ev["pmro"], ev["praw"], ev["pder"] = pcall(pair, pin)
        evs.append(ev)

    def vals_of(b, many):
        vs = [b ^ 1, b ^ 0x80, 0, 0xFF] + ([(b + 1) & 255, 0x04, 0x7F, r.randrange(256), r.randrange(256)] if many else [])
        seen, out = set(), []
        for v in vs:
            if v != b and v not in seen:
                seen.add(v)
                out.append(v)
        return out

    raws = [_raw_of_vk(_mk_sk("NIST256p", d).verifying_key) for _, d in keys256]
    for entry, fn, pair in (("raw", Pub.create_from_raw_fmt, Pub.create_from_der_fmt),
                            ("registry-raw", crypto.create_public_ecc_key_from_raw_fmt, crypto.create_public_ecc_key_from_der_fmt)):
        for raw in raws:
            rec(entry, fn, "valid", 0, 0, raw, pair, HEADER + raw)
            rec(entry, fn, "valid-bytearray", 0, 0, bytearray(raw), pair, HEADER + raw)
        raw = raws[0]
        full = entry == "raw"
        for k in range(0, 64, 1 if full else 5):
            rec(entry, fn, "trunc", k, 0, raw[:k], pair, HEADER + raw[:k])
        for v in (0, 255, 4, 48):
            rec(entry, fn, "ext", 64, v, raw + bytes([v]), pair, HEADER + raw + bytes([v]))
        for pos in range(0, 64, 1 if full else 7):
            for v in vals_of(raw[pos], th and full):
                m = raw[:pos] + bytes([v]) + raw[pos + 1:]
                rec(entry, fn, "mut", pos, v, m, pair, HEADER + m)
        vk0 = _mk_sk("NIST256p", keys256[0][1]).verifying_key
        for what, m in (("all-zero", bytes(64)), ("all-ff", b"\xff" * 64), ("x-only", raw[:32]), ("uncompressed-form", b"\x04" + raw),
                        ("compressed-form", vk0.to_string("compressed")), ("hybrid-form", vk0.to_string("hybrid")), ("x-and-y-swapped", raw[32:] + raw[:32]),
                        ("last-bit-flipped", raw[:63] + bytes([raw[63] ^ 1]))):
            rec(entry, fn, what, 0, 0, m, pair, HEADER + m)
    dr = HEADER + raws[0]
    for entry, fn in (("der", Pub.create_from_der_fmt), ("registry-der", crypto.create_public_ecc_key_from_der_fmt)):
        full = entry == "der"
        rec(entry, fn, "valid", 0, 0, dr)
        for k in range(0, len(dr), 1 if full else 6):
            rec(entry, fn, "trunc", k, 0, dr[:k])
        for v in (0, 255, 48):
            rec(entry, fn, "ext", len(dr), v, dr + bytes([v]))
        for pos in range(len(dr)):
            if pos < 27 and full:
                vs = [v for v in range(256) if v != dr[pos]]             # the constant header: every value
            elif pos < 27 or full or pos % 8 == 0:
                vs = vals_of(dr[pos], False)
            else:
                vs = []
            for v in vs:
                rec(entry, fn, "mut", pos, v, dr[:pos] + bytes([v]) + dr[pos + 1:])
    sk = _mk_sk("NIST256p", keys256[0][1])
    dec = EccDecryptor(0, Prv(sk))
    blk, setup = b"", ("none", "", [])
    try:
        blk = dec.encrypt(bytes(range(16)))
        if len(blk) == 81 and blk[0] == 4 and dec.decrypt(blk) == bytes(range(16)):
            setup = None
    except Exception as e:                                      # noqa: BLE001 -- encrypt/decrypt of a valid block failed: recorded
        setup = ("raise", type(e).__name__, [k.__name__ for k in type(e).__mro__])
    if setup is not None:
        evs.append({"op": "proxy", "entry": "decrypt", "mk": "valid-block-not-decrypted", "pos": 0, "val": 0, "input": list(blk), "out": setup[0],
                    "cls": setup[1], "mro": setup[2], "rraw": [], "rder": [], "pin": [], "pout": "", "pcls": "", "pmro": [], "praw": [], "pder": [], "_cost": 1})
    else:
        rec("decrypt", dec.decrypt, "valid", 0, 0, blk, crypto.create_public_ecc_key_from_raw_fmt, blk[1:65])
        for k in range(len(blk)):
            rec("decrypt", dec.decrypt, "trunc", k, 0, blk[:k])
        for pos in range(1, 65):
            for v in vals_of(blk[pos], False)[:4 if th else 2]:
                m = blk[:pos] + bytes([v]) + blk[pos + 1:]
                rec("decrypt", dec.decrypt, "mut", pos, v, m, crypto.create_public_ecc_key_from_raw_fmt, m[1:65])
    for fmt in ("ssleay", "pkcs8"):
        pd = sk.to_der(format=fmt)
        rec("priv-der", Prv.create_from_der_fmt, "valid", 0, 0, pd)
        for k in range(len(pd)):
            rec("priv-der", Prv.create_from_der_fmt, "trunc", k, 0, pd[:k])
        for pos in range(len(pd)):
            for v in vals_of(pd[pos], False) + [0x7F]:
                if v != pd[pos]:
                    rec("priv-der", Prv.create_from_der_fmt, "mut", pos, v, pd[:pos] + bytes([v]) + pd[pos + 1:])
    return evs



# ------------------------------------------------------------------ key objects of every provenance (worker)
def _record_prov_curve(a):
    """The encoders fed with VerifyingKey objects whose point is held in different internal representations: affine,
    Jacobian with z != 1 (constructed, k*Q, Q+G, keys recovered from a signature), fresh and after operations that may
    rescale the point in place (verify, scale(), x()).  Expected coordinates come from integer arithmetic
    (harness/c19points.py) on the affine generator; the encodings are judged like every other "pt" / "enc" / "pem" event."""
    cname, d, sd = a
    from hashlib import sha256
    from register_crypto_plugin.ecdsa.ellipticcurve import Point, PointJacobi
    from .. import c19points as cp
    ecdsa, SigningKey, VerifyingKey, der, curves = _lib()
    c = _curve(cname)
    on, L, p, ca = c.openssl_name, _flen(c), c.curve.p(), c.curve.a() % c.curve.p()
    r = random.Random(sd)
    G = (int(c.generator.x()), int(c.generator.y()))
    Q = cp._mul(d, G, ca, p)
    k = r.randrange(3, 1 << 24)
    kQ, QG = cp._mul(k, Q, ca, p), cp._add(Q, G, ca, p)
    sk = SigningKey.from_secret_exponent(d, c)
    data = b"provenance of a key object"
    sig = sk.sign_deterministic(data, hashfunc=sha256)          # RFC 6979: the same signature in every run
    dig = sha256(data).digest()

    def jac(z):
        return lambda: VerifyingKey.from_public_point(PointJacobi(c.curve, Q[0] * z * z % p, Q[1] * z * z * z % p, z), c)
    # recovered keys: their coordinates are read from a separate recovery through x() / y() (which do not rescale)
    # (x = r is not always the x coordinate of R on a curve with a cofactor, SECP112r2: recovery may then fail - C18's business, no provenance here)
    try:
        rec_xy = [(int(v.pubkey.point.x()), int(v.pubkey.point.y())) for v in VerifyingKey.from_public_key_recovery(sig, data, c, hashfunc=sha256)]
    except Exception:                                           # noqa: BLE001
        rec_xy = []
    fac = [("affine", Q, lambda: VerifyingKey.from_public_point(Point(c.curve, Q[0], Q[1]), c)),
           ("jacobian z=2", Q, jac(2)), ("jacobian z=p-1", Q, jac(p - 1)), ("jacobian z=random", Q, jac(r.randrange(3, p - 1))),
           ("k*Q", kQ, lambda: VerifyingKey.from_public_point(k * PointJacobi.from_affine(Point(c.curve, Q[0], Q[1])), c)),
           ("Q+G", QG, lambda: VerifyingKey.from_public_point(PointJacobi.from_affine(Point(c.curve, Q[0], Q[1])) + c.generator, c))]
    for i, xy in enumerate(rec_xy):
        fac.append(("recovered[%d]" % i, xy, lambda i=i: VerifyingKey.from_public_key_recovery(sig, data, c, hashfunc=sha256)[i]))
        fac.append(("recovered-with-digest[%d]" % i, xy, lambda i=i: VerifyingKey.from_public_key_recovery_with_digest(sig, dig, c, hashfunc=sha256, allow_truncate=True)[i]))
    evs = []
    def emit(label, xy, vk, forms):
        pub = xy[0].to_bytes(L, "big") + xy[1].to_bytes(L, "big")
        base = {"curve": on, "key": "provenance: " + label, "pub": list(pub)}
        for f in forms:
            if f[0] == "pt":
                enc = vk().to_string(f[1])
                ok, dpub, _, dc = _dec_result(lambda: VerifyingKey.from_string(enc, curve=c))
                evs.append(dict(base, op="pt", pe=f[1], enc=list(enc), dok=ok, dpub=dpub, _cost=2))
            elif f[0] == "der":
                enc = vk().to_der(f[1], f[2])
                ok, dpub, dpriv, dc = _dec_result(lambda: VerifyingKey.from_der(enc))
                evs.append(dict(base, op="enc", kind="spki", cpe=f[2], pe=f[1], priv=[], enc=list(enc), dok=ok, dpub=dpub, dpriv=dpriv, dcurve=dc,
                                _cost=4 + len(enc) // 8))
            else:
                o = vk()
                dr, pem = o.to_der(f[1], f[2]), vk().to_pem(f[1], f[2])
                ok, dpub, dpriv, dc = _dec_result(lambda: VerifyingKey.from_pem(pem))
                evs.append(dict(base, op="pem", kind="spki", cpe=f[2], pe=f[1], der=list(dr), pem=list(pem), priv=[], dok=ok, dpub=dpub, dpriv=dpriv,
                                _cost=4 + len(pem) // 6))
    all_forms = [("pt", pe) for pe in ("raw",) + FORMS] + [("der", pe, cpe) for pe in FORMS for cpe in CPES] + [("pem", "compressed", "named_curve")]
    few = [("pt", "raw"), ("pt", "compressed"), ("pt", "hybrid"), ("der", "uncompressed", "named_curve"), ("der", "compressed", "explicit")]
    for label, xy, make in fac:
        emit(label + " / fresh object per call", xy, make, all_forms)          # every encoder sees an untouched object
        o = make()
        emit(label + " / one object, calls in sequence", xy, lambda: o, all_forms)
        o2 = make()
        try:
            o2.verify(sig, data, hashfunc=sha256)
        except Exception:                                       # noqa: BLE001 -- most of these keys did not make the signature
            pass
        emit(label + " / after verify()", xy, lambda: o2, few)
        o3 = make()
        if hasattr(o3.pubkey.point, "scale"):
            o3.pubkey.point.scale()
        emit(label + " / after point.scale()", xy, lambda: o3, few)
        o4 = make()
        o4.pubkey.point.x()
        o4.pubkey.point.y()
        emit(label + " / after x() and y()", xy, lambda: o4, few)
        o5 = make()
        try:
            o5.precompute(lazy=True)
        except Exception:                                       # noqa: BLE001
            pass
        emit(label + " / after precompute(lazy)", xy, lambda: o5, few)
    return evs


# ------------------------------------------------------------------ structure-aware damage of DER key files
def _smut_events(r, th, curve_keys):
    """Edits of the TLV tree (harness/c19der.py) of valid key files, written back with correct lengths: members dropped /
    duplicated / swapped / inserted, INTEGER / OID / OCTET STRING / BIT STRING contents replaced, tags changed, and pairs of
    such edits (every drop of an optional member with every value edit; a sample of the rest)."""
    import itertools
    import register_crypto_plugin as plugin
    from .. import c19der as D
    ecdsa, SigningKey, VerifyingKey, der, curves = _lib()
    signal.signal(signal.SIGVTALRM, _alarm)
    evs = []
    for cname, d in curve_keys:
        c = _curve(cname)
        sk = _mk_sk(cname, d)
        vk = sk.verifying_key
        pub, priv = list(_raw_of_vk(vk)), list(_priv_of_sk(sk))
        decs = {"VerifyingKey.from_der": lambda b: VerifyingKey.from_der(b), "SigningKey.from_der": lambda b: SigningKey.from_der(b),
                "Curve.from_der": lambda b: curves.Curve.from_der(b),
                "VerifyingKey.from_pem": lambda b: VerifyingKey.from_pem(der.topem(b, "PUBLIC KEY")),
                "SigningKey.from_pem(sec1)": lambda b: SigningKey.from_pem(der.topem(b, "EC PRIVATE KEY")),
                "SigningKey.from_pem(pkcs8)": lambda b: SigningKey.from_pem(der.topem(b, "PRIVATE KEY")),
                "plugin.PublicEccKeyProxy.create_from_der_fmt": lambda b: plugin.PublicEccKeyProxy.create_from_der_fmt(b),
                "plugin.PrivateEccKeyProxy.create_from_der_fmt": lambda b: plugin.PrivateEccKeyProxy.create_from_der_fmt(b)}
        bases = [("spki", "named_curve", ["VerifyingKey.from_der", "VerifyingKey.from_pem"], vk.to_der()),
                 ("spki", "explicit", ["VerifyingKey.from_der", "VerifyingKey.from_pem"], vk.to_der("uncompressed", "explicit")),
                 ("spki", "explicit", ["VerifyingKey.from_der"], vk.to_der("compressed", "explicit")),
                 ("sec1", "named_curve", ["SigningKey.from_der", "SigningKey.from_pem(sec1)"], sk.to_der()),
                 ("sec1", "explicit", ["SigningKey.from_der", "SigningKey.from_pem(sec1)"], sk.to_der("uncompressed", "ssleay", "explicit")),
                 ("pkcs8", "named_curve", ["SigningKey.from_der", "SigningKey.from_pem(pkcs8)"], sk.to_der(format="pkcs8")),
                 ("pkcs8", "explicit", ["SigningKey.from_der"], sk.to_der("compressed", "pkcs8", "explicit")),
                 ("ecparams", "explicit", ["Curve.from_der"], c.to_der("explicit")),
                 ("ecparams", "named_curve", ["Curve.from_der"], c.to_der())]
        if cname == "NIST256p":
            for b in bases[:3]:
                b[2].append("plugin.PublicEccKeyProxy.create_from_der_fmt")
            for b in bases[3:7]:
                b[2].append("plugin.PrivateEccKeyProxy.create_from_der_fmt")
        for kind, cpe, dnames, enc in bases:
            tree = D.parse(enc)
            eds = D.all_edits(tree)
            # members that the grammar marks OPTIONAL: cofactor (6th member of ECParameters), the [1] publicKey; a seed may be inserted after b
            benign = set()
            for path in D.paths(tree):
                lst, k = D.get(tree, path)
                tag, cont = lst[k]
                if tag == 0xA1:
                    benign.add(("drop", path))
                if (tag == 0x30 and isinstance(cont, list) and len(cont) == 6 and cont[0] == [0x02, b"\x01"] and isinstance(cont[1][1], list)
                        and cont[1][1] and cont[1][1][0][0] == 0x06):
                    benign.add(("drop", path + (5,)))
                    benign.add(("seed-after", path + (2, 1)))
            opt = [e for e in eds if (e[0].split(" ")[0], e[1]) in benign]
            plan = [[e] for e in eds]
            plan += [[o, e] for o in opt for e in eds if e is not o]
            plan += [list(o2) for o2 in itertools.combinations(opt, 2)]
            pairs = list(itertools.combinations(eds, 2))
            plan += [list(x) for x in r.sample(pairs, min(len(pairs), 1500 if th else 200))]
            for edit in plan:
                m = D.apply(tree, edit)
                if m is None or m == enc:
                    continue
                names = " & ".join(e[0] for e in edit)
                is_benign = all((e[0].split(" ")[0], e[1]) in benign for e in edit)
                for dn in (dnames if len(edit) == 1 or is_benign else dnames[:1] + [x for x in dnames[1:] if x.startswith("plugin")]):
                    signal.setitimer(signal.ITIMER_VIRTUAL, CPU_LIMIT_S)
                    ev = {"op": "smut", "dec": dn, "kind": kind, "cpe": cpe, "curve": c.openssl_name, "edits": names, "benign": is_benign, "data": [],
                          "pub": pub if kind != "ecparams" else [], "priv": priv if kind in ("sec1", "pkcs8") else [], "out": "ok", "cls": "", "mro": [], "site": "",
                          "dcurve": "", "dpub": [], "dpriv": [], "_hex": m.hex(), "_cost": 1}
                    try:
                        kobj = decs[dn](m)
                        signal.setitimer(signal.ITIMER_VIRTUAL, 0)
                        ev["data"] = list(m)
                        ev["_cost"] = 3 + len(m) // 20
                        if kind == "ecparams":
                            ev["dcurve"] = kobj.openssl_name or kobj.name
                        else:
                            if hasattr(kobj, "to_raw_bin_fmt") or hasattr(kobj, "private_key"):       # plug-in objects
                                kobj = getattr(kobj, "private_key", None) or kobj.public_key
                            kvk = getattr(kobj, "verifying_key", None) or kobj
                            ev["dcurve"] = kvk.curve.openssl_name or kvk.curve.name
                            ev["dpub"] = list(_raw_of_vk(kvk))
                            ev["dpriv"] = list(_priv_of_sk(kobj)) if hasattr(kobj, "privkey") else []
                    except _CpuTimeout:
                        ev["out"] = "timeout"
                    except BaseException as e:                  # noqa: the class is what is being recorded
                        signal.setitimer(signal.ITIMER_VIRTUAL, 0)
                        ev.update(out="raise", cls=type(e).__name__, mro=[x.__name__ for x in type(e).__mro__], site=_site(e.__traceback__))
                        if is_benign or (dn.startswith("plugin.Public") and "ValueError" not in ev["mro"]):
                            ev["data"] = list(m)
                    finally:
                        signal.setitimer(signal.ITIMER_VIRTUAL, 0)
                    evs.append(ev)
    return evs


# ------------------------------------------------------------------ der.py primitives
def _prim_events(r, tier):
    ecdsa, SigningKey, VerifyingKey, der, curves = _lib()
    evs = []
    ns = set(range(0, 300)) | {2 ** k + dlt for k in range(7, 24) for dlt in (-1, 0, 1)} | {2 ** 24 - 1}
    ns |= {r.randrange(2 ** 24) for _ in range(400 if tier == "thorough" else 100)}
    for n in sorted(ns):
        evs.append({"op": "enclen", "n": n, "out": list(der.encode_length(n))})
    tails = [(0, 0, 0), (1, 0, 0), (127, 255, 255), (128, 0, 1), (255, 255, 255), (0, 128, 0)]
    tails += [tuple(r.randrange(256) for _ in range(3)) for _ in range(6 if tier == "thorough" else 2)]
    prim_fail = []
    for b0 in range(256):
        for t in tails:
            for k in (1, 2, 3, 4):
                data = bytes((b0,) + t)[:k]
                try:
                    ln, used = der.read_length(data)
                    evs.append({"op": "readlen", "data": list(data), "ok": True, "len": ln if ln < 2 ** 31 else -1, "used": used})
                except der.UnexpectedDER:
                    evs.append({"op": "readlen", "data": list(data), "ok": False, "len": 0, "used": 0})
                except Exception as e:
                    prim_fail.append(("der.read_length", data, e))
    ints = [0, 1, 127, 128, 255, 256, 65535, 65536] + [2 ** k + dlt for k in (63, 64, 127, 255, 256, 520, 521) for dlt in (-1, 0, 1)]
    for c in _ws_curves():
        ints += [c.order, c.curve.p(), c.curve.a() % c.curve.p(), c.curve.b() % c.curve.p()]
    ints += [r.getrandbits(r.choice([8, 16, 112, 160, 256, 384, 521])) for _ in range(300 if tier == "thorough" else 60)]
    for v in ints:
        out = der.encode_integer(v)
        mag = v.to_bytes((v.bit_length() + 7) // 8, "big")
        try:
            back, rest = der.remove_integer(out)
            evs.append({"op": "int", "mag": list(mag), "out": list(out), "dok": True,
                        "dmag": list(back.to_bytes(max(1, (back.bit_length() + 7) // 8), "big")), "drest": list(rest)})
        except Exception:
            evs.append({"op": "int", "mag": list(mag), "out": list(out), "dok": False, "dmag": [], "drest": []})
    oids = [c.oid for c in curves.curves if c.oid] + [(1, 2, 840, 10045, 2, 1), (1, 2, 840, 10045, 1, 1), (1, 3, 132, 1, 12), (2, 5, 4, 3), (0, 0), (2, 999, 3)]
    for _ in range(80 if tier == "thorough" else 20):
        first = r.randrange(3)
        oids.append((first, r.randrange(40) if first < 2 else r.randrange(2000)) + tuple(r.choice([0, 1, 127, 128, 16383, 16384, r.randrange(2 ** 21)])
                                                                                          for _ in range(r.randrange(0, 7))))
    for arcs in oids:
        out = der.encode_oid(*arcs)
        try:
            back, rest = der.remove_object(out)
            evs.append({"op": "oid", "arcs": list(arcs), "out": list(out), "dok": rest == b"", "darcs": list(back)})
        except Exception:
            evs.append({"op": "oid", "arcs": list(arcs), "out": list(out), "dok": False, "darcs": [0]})
    for ln in (0, 1, 2, 126, 127, 128, 129, 255, 256, 257, 1000):
        body = bytes(r.randrange(256) for _ in range(ln))
        for what, fn in (("octets", der.encode_octet_string), ("bits", lambda b: der.encode_bitstring(b, 0)), ("seq", der.encode_sequence),
                         ("ctx0", lambda b: der.encode_constructed(0, b)), ("ctx1", lambda b: der.encode_constructed(1, b))):
            evs.append({"op": "wrap", "what": what, "body": list(body), "out": list(fn(body)), "_cost": 3 + ln // 20})
    # damaged primitives: error class only
    prims = [("der.remove_integer", der.remove_integer, der.encode_integer(2 ** 70 + 5)),
             ("der.remove_octet_string", der.remove_octet_string, der.encode_octet_string(b"\x01\x02\x03\x04\x05")),
             ("der.remove_bitstring", lambda b: der.remove_bitstring(b, 0), der.encode_bitstring(b"\x04\x05\x06", 0)),
             ("der.remove_object", der.remove_object, der.encode_oid(1, 2, 840, 10045, 3, 1, 7)),
             ("der.remove_sequence", der.remove_sequence, der.encode_sequence(der.encode_integer(1), der.encode_integer(2))),
             ("der.remove_constructed", der.remove_constructed, der.encode_constructed(0, der.encode_oid(1, 3, 132, 0, 6))),
             ("der.read_length", der.read_length, der.encode_length(300)),
             ("der.read_number", der.read_number, der.encode_number(10045))]
    for name, fn, good in prims:
        for k in range(len(good)):
            try:
                fn(good[:k])
                out, mro, site = "ok", [], ""
            except Exception as e:
                out, mro, site = "raise", [x.__name__ for x in type(e).__mro__], _site(e.__traceback__)
            evs.append({"op": "prim", "dec": name, "mk": "empty" if k == 0 else "trunc", "pos": k, "data": list(good[:k]), "out": out,
                        "mro": mro, "site": site})
    for name, data, e in prim_fail:
        evs.append({"op": "prim", "dec": name, "mk": "trunc", "pos": len(data), "data": list(data), "out": "raise",
                    "mro": [x.__name__ for x in type(e).__mro__], "site": _site(e.__traceback__)})
    return evs


# ------------------------------------------------------------------ helpers for the run
def _strip(ev):
    return {k: v for k, v in ev.items() if not k.startswith("_")}


def _short(ev, lim=48):
    out = {}
    for k, v in ev.items():
        if k.startswith("_"):
            continue
        if isinstance(v, list) and len(v) > lim and all(isinstance(x, int) for x in v):
            out[k] = "hex:" + bytes(v).hex()
        else:
            out[k] = v
    return out


def _mc(rep, name, module, cfg, wd, workers, constants, timeout=1500):
    res = tlc.require_ok(tlc.run(os.path.join(SPEC, module), cfg, os.path.join(wd, "mc_" + re.sub(r"\W+", "_", name)), workers=workers,
                                 timeout=timeout), name)
    if res.distinct < 1:
        raise MachineryError("%s explored no state" % name)
    rep.add_mc(name, res, constants)
    return res


def _refuted(name, module, cfg, inv, wd, workers=4):
    res = tlc.run(os.path.join(SPEC, module), cfg, os.path.join(wd, "st_" + inv), workers=workers, timeout=600)
    if inv not in res.violated:
        raise MachineryError("self-test: %s was not refuted by TLC (%s):\n%s" % (inv, name, res.clean()[-1500:]))
    return "%s refuted by TLC (%s)" % (inv, name)


def _model_checking(rep, tier, wd):
    """All MC runs and MC self-tests; runs in a thread next to the recording of events."""
    th = tier == "thorough"
    alpha = "0,1,2,3,4,5,6,48,128,129,160,255" if th else "0,1,2,3,4,6,48,128,129,160"
    N = 6 if th else 5
    c1 = "INIT Init\nNEXT Next\nCONSTANTS\n N = %d\n Alpha = {%s}\n" % (N, alpha)
    _mc(rep, "MC_DER (all strings over %d byte values up to length %d: prefix-free, canonical, total)" % (len(alpha.split(",")), N),
        "MC_DER.tla", c1 + "INVARIANTS PrefixFree ExtensionInvalid Canonical Total\n", wd, 8, {"N": N, "Alpha": "{%s}" % alpha})
    st = [_refuted("decoder that ignores trailing bytes", "MC_DER.tla", c1 + "INVARIANTS LenientPrefixFree\n", "LenientPrefixFree", wd),
          _refuted("vacuity: valid constructed values of length N exist", "MC_DER.tla", c1 + "INVARIANTS SomeValid\n", "SomeValid", wd)]
    D = 2 if th else 1
    c2 = "CONSTANTS\n D = %d\n" % D
    _mc(rep, "MC_DERTrees (bounded TLV trees, depth %d, long length forms: round trip, every truncation, extensions)" % D, "MC_DERTrees.tla",
        "INIT InitTrees\nNEXT NextTrees\n" + c2 + "INVARIANTS RoundTrip Truncated Extended\n", wd, 8, {"D": D})
    st.append(_refuted("decoder that ignores trailing bytes", "MC_DERTrees.tla", "INIT InitTrees\nNEXT NextTrees\n" + c2 + "INVARIANTS LenientExtended\n",
                       "LenientExtended", wd))
    st.append(_refuted("vacuity: trees with 2-octet long-form lengths exist", "MC_DERTrees.tla",
                       "INIT InitTrees\nNEXT NextTrees\n" + c2 + "INVARIANTS SomeLong\n", "SomeLong", wd))
    _mc(rep, "MC_DERTrees/LenForms (every 1-4 octet length prefix: accepted <=> the unique minimal form; 0x80 rejected)", "MC_DERTrees.tla",
        "INIT InitLen\nNEXT NextLen\n" + c2 + "INVARIANTS LenForms\n", wd, 4, {"b0": "{0,129,130,131,132}", "b1": "0..255", "b2": "0..255"})
    vals = "{%s}" % ",".join(map(str, range(256))) if th else "{0,1,2,3,4,5,6,7,9,47,48,49,127,128,129,130,160,161,255}"
    c3 = "CONSTANTS\n Vals = %s\n" % vals
    _mc(rep, "MC_KeyEnc/Header (27-byte P-256 header lemma, per-curve header, all 27x255 one-byte variants of the header)", "MC_KeyEnc.tla",
        "INIT InitHdr\nNEXT NextHdr\n" + c3 + "INVARIANTS HeaderUnique\n", wd, 4, {"lemma": "ASSUME HeaderLemma /\\ HeaderPerCurve", "positions": 27, "values": 256})
    st.append(_refuted("one wrong octet in the header constant", "MC_KeyEnc.tla", "INIT InitHdr\nNEXT NextHdr\n" + c3 + "INVARIANTS BadHeaderLemma\n",
                       "BadHeaderLemma", wd))
    _mc(rep, "MC_KeyEnc/Toy (27 toy encodings SPKI/SEC1/PKCS#8 x named/explicit/explicit+seed x 3 point forms: fields, truncations, "
             "extensions, single-byte mutants)", "MC_KeyEnc.tla",
        "INIT InitToy\nNEXT NextToy\n" + c3 + "INVARIANTS Shapes Truncated Extended MutantsTotal VersionRule\n", wd, 8, {"Vals": "0..255" if th else vals})
    st.append(_refuted("vacuity: some single-byte mutant is accepted by the shape parsers", "MC_KeyEnc.tla",
                       "INIT InitToy\nNEXT NextToy\n" + c3 + "INVARIANTS SomeMutantAccepted\n", "SomeMutantAccepted", wd))
    return st


# ------------------------------------------------------------------ the check
def _library_site(e):
    """'module.function (file:line)' of the innermost traceback frame if that frame is library code (also through the
    RemoteTraceback text of a pool worker), None if the exception was raised by harness code."""
    from ..common import REPO
    txt = "".join(traceback.format_exception(type(e), e, e.__traceback__))
    repo = os.path.realpath(REPO) + os.sep
    for seg in re.split(r"\n(?:The above exception was the direct cause|During handling of the above exception)[^\n]*\n", txt):
        frames = re.findall(r'File "([^"]+)", line (\d+), in (\S+)', seg)
        if frames:
            fn, ln, func = frames[-1]
            if os.path.realpath(fn).startswith(repo):
                return "%s.%s (%s:%s)" % (os.path.splitext(os.path.basename(fn))[0], func, os.path.relpath(os.path.realpath(fn), repo), ln)
    return None


def run(tier):
    """The recording calls the library's encoders, key constructors and arithmetic on VALID input outside the judged
    decoder calls as well; if one of those calls fails inside library code, that is a finding about the library
    (reported as a violation naming class and site), not a tool failure."""
    rep = Report("C19", tier)
    st = {}
    with Scratch("c19") as wd:
        try:
            return _run(tier, rep, wd, st)
        except MachineryError:
            raise
        except Exception as e:                                   # noqa: BLE001
            site = _library_site(e)
            if site is None:
                raise
            if "mc" in st:
                try:
                    st["mc"][1].result()
                finally:
                    st["mc"][0].shutdown(wait=True)
            rep.violation("C19:valid-input:%s@%s" % (type(e).__name__, site.split(" ")[0]),
                          "a library call on valid input made while recording failed: %s: %s, raised in %s" % (type(e).__name__, str(e)[:200], site),
                          {"traceback": "".join(traceback.format_exception(type(e), e, e.__traceback__))[-3000:]})
            rep.sample({"recording aborted by": type(e).__name__, "site": site})
            rep.cov["explanation"] = "recording aborted by a failing library call on valid input; only the MC parts ran"
            return rep


def _run(tier, rep, wd, st):
    th = tier == "thorough"
    r = rng("c19")
    ecdsa, SigningKey, VerifyingKey, der, curves = _lib()
    import register_crypto_plugin as plugin
    ws = _ws_curves()
    if True:
        ossl = Ossl(wd)
        p = subprocess.run([ossl.exe, "ecparam", "-list_curves"], capture_output=True, text=True, timeout=60)
        if p.returncode != 0:
            raise MachineryError("openssl ecparam -list_curves failed: " + p.stderr[:300])
        have = set(re.findall(r"^\s*(\S+)\s*:", p.stdout, re.M))
        names = [c.openssl_name for c in ws]
        if len(ws) != 17 or any(n not in have for n in names):
            raise MachineryError("expected 17 short-Weierstrass curves known to openssl, got %r" % names)

        pool = mp.Pool(16)
        mc_exec = cf.ThreadPoolExecutor(max_workers=1)
        mc_future = mc_exec.submit(_model_checking, rep, tier, wd)
        st["mc"] = (mc_exec, mc_future)
        try:
            # ---------------- keys: random + leading-zero scalar / X / Y (found by search)
            nrand = 5 if th else 1
            keys = dict(pool.map(_find_keys, [(c.name, "%d/c19/%s" % (_seed(), c.name), nrand) for c in ws]))
            # ---------------- openssl round A: generate keys
            n_okeys = 3 if th else 1
            n_hdr = 100 if th else 16
            gen = {}
            for c in ws:
                for k in range(n_okeys):
                    gen[(c.name, k)] = ossl.add(["ecparam", "-name", c.openssl_name, "-genkey", "-noout", "-outform", "DER"])
            for k in range(n_hdr):
                gen[("hdr", k)] = ossl.add(["ecparam", "-name", "prime256v1", "-genkey", "-noout", "-outform", "DER"])
            ossl.run()
            # ---------------- library encodings of all keys (parallel per curve)
            rec = pool.map(_record_curve, [(c.name, keys[c.name], 4 if th else 2) for c in ws])
            kev = []                      # events for Trace_KeyEnc
            pending = []                  # (event, job id, post)
            for cname, evs, jobs in rec:
                off = len(kev)
                kev.extend(evs)
                for idx, args, data, post in jobs:
                    pending.append((kev[off + idx], ossl.add(args, data=bytes(data)), post))
            # ---------------- constructed public keys: x = 0, smallest / largest x, smallest / largest y (no scalar known)
            pkeys, pub_dec, pub_chk = {}, [], []
            for cname, pts, evs, jobs, djobs, cjobs in pool.map(_record_pub_curve, [(c.name, 4 if th else 2) for c in ws]):
                pkeys[cname] = pts
                off = len(kev)
                kev.extend(evs)
                for idx, args, data, post in jobs:
                    pending.append((kev[off + idx], ossl.add(args, data=bytes(data)), post))
                for kname, cpe, pe, pub, src, a1, a2 in djobs:
                    pub_dec.append((cname, kname, cpe, pe, pub, ossl.add(a1, data=src), ossl.add(a2, data=src)))
                for kname, src, a1 in cjobs:
                    pub_chk.append((cname, kname, src, ossl.add(a1, data=src)))
            if not any(x == 0 for _, x, _y in pkeys["NIST256p"]):
                raise MachineryError("no point with x = 0 constructed on P-256")
            # ---------------- the same PEM files in their other text representations (CRLF, blank lines, str/bytes, ...)
            if th:
                pcurves = [c.name for c in ws]
            else:
                pcurves = ["NIST256p"] + r.sample([c.name for c in ws if c.name != "NIST256p"], 2)
            for evs in pool.map(_pemrep_curve, [(cn, keys[cn][0][1]) for cn in pcurves]):
                kev.extend(evs)
            # ---------------- key objects of every provenance / internal representation through the encoders
            if th:
                vcurves = [c.name for c in ws]
            else:
                vcurves = ["NIST256p", "SECP112r2"] + r.sample([c.name for c in ws if c.name not in ("NIST256p", "SECP112r2")], 3)
            for evs in pool.map(_record_prov_curve, [(cn, keys[cn][0][1], "%d/c19prov/%s" % (_seed(), cn)) for cn in vcurves]):
                kev.extend(evs)
            # ---------------- structure-aware damage (edits of the TLV tree, single and in pairs)
            scurves = ["NIST256p", "SECP112r1"] + (["NIST521p", "BRAINPOOLP160r1", "SECP256k1"] if th else [])
            kev.extend(_smut_events(r, th, [(cn, keys[cn][0][1]) for cn in scurves]))
            # ---------------- the plug-in's key classes as decoders (raw and DER route, valid and damaged)
            kev.extend(_proxy_events(r, th, keys["NIST256p"]))
            # ---------------- openssl round B jobs for its own keys
            odec_jobs = []
            for (cname, k), jid in gen.items():
                _, kd = ossl.get(jid, must=True, what="genkey %s" % cname)
                kin = os.path.join(ossl.wd, "k%d" % jid)
                with open(kin, "wb") as f:
                    f.write(kd)
                jt = ossl.add(["ec", "-inform", "DER", "-in", "@in", "-text", "-noout"], infile=kin)
                if cname == "hdr":
                    jp = ossl.add(["ec", "-inform", "DER", "-in", "@in", "-pubout", "-outform", "DER"], infile=kin)
                    odec_jobs.append(("hdr", k, jt, jp))
                    continue
                for cpe in CPES:
                    for pe in FORMS:
                        fl = ["-conv_form", pe, "-param_enc", cpe]
                        j1 = ossl.add(["ec", "-inform", "DER", "-in", "@in", "-outform", "DER"] + fl, infile=kin)
                        j2 = ossl.add(["ec", "-inform", "DER", "-in", "@in", "-outform", "PEM"] + fl, infile=kin)
                        odec_jobs.append((cname, "sec1", cpe, pe, jt, j1, j2))
                        j1 = ossl.add(["ec", "-inform", "DER", "-in", "@in", "-pubout", "-outform", "DER"] + fl, infile=kin)
                        j2 = ossl.add(["ec", "-inform", "DER", "-in", "@in", "-pubout", "-outform", "PEM"] + fl, infile=kin)
                        odec_jobs.append((cname, "spki", cpe, pe, jt, j1, j2))
                        j2 = ossl.add(["pkey", "-inform", "DER", "-in", "@in", "-outform", "PEM", "-ec_conv_form", pe, "-ec_param_enc", cpe], infile=kin)
                        odec_jobs.append((cname, "pkcs8", cpe, pe, jt, None, j2))
            # bec2format header: library-side keys of P-256 as well
            p256 = _curve("NIST256p")
            hdr_lib = []
            # value classes of the raw form: X (or Y) starting with 0x04 (the value of the uncompressed-point marker) or 0x00
            special = []
            for dd in range(1, 4000):
                pt = _mk_sk("NIST256p", dd).verifying_key.pubkey.point
                fx, fy = pt.x() >> 248, pt.y() >> 248
                for cls, hit in (("x-starts-04", fx == 4), ("x-starts-00", fx == 0), ("y-starts-04", fy == 4), ("y-starts-00", fy == 0)):
                    if hit and sum(1 for k, _ in special if k == cls) < 2:
                        special.append((cls, dd))
                if len(special) >= 8:
                    break
            for kname, d in keys["NIST256p"] + special + [("random", r.randrange(1, p256.order)) for _ in range(40 if th else 8)]:
                raw = _raw_of_vk(_mk_sk("NIST256p", d).verifying_key)
                try:
                    obj = plugin.PublicEccKeyProxy.create_from_raw_fmt(raw)
                    dr = obj.to_der_fmt()
                    back0 = obj.to_raw_bin_fmt()
                except Exception as e:                      # noqa: BLE001 -- a valid raw key refused: recorded, rejected by the spec
                    kev.append({"op": "hdr", "src": "library key (%s): create_from_raw_fmt raised %s" % (kname, type(e).__name__), "raw": list(raw),
                                "der": [], "back": [], "ossl": [], "back2": [], "_cost": 1})
                    continue
                hdr_lib.append((kname, raw, dr, back0,
                                ossl.add(["ec", "-pubin", "-inform", "DER", "-in", "@in", "-pubout", "-outform", "DER"], data=dr)))
                # the same public key handed to BEC2's key class in every legal DER form (point encodings x named/explicit
                # parameters): the raw 64-byte form BEC2 derives from it must still be X||Y of that key
                vk = _mk_sk("NIST256p", d).verifying_key
                for pe in ("uncompressed", "compressed", "hybrid"):
                    for cpe in ("named_curve", "explicit"):
                        alt = vk.to_der(point_encoding=pe, curve_parameters_encoding=cpe)
                        ev2 = {"op": "hdr2", "src": "library key (%s) %s/%s" % (kname, pe, cpe), "raw": list(raw), "altder": list(alt),
                               "ok": True, "back": [], "exc": "", "_cost": 5}
                        try:
                            ev2["back"] = list(plugin.PublicEccKeyProxy.create_from_der_fmt(alt).to_raw_bin_fmt())
                        except Exception as e:              # noqa: BLE001
                            ev2["ok"], ev2["exc"] = False, type(e).__name__
                        kev.append(ev2)
            for kname, x, y in pkeys["NIST256p"]:
                raw = x.to_bytes(32, "big") + y.to_bytes(32, "big")
                try:
                    obj = plugin.PublicEccKeyProxy.create_from_raw_fmt(raw)
                    dr, back0 = obj.to_der_fmt(), obj.to_raw_bin_fmt()
                except Exception as e:                      # noqa: BLE001
                    kev.append({"op": "hdr", "src": "constructed key (%s): create_from_raw_fmt raised %s" % (kname, type(e).__name__), "raw": list(raw),
                                "der": [], "back": [], "ossl": [], "back2": [], "_cost": 1})
                    continue
                hdr_lib.append((kname, raw, dr, back0,
                                ossl.add(["ec", "-pubin", "-inform", "DER", "-in", "@in", "-pubout", "-outform", "DER"], data=dr)))
                from register_crypto_plugin.ecdsa.ellipticcurve import Point as _Point
                vk = VerifyingKey.from_public_point(_Point(p256.curve, x, y), p256)
                for pe in ("uncompressed", "compressed", "hybrid"):
                    for cpe in ("named_curve", "explicit"):
                        alt = vk.to_der(point_encoding=pe, curve_parameters_encoding=cpe)
                        ev2 = {"op": "hdr2", "src": "constructed key (%s) %s/%s" % (kname, pe, cpe), "raw": list(raw), "altder": list(alt),
                               "ok": True, "back": [], "exc": "", "_cost": 5}
                        try:
                            ev2["back"] = list(plugin.PublicEccKeyProxy.create_from_der_fmt(alt).to_raw_bin_fmt())
                        except Exception as e:              # noqa: BLE001
                            ev2["ok"], ev2["exc"] = False, type(e).__name__
                        kev.append(ev2)
            # a key and its negation share X and differ in the compressed prefix: decoded one after the other in ONE process
            # (whatever the decoder may remember of the first must not change the second), every curve, both orders
            for c in ws:
                dd = r.randrange(2, c.order - 2)
                for order in ((dd, c.order - dd, dd), (c.order - dd, dd)):
                    for dk in order:
                        vk = _mk_sk(c.name, dk).verifying_key
                        comp = vk.to_string("compressed")
                        ev3 = {"op": "hdr2", "src": "%s compressed, scalar %s" % (c.name, "d" if dk == dd else "n-d"), "raw": list(vk.to_string("raw")),
                               "altder": list(comp), "ok": True, "back": [], "exc": "", "_cost": 3}
                        try:
                            ev3["back"] = list(VerifyingKey.from_string(comp, curve=c).to_string("raw"))
                        except Exception as e:              # noqa: BLE001
                            ev3["ok"], ev3["exc"] = False, type(e).__name__
                        kev.append(ev3)
            ossl.run()

            # ---------------- fill in openssl's answers
            for ev, jid, post in pending:
                rc, out = ossl.get(jid)
                if rc != 0 or not out:
                    ev["ossl"] = []
                elif post == "pem2der":
                    try:
                        ev["ossl"] = list(_unpem(out))
                    except Exception:
                        raise MachineryError("openssl wrote an unreadable PEM")
                else:
                    ev["ossl"] = list(out)
            for job in odec_jobs:
                if job[0] == "hdr":
                    _, k, jt, jp = job
                    tpriv, tpub = _parse_text(ossl.get(jt, True, "text")[1].decode(), 32, 32)
                    od = ossl.get(jp, True, "pubout")[1]
                    try:
                        obj = plugin.PublicEccKeyProxy.create_from_raw_fmt(tpub)
                        odr, oback = list(obj.to_der_fmt()), list(obj.to_raw_bin_fmt())
                    except Exception:                       # noqa: BLE001 -- a valid raw key refused: recorded, rejected by the spec
                        odr, oback = [], []
                    try:
                        back2 = list(plugin.PublicEccKeyProxy.create_from_der_fmt(od).to_raw_bin_fmt())
                    except Exception:
                        back2 = []
                    kev.append({"op": "hdr", "src": "openssl key %d" % k, "raw": list(tpub), "der": odr,
                                "back": oback, "ossl": list(od), "back2": back2, "_cost": 20})
                    continue
                cname, kind, cpe, pe, jt, j1, j2 = job
                c = _curve(cname)
                tpriv, tpub = _parse_text(ossl.get(jt, True, "text")[1].decode(), _flen(c), c.baselen)
                pem = ossl.get(j2, True, "%s %s pem" % (cname, kind))[1]
                enc = ossl.get(j1, True, "%s %s der" % (cname, kind))[1] if j1 is not None else _unpem(pem)
                if kind == "spki":
                    dok, dpub, dpriv, _ = _dec_result(lambda: VerifyingKey.from_der(enc))
                    pok, ppub, ppriv, _ = _dec_result(lambda: VerifyingKey.from_pem(pem))
                    tp = []
                else:
                    dok, dpub, dpriv, _ = _dec_result(lambda: SigningKey.from_der(enc))
                    pok, ppub, ppriv, _ = _dec_result(lambda: SigningKey.from_pem(pem))
                    tp = list(tpriv)
                kev.append({"op": "odec", "kind": kind, "curve": c.openssl_name, "cpe": cpe, "pe": pe, "enc": list(enc), "pem": list(pem),
                            "tpub": list(tpub), "tpriv": tp, "dok": dok, "dpub": dpub, "dpriv": dpriv, "pok": pok, "ppub": ppub,
                            "ppriv": ppriv, "_cost": 8 + len(pem) // 5})
            for cname, kname, cpe, pe, pub, j1, j2 in pub_dec:
                c = _curve(cname)
                enc = ossl.get(j1, True, "%s %s spki der" % (cname, kname))[1]
                pem = ossl.get(j2, True, "%s %s spki pem" % (cname, kname))[1]
                dok, dpub, dpriv, _ = _dec_result(lambda: VerifyingKey.from_der(enc))
                pok, ppub, ppriv, _ = _dec_result(lambda: VerifyingKey.from_pem(pem))
                kev.append({"op": "odec", "kind": "spki", "curve": c.openssl_name, "cpe": cpe, "pe": pe, "enc": list(enc), "pem": list(pem),
                            "tpub": list(pub), "tpriv": [], "dok": dok, "dpub": dpub, "dpriv": dpriv, "pok": pok, "ppub": ppub, "ppriv": ppriv,
                            "_cost": 8 + len(pem) // 5})
            for cname, kname, src, jid in pub_chk:
                rc, _ = ossl.get(jid)
                kev.append({"op": "curve", "curve": cname, "what": "constructed key %s" % kname, "der": list(src), "lib": "ok",
                            "ossl": "ok" if rc == 0 else "reject", "_cost": 1})
            for kname, raw, dr, back, jid in hdr_lib:
                rc, od = ossl.get(jid)
                try:
                    back2 = list(plugin.PublicEccKeyProxy.create_from_der_fmt(od).to_raw_bin_fmt()) if rc == 0 else []
                except Exception:
                    back2 = []
                kev.append({"op": "hdr", "src": "library key (%s)" % kname, "raw": list(raw), "der": list(dr), "back": list(back),
                            "ossl": list(od) if rc == 0 else [], "back2": back2, "_cost": 20})

            # ---------------- damaged encodings through the six decoders
            if th:
                mcurves = [c.name for c in ws]
            else:
                others = [c.name for c in ws if c.name != "NIST256p"]
                mcurves = ["NIST256p"] + r.sample(others, 3)
            mjobs, bases = [], {}
            for cname in mcurves:
                d = keys[cname][0][1]
                be = _base_encodings(cname, d)
                for label, (dec, layer, base) in be.items():
                    if label in SKIP_DAMAGE and not (th and _flen(_curve(cname)) <= 32):
                        continue
                    bases[(cname, label)] = (dec, layer, base)
                    plan = [("trunc", k, 0) for k in range(len(base))]
                    plan += [("ext", len(base), v) for v in ((65, 61, 10, 120) if layer == "pem" else (0, 255, 48))]
                    npos = len(base)
                    # one explicit-parameter encoding with a compressed base point is damaged at EVERY position in the quick tier
                    # too (its decoder runs the curve arithmetic on damaged parameters: square roots modulo a damaged prime etc.)
                    full_quick = (cname == "NIST256p" and label == "spki/explicit/compressed")
                    if th or npos <= 72 or full_quick:
                        positions = range(npos)
                    else:
                        positions = sorted(set(range(24)) | set(r.sample(range(24, npos), 48)))
                    for pos in positions:
                        b = base[pos]
                        if layer == "pem":
                            vals = [b ^ 1, b ^ 0x20, 65, 61, 10, 45, 0, 255]
                        else:
                            vals = [b ^ 1, b ^ 0x80, 0, 0x7F, 0xFF, (b + 1) & 255]
                            if th:
                                vals += [(b - 1) & 255, 0x30, 0x80, 0x81, 0x05, r.randrange(256), r.randrange(256), r.randrange(256)]
                            elif full_quick:
                                vals += [0x05, 0x0D, (b - 1) & 255]
                        seen = set()
                        for v in vals:
                            if v != b and v not in seen:
                                seen.add(v)
                                plan.append(("mut", pos, v))
                    heavy = label.startswith(("sec1/explicit", "pkcs8/explicit")) and len(base) > 200
                    step = 150 if heavy else 1500
                    for k in range(0, len(plan), step):
                        mjobs.append((cname, d, label, plan[k:k + step]))
            r.shuffle(mjobs)
            n_mut = 0
            for cname, label, res in pool.imap_unordered(_mut_job, mjobs, chunksize=1):
                dec, layer, base = bases[(cname, label)]
                c = _curve(cname)
                L = c.baselen if layer == "scalar" else _flen(c) if layer == "point" else 0
                bend = _pem_body_end(base) if layer == "pem" else 0
                for mk, pos, val, out, mro, site in res:
                    data = list(_damage(base, mk, pos, val)) if layer in ("point", "scalar") else []
                    kev.append({"op": "mut", "dec": dec, "curve": c.openssl_name, "label": label, "layer": layer, "mk": mk, "pos": pos, "val": val,
                                "body": bool(layer == "pem" and mk == "trunc" and pos < bend), "data": data, "L": L, "out": out, "mro": mro,
                                "site": site, "_cost": 1})
                    n_mut += 1

            # ---------------- on-curve decision of damaged points, related to openssl
            cjobs = []
            # SECP112r2 (the only curve with cofactor > 1) always takes part: on it "on the curve" is not yet "valid"
            for cname in mcurves + [x for x in ("SECP112r2",) if x not in mcurves]:
                c = _curve(cname)
                vk = _mk_sk(cname, keys[cname][0][1]).verifying_key
                L = _flen(c)
                cases = []
                comp, unc, hyb = vk.to_der("compressed"), vk.to_der("uncompressed"), vk.to_der("hybrid")
                for _ in range(60 if cname == "SECP112r2" else 30 if th else 10):
                    k = r.randrange(1, L + 1)
                    cases.append(("compressed x", comp[:-k] + bytes([comp[-k] ^ (1 << r.randrange(8))]) + comp[len(comp) - k + 1:]))
                for _ in range(6 if th else 2):
                    k = r.randrange(1, 2 * L + 1)
                    cases.append(("uncompressed x/y", unc[:-k] + bytes([unc[-k] ^ (1 << r.randrange(8))]) + unc[len(unc) - k + 1:]))
                ph = len(hyb) - 2 * L - 1
                cases.append(("hybrid prefix parity", hyb[:ph] + bytes([hyb[ph] ^ 1]) + hyb[ph + 1:]))
                cases.append(("compressed prefix parity", comp[:len(comp) - L - 1] + bytes([comp[len(comp) - L - 1] ^ 1]) + comp[len(comp) - L:]))
                cases.append(("undamaged", unc))
                for what, dr in cases:
                    try:
                        VerifyingKey.from_der(dr)
                        lv = "ok"
                    except Exception:
                        lv = "reject"
                    # pkey -pubcheck: on the curve AND of the right order (secp112r2 has cofactor 4: decoding alone is not enough)
                    cjobs.append((cname, what, dr, lv, ossl.add(["pkey", "-pubin", "-inform", "DER", "-in", "@in", "-pubcheck", "-noout"], data=dr)))
            ossl.run()
            n_curve_ok = 0
            for cname, what, dr, lv, jid in cjobs:
                rc, _ = ossl.get(jid)
                ov = "ok" if rc == 0 else "reject"
                n_curve_ok += ov == "ok"
                kev.append({"op": "curve", "curve": cname, "what": what, "der": list(dr), "lib": lv, "ossl": ov, "_cost": 1})
        finally:
            pool.terminate()
            pool.join()

        # ---------------- der.py primitives
        pev = _prim_events(r, tier)

        # ---------------- canaries (binding self-test): corrupted copies of good events must be rejected
        def first(pred):
            for e in kev:
                if pred(e):
                    return dict(e)
            raise MachineryError("no event to build a canary from")
        canaries = {}
        e = first(lambda e: e["op"] == "enc" and e["kind"] == "spki" and e["cpe"] == "named_curve" and e["pe"] == "uncompressed")
        e["enc"] = e["enc"][:-3] + [e["enc"][-3] ^ 1] + e["enc"][-2:]
        canaries["enc: one bit of Y flipped in the recorded DER"] = (e, "public-point-bytes")
        e = first(lambda e: e["op"] == "enc" and e["kind"] == "sec1" and e["cpe"] == "explicit")
        e["dpriv"] = e["dpriv"][:-1] + [e["dpriv"][-1] ^ 1]
        canaries["enc: decoded scalar differs"] = (e, "roundtrip-private")
        e = first(lambda e: e["op"] == "pem" and e["kind"] == "sec1")
        e["pem"] = e["pem"][:40] + [e["pem"][40] ^ 2] + e["pem"][41:]
        canaries["pem: one base64 character changed"] = (e, "pem-bytes")
        e = first(lambda e: e["op"] == "ossl" and e["rel"] == "bytes" and e["ossl"])
        e["ossl"] = e["ossl"][:-1] + [e["ossl"][-1] ^ 1]
        canaries["ossl: openssl's bytes differ in the last octet"] = (e, "openssl-bytes-differ")
        e = first(lambda e: e["op"] == "odec" and e["kind"] == "pkcs8")
        e["dpriv"] = [e["dpriv"][0] ^ 1] + e["dpriv"][1:]
        canaries["odec: library decoded another scalar"] = (e, "decoded-private")
        e = first(lambda e: e["op"] == "hdr")
        e["der"] = e["der"][:24] + [65] + e["der"][25:]
        canaries["hdr: header octet 25 is 0x41"] = (e, "der-differs-from-EncodeSPKI")
        e = first(lambda e: e["op"] == "mut" and e["layer"] == "der" and e["mk"] == "trunc" and e["out"] == "raise")
        e.update(out="ok", mro=[], site="")
        canaries["mut: a truncated DER reported as accepted"] = (e, "truncation-accepted")
        e = first(lambda e: e["op"] == "mut" and e["out"] == "raise" and "UnexpectedDER" in e["mro"])
        e.update(mro=["KeyError", "LookupError", "Exception", "BaseException", "object"], site="canary")
        canaries["mut: a KeyError reported"] = (e, "undocumented-error")
        e = first(lambda e: e["op"] == "curve")
        e["lib"] = "reject" if e["lib"] == "ok" else "ok"
        canaries["curve: decisions differ"] = (e, "on-curve-decision-differs")
        # (built on a copy that is first made a GOOD event whatever the library answered, then corrupted in one field,
        #  so that a changed library cannot take the self-test down with it)
        VE = ["ValueError", "Exception", "BaseException", "object"]
        e = first(lambda e: e["op"] == "pemrep" and e["variant"] == "crlf" and e["form"] == "bytes" and e["kind"] == "sec1")
        e.update(dok=False, dpub=[], dpriv=[], dcurve="")
        canaries["pemrep: a CRLF text reported as rejected"] = (e, "pem-representation-rejected")
        e = first(lambda e: e["op"] == "pemrep" and e["variant"] == "crlf-trailing-blank-line" and e["form"] == "bytes" and e["kind"] == "spki")
        e.update(dok=True, dcurve=e["curve"], dpub=e["pub"], dpriv=e["priv"])
        e["text"] = e["text"][:45] + [e["text"][45] ^ 3] + e["text"][46:]
        canaries["pemrep: a text with one changed base64 character"] = (e, "text-is-no-representation-of-the-pem")
        e = first(lambda e: e["op"] == "proxy" and e["entry"] == "raw" and e["mk"] == "trunc" and e["pos"] == 40)
        e.update(out="raise", rraw=[], rder=[], pout="raise", pcls="ValueError", pmro=VE, praw=[], pder=[],
                 cls="MalformedPointError", mro=["MalformedPointError", "AssertionError", "Exception", "BaseException", "object"])
        canaries["proxy: a truncated raw key reported as refused with MalformedPointError"] = (e, "proxy-undocumented-error")
        e = first(lambda e: e["op"] == "proxy" and e["entry"] == "raw" and e["mk"] == "mut" and e["pos"] == 10)
        e.update(out="raise", cls="ValueError", mro=VE, rraw=[], rder=[], pout="raise", pcls="UnexpectedDER",
                 pmro=["UnexpectedDER", "ValueError", "Exception", "BaseException", "object"], praw=[], pder=[])
        canaries["proxy: raw and DER route refuse with different classes"] = (e, "routes-differ-in-error-class")
        e = first(lambda e: e["op"] == "smut" and e["benign"] and e["kind"] == "spki" and e["data"])
        e.update(out="raise", cls="ValueError", mro=VE, site="canary", dcurve="", dpub=[], dpriv=[])
        canaries["smut: a file without the optional cofactor reported as refused"] = (e, "valid-structure-rejected")
        e = first(lambda e: e["op"] == "smut" and e["benign"] and e["kind"] == "sec1" and e["data"])
        e.update(out="raise", cls="ZeroDivisionError", mro=["ZeroDivisionError", "ArithmeticError", "Exception", "BaseException", "object"], site="canary",
                 dcurve="", dpub=[], dpriv=[])
        canaries["smut: ZeroDivisionError reported"] = (e, "undocumented-error")
        e = first(lambda e: e["op"] == "enc" and e["kind"] == "spki" and e["cpe"] == "named_curve" and e["pe"] == "uncompressed")
        d0 = e["enc"]
        e = {"op": "smut", "dec": "VerifyingKey.from_der", "kind": "spki", "cpe": "named_curve", "curve": e["curve"], "edits": "canary: version-like INTEGER in front",
             "benign": False, "data": d0[:1] + [d0[1] + 3] + [2, 1, 0] + d0[2:], "pub": e["pub"], "priv": [], "out": "ok", "cls": "", "mro": [], "site": "",
             "dcurve": e["curve"], "dpub": e["pub"], "dpriv": [], "_hex": "", "_cost": 3}
        canaries["smut: an SPKI with an extra leading INTEGER reported as accepted"] = (e, "malformed-structure-accepted")
        e = first(lambda e: e["op"] == "pt" and e["key"].startswith("provenance: jacobian z=2") and e["pe"] == "uncompressed")
        e["enc"] = e["enc"][:-1] + [e["enc"][-1] ^ 1]
        canaries["pt: encoding of a projective key object differs in Y"] = (e, "point-bytes")
        pcan = dict(next(e for e in pev if e["op"] == "int" and len(e["mag"]) > 8))
        pcan["out"] = pcan["out"][:2] + pcan["out"][3:] + [0]
        for k, ev in enumerate(kev):
            ev["tid"] = k + 1
        can_ids = {}
        for what, (ev, clause) in canaries.items():
            ev["tid"] = len(kev) + 1
            ev["_cost"] = ev.get("_cost", 1)
            can_ids[ev["tid"]] = (what, clause)
            kev.append(ev)
        for k, ev in enumerate(pev):
            ev["tid"] = k + 1
        pcan["tid"] = len(pev) + 1
        pev.append(pcan)

        # ---------------- wait for MC, then let TLC judge the traces
        try:
            selftests = mc_future.result()
        finally:
            mc_exec.shutdown(wait=True)
        rejp, stp = tlc.validate_trace(os.path.join(SPEC, "Trace_DER.tla"), CFG, pev, os.path.join(wd, "tr_der"), shards=8)
        rejk, stk = tlc.validate_trace(os.path.join(SPEC, "Trace_KeyEnc.tla"), CFG, kev, os.path.join(wd, "tr_key"), shards=16, timeout=3000)

        # ---------------- binding self-tests
        got = {x[1]: x[2] for x in rejk}
        for tid, (what, clause) in can_ids.items():
            if got.get(tid) != clause:
                raise MachineryError("binding self-test: canary '%s' got verdict %r, expected %r" % (what, got.get(tid), clause))
        if pcan["tid"] not in {x[1] for x in rejp}:
            raise MachineryError("binding self-test: corrupted INTEGER event was accepted by Trace_DER")
        selftests.append("%d corrupted canary events (one per op of Trace_KeyEnc) and 1 of Trace_DER rejected with the expected clause" % len(can_ids))
        rep.cov["parts"]["selftests"] = selftests

        # ---------------- violations
        byid = {e["tid"]: e for e in kev}
        for _, tid, clause, _d in rejk:
            if tid in can_ids:
                continue
            e = byid[tid]
            op = e["op"]
            if op == "mut":
                if clause == "undocumented-error":
                    key = "C19:%s:%s@%s" % (e["dec"], e["mro"][0], e["site"] or "?")
                    what = "%s raises %s (raised in %s) on a damaged encoding; documented: %s" % (e["dec"], e["mro"][0], e["site"], ", ".join(DOCUMENTED))
                elif clause == "no-verdict":
                    key = "C19:%s:timeout" % e["dec"]
                    what = "%s did not return within %d CPU seconds" % (e["dec"], CPU_LIMIT_S)
                else:
                    key = "C19:%s:%s:%s" % (e["dec"], clause, e["layer"])
                    what = "%s accepts a damaged %s encoding (%s)" % (e["dec"], e["layer"], clause)
                dec, layer, base = bases[(next(c.name for c in ws if c.openssl_name == e["curve"]), e["label"])]
                data = dict(_short(e), base_hex=base.hex(), input_hex=_damage(base, e["mk"], e["pos"], e["val"]).hex())
            elif op in ("enc", "pt", "pem"):
                api = {"spki": "VerifyingKey.to_der", "sec1": "SigningKey.to_der", "pkcs8": "SigningKey.to_der"}.get(e.get("kind"), "to_string")
                if op == "pem":
                    api = api.replace("to_der", "to_pem")
                key = "C19:%s:%s" % (api, clause) if clause == "pkcs8-version" else "C19:%s:%s:%s" % (api, e.get("kind", e.get("pe")), clause)
                what = "library encoding rejected by the specification: %s" % clause
                if str(e.get("key", "")).startswith("provenance: "):
                    key += ":" + e["key"][12:].split(" / ")[0].split("[")[0].replace(" ", "-")
                    what = "encoding of a key object held as '%s': %s" % (e["key"][12:], clause)
                data = _short(e)
            elif op == "ossl":
                key = "C19:SigningKey.to_der:pkcs8-version" if clause == "pkcs8-version" else "C19:openssl-reencode:%s:%s" % (e["kind"], clause)
                what = "openssl re-encoding of the library's %s: %s" % (e["what"], clause)
                data = _short(e)
            elif op == "odec":
                key = "C19:openssl-decode:%s:%s" % (e["kind"], clause)
                what = "openssl's %s encoding (%s, %s, %s): %s" % (e["kind"], e["curve"], e["cpe"], e["pe"], clause)
                data = _short(e)
            elif op == "pemrep":
                if clause == "text-is-no-representation-of-the-pem":
                    raise MachineryError("harness produced a PEM variant (%s/%s) that the specification does not regard as the same text" % (e["variant"], e["form"]))
                key = "C19:%s:%s:%s/%s" % (e["loader"], clause, e["variant"], e["form"])
                what = "%s on the %s text (%s) of a PEM file it reads in canonical form: %s %s" % (e["loader"], e["variant"], e["form"], clause, e["exc"])
                data = _short(e, 2000)
            elif op == "smut":
                if clause == "benign-edit-not-valid-per-spec":
                    raise MachineryError("an edit the harness takes for benign is not valid per the specification: %s on %s/%s" % (e["edits"], e["kind"], e["cpe"]))
                if clause == "undocumented-error":
                    key = "C19:%s:%s@%s" % (e["dec"], e["cls"], e["site"] or "?")
                else:
                    key = "C19:%s:%s:%s" % (e["dec"], clause, e["kind"])
                what = "%s on a structurally edited %s/%s key file of %s (%s): %s -> %s %s" % (e["dec"], e["kind"], e["cpe"], e["curve"], e["edits"], clause, e["out"], e["cls"])
                data = dict(_short(e, 64), input_hex=e["_hex"])
            elif op == "proxy":
                if clause == "harness-pairing":
                    raise MachineryError("proxy event with an inconsistent paired input")
                key = "C19:plugin.%s:%s:%s" % (e["entry"], clause, e["cls"] or e["pcls"] or e["out"])
                what = ("crypto plug-in entry '%s' on a %s input (%s): %s -> %s %s; paired route -> %s %s"
                        % (e["entry"], e["mk"], bytes(e["input"]).hex(), clause, e["out"], e["cls"], e["pout"], e["pcls"]))
                data = _short(e, 400)
            elif op == "hdr2":
                key = "C19:PublicEccKey.to_raw_bin_fmt:%s" % clause
                what = "BEC2 key class loaded from a legal DER form (%s): %s" % (e["src"], clause)
                data = _short(e)
            elif op == "hdr":
                key = "C19:bec2-header:%s" % clause
                what = "PublicEccKey raw<->DER by constant header: %s" % clause
                data = _short(e)
            else:
                key = "C19:on-curve:%s:library-%s:openssl-%s" % (e["curve"], e["lib"], e["ossl"])
                what = "library and openssl disagree on a damaged point (%s): library %s, openssl %s" % (e["what"], e["lib"], e["ossl"])
                data = _short(e)
            rep.violation(key, what, data)
        pbyid = {e["tid"]: e for e in pev}
        for _, tid, clause, _d in rejp:
            if tid == pcan["tid"]:
                continue
            e = pbyid[tid]
            if e["op"] == "prim":
                rep.violation("C19:%s:%s" % (e["dec"], e["mro"][0]), "%s raises %s on %s input" % (e["dec"], e["mro"][0], "empty" if not e["data"] else "truncated"), _short(e))
            else:
                rep.violation("C19:der.%s:%s" % (e["op"], clause), "der.py primitive rejected by DER.tla: %s" % clause, _short(e))

        # ---------------- evidence
        cnt = {}
        for e in kev[:len(kev) - len(can_ids)]:
            cnt[e["op"]] = cnt.get(e["op"], 0) + 1
        n_spec = sum(cnt.get(k, 0) for k in ("enc", "pt", "pem", "hdr", "hdr2"))
        n_orc = sum(cnt.get(k, 0) for k in ("ossl", "odec", "curve"))
        mstat = {}
        for e in kev:
            if e["op"] == "mut" and e["tid"] not in can_ids:
                k = "%s/%s/%s" % (e["layer"], e["mk"], e["out"] if e["out"] != "raise" else next((m for m in e["mro"] if m in DOCUMENTED), e["mro"][0]))
                mstat[k] = mstat.get(k, 0) + 1
        pcnt = {}
        for e in pev[:-1]:
            pcnt[e["op"]] = pcnt.get(e["op"], 0) + 1
        stp = {k: v for k, v in stp.items() if k != "events"}
        stk = {k: v for k, v in stk.items() if k != "events"}
        rep.add_trace("Trace_DER (der.py primitives: lengths, INTEGER, OID, wrappers, damaged primitives)", stp, len(pev) - 1, True, {"by_op": pcnt})
        rep.add_trace("Trace_KeyEnc/encodings (library DER/PEM/point/scalar encodings of %d keys on 17 curves + bec2format header: bytes and round trip)"
                      % sum(len(v) for v in keys.values()), stk, n_spec, True, {"by_op": {k: cnt.get(k, 0) for k in ("enc", "pt", "pem", "hdr", "hdr2")}})
        rep.add_trace("Trace_KeyEnc/openssl (library->openssl re-encoding, openssl->library decoding, on-curve decisions)", {}, n_orc, False,
                      {"by_op": {k: cnt.get(k, 0) for k in ("ossl", "odec", "curve")}, "openssl_invocations": ossl.total,
                       "validated_in": "same TLC run as Trace_KeyEnc/encodings", "damaged_points_on_curve_per_openssl": n_curve_ok})
        rep.add_trace("Trace_KeyEnc/damaged (every truncation, extensions, single-byte mutations through from_der/from_pem/from_string)", {},
                      cnt.get("mut", 0), True, {"curves": mcurves, "encodings": len(bases), "outcomes": mstat,
                                                "validated_in": "same TLC run as Trace_KeyEnc/encodings"})
        pstat = {}
        for e in kev:
            if e["op"] == "proxy" and e["tid"] not in can_ids:
                k = "%s/%s/%s" % (e["entry"], "damaged" if e["mk"] not in ("valid", "valid-bytearray") else "valid", e["cls"] or e["out"])
                pstat[k] = pstat.get(k, 0) + 1
        rep.add_trace("Trace_KeyEnc/pem-text (PEM loaders of keys, EC PARAMETERS and ECDH on every other text representation of the file: "
                      "CRLF, blank / white-space lines, final line end, str / bytes / bytearray)", {}, cnt.get("pemrep", 0), True,
                      {"curves": pcurves, "loaders": sorted({e["loader"] for e in kev if e["op"] == "pemrep"}),
                       "variants": sorted({"%s/%s" % (e["variant"], e["form"]) for e in kev if e["op"] == "pemrep"}),
                       "validated_in": "same TLC run as Trace_KeyEnc/encodings"})
        rep.add_trace("Trace_KeyEnc/plugin (PublicEccKeyProxy / PrivateEccKeyProxy / registry functions / EccDecryptor.decrypt on valid and damaged "
                      "raw and DER keys; raw route and DER route side by side)", {}, cnt.get("proxy", 0), True,
                      {"outcomes": pstat, "validated_in": "same TLC run as Trace_KeyEnc/encodings"})
        sstat = {}
        for e in kev:
            if e["op"] == "smut" and e["tid"] not in can_ids:
                k = "%s/%s/%s%s" % (e["dec"], e["kind"], e["cls"] or e["out"], "/benign" if e["benign"] else "")
                sstat[k] = sstat.get(k, 0) + 1
        rep.add_trace("Trace_KeyEnc/structure (decoders on structurally edited key files: TLV members dropped / duplicated / swapped / inserted, INTEGER / OID / "
                      "OCTET STRING / BIT STRING contents replaced, tags changed; single edits and pairs)", {}, cnt.get("smut", 0), True,
                      {"curves": scurves, "outcomes": sstat, "validated_in": "same TLC run as Trace_KeyEnc/encodings"})
        rep.cov["provenance"] = {"curves": vcurves, "events": sum(1 for e in kev if str(e.get("key", "")).startswith("provenance: ")),
                                 "objects": sorted({e["key"][12:].split(" / ")[0] for e in kev if str(e.get("key", "")).startswith("provenance: ")}),
                                 "stages": sorted({e["key"].split(" / ")[1] for e in kev if str(e.get("key", "")).startswith("provenance: ")})}
        rep.cov["keys"] = {c: [k for k, _ in v] + ["constructed:" + k for k, _x, _y in pkeys.get(c, [])] for c, v in keys.items()}
        for pred in (lambda e: e["op"] == "enc" and e["kind"] == "pkcs8" and e["curve"] == "secp112r1" and e["cpe"] == "named_curve",
                     lambda e: e["op"] == "hdr",
                     lambda e: e["op"] == "mut" and e["out"] == "raise" and not any(m in DOCUMENTED for m in e["mro"]),
                     lambda e: e["op"] == "mut" and e["layer"] == "point" and e["mk"] == "trunc",
                     lambda e: e["op"] == "odec" and e["curve"] == "secp112r2" and e["kind"] == "sec1" and e["cpe"] == "named_curve",
                     lambda e: e["op"] == "curve" and e["ossl"] == "ok" and e["what"] != "undamaged"):
            for e in kev:
                if pred(e):
                    rep.sample(_short(e, 400))
                    break
    rep.cov["exhaustive"] = False
    rep.cov["explanation"] = ("MC parts are exhaustive on their bounded instances; the C->S part covers all 17 curves and all formats for the "
                              "keys listed, every truncation and (thorough) every byte position of the damaged-encoding part")
    rep.assumptions += [
        "openssl 3.0 CLI as differential oracle for big-integer content (bytes of re-encodings, parsed keys via -text, on-curve decisions)",
        "X||Y and scalar octets of a key are taken from the integers of the library's point / secret multiplier (int.to_bytes), not from its encoders",
        "CurveTab in KeyEnc.tla (OID arcs, field and scalar lengths of the 17 curves) transcribed from SEC 2 / RFC 5480 / RFC 5639",
        "PKCS#8 DER of openssl is obtained by base64-decoding its PEM output (openssl pkey writes the traditional format for -outform DER)",
        "for SEC1/PKCS#8 with explicit parameters and a compressed/hybrid public key openssl is asked for the uncompressed form "
        "(the library leaves the generator uncompressed, openssl cannot write that mix); compared with the library's uncompressed encoding",
        "key objects of every provenance: expected coordinates of k*Q, Q+G and d*G from affine integer arithmetic in harness/c19points.py; recovered keys "
        "are identified by x()/y() of a separate recovery (these accessors do not rescale the point)",
        "structure-aware damage: harness/c19der.py only generates the inputs (TLV tree edits with correct lengths); acceptance is judged by the shape "
        "parsers of KeyEnc.tla except where the decoders are lenient by their own documentation (LenientAlways / LenientPrivate in Trace_KeyEnc.tla); "
        "only dropped OPTIONAL members / an inserted seed are required to be accepted with the same key",
        "constructed public keys (harness/c19points.py): points solved from the curve equation with integer arithmetic; only p, a, b, n, h are read "
        "from the library; openssl pkey -pubcheck confirms each one; openssl's six SPKI forms of them are converted from the library's uncompressed "
        "named encoding, whose bytes TLC has computed itself",
        "PEM text representations: the set that the unchanged library reads as the same key (LF/CRLF/mixed line ends, blank and white-space lines, "
        "white space at line ends, final line end or none, str/bytes/bytearray); CR-only line ends, text after the END line and memoryview are not in it; "
        "the specification regards two texts as the same file iff they agree after removing HT LF CR SP",
        "plug-in key classes: every refusal is a ValueError, except UnknownCurveError for a well-formed SubjectPublicKeyInfo of another named curve "
        "(decided by ParseSPKI in the specification); PrivateEccKeyProxy.create_from_der_fmt is judged on the library's documented classes",
        "mutated encodings whose shape is still valid are judged on the error class only, accept/reject only through the sampled on-curve events",
        "a decoder call is limited to %d CPU seconds (virtual timer, independent of machine load)" % CPU_LIMIT_S,
        "TLC integer arithmetic and sequence operators",
    ]
    return rep


def replay(path):
    """bin/check C19 --replay <file>: re-run the recorded input on the real code (damaged encodings) or
    re-submit the recorded event, and let TLC judge it again."""
    import json
    e = dict(json.load(open(path))["data"])
    for k, v in list(e.items()):
        if isinstance(v, str) and v.startswith("hex:"):
            e[k] = list(bytes.fromhex(v[4:]))
    spec = "Trace_DER.tla" if e.get("op") in ("enclen", "readlen", "int", "oid", "wrap", "prim") else "Trace_KeyEnc.tla"
    if e.get("op") == "mut":
        signal.signal(signal.SIGVTALRM, _alarm)
        c = next(c for c in _ws_curves() if c.openssl_name == e["curve"])
        data = bytes.fromhex(e.pop("input_hex"))
        e.pop("base_hex", None)
        e["out"], e["mro"], e["site"] = _call(_decoders(c)[e["dec"]], data)
        print("%s(%s) on %s -> %s %s %s" % (e["dec"], data.hex(), e["curve"], e["out"], e["mro"][:1], e["site"]))
    e["tid"] = 1
    with Scratch("c19r") as wd:
        rej, _ = tlc.validate_trace(os.path.join(SPEC, spec), CFG, [e], wd, shards=1)
    for x in rej:
        print("REJECTED %s: op %s" % (x[2], e.get("op")))
    if not rej:
        print("accepted: op %s" % e.get("op"))
    return 1 if rej else 0
