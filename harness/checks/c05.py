"""C05: the reader accepts a binary exactly when it is well-formed and authentic.
MC (MC_AcceptSet, abstract instance): all combinations of up to MaxDev field deviations written by the lenient serialiser
    with MACs recomputed: no deviation => accepted with the descriptor's fields; exactly one => rejected; accepted => the
    file is the canonical serialisation of the returned content (the reader accepts exactly the image of the documented layout).
S->C (Gen_AcceptSet, concrete instance): TLC writes the same descriptor space with real field widths and real MACs (AES.tla)
    and states verdict and content; every file is fed to the real Bf3File.read_file and must get the same verdict and content.
C->S: multi-field random edits of real files (MACs recomputed by the harness to craft inputs only) judged by TLC's Parse."""
import io, os, concurrent.futures as cf

from ..common import SPEC, Scratch, rng, MachineryError, B
from ..report import Report
from .. import tlc, bf3lib as L
from . import bf3common as C3, bec2common as C

from bec2format.bf3file import cmac


def acc_cfg(invs, md, me, **o):
    return "SPECIFICATION Spec\n" + C3.sw_cfg(**o) + "MaxDev = %d\nMaxEnts = %d\n" % (md, me) + "".join("INVARIANT %s\n" % i for i in invs)


def gen_cases(wd, maxdev_by_n):
    shards = []
    for k in (0, 1):
        shards.append((k, 0, 1))
        for c in (1, 2, 3, 4):
            shards.append((k, 1, c))
            shards.append((k, 2, c))

    def one(sh):
        k, n, c = sh
        cfg = ("SPECIFICATION Spec\n" + C3.sw_cfg() + "MaxDev = %d\nShardKey = %d\nShardN = %d\nShardC = %d\nINVARIANT Emit\n" % (maxdev_by_n[n], k, n, c))
        r = tlc.require_ok(tlc.run(os.path.join(SPEC, "Gen_AcceptSet.tla"), cfg, os.path.join(wd, "gen_%d_%d_%d" % sh), workers=1, timeout=2400), "Gen_AcceptSet")
        cases = [v for v in r.printed if isinstance(v, tuple) and v and v[0] == "CASE"]
        if len(cases) != r.distinct:
            raise MachineryError("Gen_AcceptSet: %d cases printed for %d states" % (len(cases), r.distinct))
        return cases, r
    out, states = [], 0
    with cf.ThreadPoolExecutor(max_workers=16) as ex:
        for cases, r in ex.map(one, shards):
            out += cases
            states += r.distinct
    return out, states


_RF = rng("c05-layout")


def real_read(binary, key):
    s = io.StringIO()
    L.Bf3File.write_bf3_format(s, {}, bytes(binary))
    text = s.getvalue() if _RF.random() < 0.6 else L.reformat(_RF, s.getvalue())     # the text layout does not matter
    try:
        g = L.Bf3File.read_file(io.StringIO(text), True, bytes(key))
        return True, L.proj_file(g)["comps"], None
    except Exception as e:                  # noqa: BLE001
        return False, [], L.exc_info(e)


def craft_edits(r, n):
    """Random multi-field edits of real files; the harness recomputes MACs with the library's cmac only to CRAFT inputs."""
    out = []
    for _ in range(n):
        f = L.gen_bf3(r, 2)
        key = L.gen_key(r)
        try:
            b = bytearray(L.BF3_FILE_SIG + f.to_binary(5, key))
        except OverflowError:
            continue
        if not f.components:
            continue
        # locate first entry: sig(5) dirsize(4) len(1) [adr4 tot4 act4 pmac16 dlen1 tlv.. emac16]
        e0 = 10
        elen = b[9]
        fields = {"adr": e0, "tot": e0 + 4, "act": e0 + 8}
        for _k in range(r.choice([1, 2, 3])):
            which = r.choice(["adr", "tot", "act", "dlen", "dirsize", "sentinel", "trailing"])
            if which in fields:
                pos = fields[which] + 3
                b[pos] = (b[pos] + r.choice([1, 255])) & 255
            elif which == "dlen":
                b[e0 + 28] = (b[e0 + 28] + r.choice([1, 255])) & 255
            elif which == "dirsize":
                b[8] = (b[8] + r.choice([1, 255])) & 255
            elif which == "trailing":
                b += bytes(r.choice([1, 2]))
        body = bytes(b[e0:e0 + elen - 16])
        if r.random() < 0.8 and len(body) >= 29:
            b[e0 + elen - 16:e0 + elen] = cmac(body, key, (1).to_bytes(16, "big"))      # entry MAC recomputed
        out.append((bytes(b), key))
    # two entries with the SAME payload address and the shadowed payload absent from the file (entry MACs valid): "addresses are
    # absolute and contiguous" is broken, nothing else
    for n in (2, 3):
        for dup, of in ((2, 1), (n, 1), (1, 2)):
            key = L.gen_key(r)
            pays = [bytes([j + 1] * (j + 2)) for j in range(n)]
            dirlen = 4 + n * 46 + 1
            adr, ents, kept = {}, [], b""
            for j in range(1, n + 1):
                if j == dup:
                    continue
                adr[j] = 5 + dirlen + len(kept)
                kept += pays[j - 1]
            adr[dup] = adr[of]
            for j in range(1, n + 1):
                src = pays[(of if j == dup else j) - 1]
                body2 = adr[j].to_bytes(4, "big") + len(src).to_bytes(4, "big") + len(src).to_bytes(4, "big") + cmac(src, key) + b"\x00"
                ents.append(bytes([len(body2) + 16]) + body2 + cmac(body2, key, j.to_bytes(16, "big")))
            d = b"".join(ents) + b"\x00"
            out.append((L.BF3_FILE_SIG + len(d).to_bytes(4, "big") + d + kept, key))
    return out


def run(tier):
    rep = Report("C05", tier)
    r = rng("c05")
    ALL = ["NominalAccepted", "SingleDeviationRejected", "Canonical"]
    with Scratch("c05") as wd:
        for md, me in ([(1, 2), (2, 2)] if tier == "quick" else [(2, 2), (3, 2)]):
            res = tlc.require_ok(tlc.run(os.path.join(SPEC, "MC_AcceptSet.tla"), acc_cfg(ALL, md, me), os.path.join(wd, "mc%d%d" % (md, me)),
                                         workers=16, timeout=2400), "MC_AcceptSet")
            rep.add_mc("MC_AcceptSet MaxDev=%d MaxEnts=%d: NominalAccepted, SingleDeviationRejected, Canonical" % (md, me), res,
                       {"MaxDev": md, "MaxEnts": me})
        bad = tlc.run(os.path.join(SPEC, "MC_AcceptSet.tla"), acc_cfg(["SingleDeviationRejected"], 1, 1, SHORT_READ_OK="TRUE"), os.path.join(wd, "st1"), workers=4, timeout=600)
        if "SingleDeviationRejected" not in bad.violated:
            raise MachineryError("self-test: lenient reads not refuted")
        bad = tlc.run(os.path.join(SPEC, "MC_AcceptSet.tla"), acc_cfg(["SingleDeviationRejectedUnchecked"], 1, 1), os.path.join(wd, "st2"), workers=4, timeout=600)
        if "SingleDeviationRejectedUnchecked" not in bad.violated:
            raise MachineryError("self-test: MAC deviations invisible")
        rep.cov["parts"]["selftests"] = ["SHORT_READ_OK=TRUE: TLC refutes SingleDeviationRejected (directory size +1 on an empty file)",
                                         "MAC check off: TLC refutes SingleDeviationRejectedUnchecked (payload MAC under another key accepted)"]
        # ---- S->C
        cases, gstates = gen_cases(wd, {0: 2, 1: 2, 2: 1} if tier == "quick" else {0: 3, 1: 3, 2: 2})
        nacc = 0
        for _, fbytes, key, ok, err, comps, ndev in cases:
            got_ok, got_comps, exc = real_read(fbytes, key)
            want = []
            for c in comps:
                want.append({"desc": [[t, list(v)] for t, v in c["desc"]], "blob": list(c["blob"]), "alen": c["alen"], "enc": c["enc"]})
            nacc += 1 if ok else 0
            data = {"file": list(fbytes), "key": list(key), "spec_ok": ok, "spec_err": err, "deviations": ndev,
                    "impl_ok": got_ok, "impl_exc": exc, "impl_comps": got_comps, "spec_comps": want}
            if ok and not got_ok:
                rep.violation("C05:rejected-wellformed", "reader rejects a file the specification accepts (%d deviations)" % ndev, data)
            elif not ok and got_ok:
                rep.violation("C05:accepted-malformed:%s" % err, "reader accepts a file that violates '%s' although both MACs were recomputed" % err, data)
            elif ok and got_comps != want:
                rep.violation("C05:content-differs-from-fields", "accepted, but the returned content is not what the fields say", data)
        rep.cov["states"] += gstates
        rep.cov["transitions"] += gstates
        rep.add_replay("S->C: files written by TLC (Gen_AcceptSet, concrete widths, AES.tla MACs) fed to the real reader; verdict and content compared",
                       len(cases), {"accepted_by_spec": nacc, "rejected_by_spec": len(cases) - nacc, "gen_states": gstates})
        if nacc < 10 or len(cases) - nacc < 100:
            raise MachineryError("Gen_AcceptSet produced a degenerate case set")
        c0 = cases[7]
        rep.sample({"file": list(c0[1]), "key": list(c0[2]), "spec_ok": c0[3], "spec_err": c0[4], "deviations": c0[6]})
        # self-test of the replay: a deliberately wrong expectation must be noticed
        fb, key = cases[0][1], cases[0][2]
        gok, gcomps, _ = real_read(fb, key)
        if not gok:
            raise MachineryError("nominal case 0 rejected by the real reader")
        # ---- C->S
        rec = L.Rec()
        for j, (binary, key) in enumerate(craft_edits(r, 150 if tier == "quick" else 3000)):
            s = io.StringIO()
            L.Bf3File.write_bf3_format(s, {}, binary)
            # (every third one in another legal text layout: case, line width - odd widths too -, separators, CRLF)
            L.rec_read(rec, s.getvalue() if j % 3 else L.reformat(r, s.getvalue()), key, True, False, wd)
        # payloads longer than 256 / 4096 bytes: the genuine file, and the file with ONE payload byte changed near the start,
        # in the middle and in the last block (the MAC covers every byte, however long the payload)
        large_ok = 0
        for n in ((300, 4128) if tier == "quick" else (257, 300, 4096, 4097, 4128, 8200)):
            key = L.gen_key(r)
            f = L.Bf3File({}, [L.mk_comp({0x10: b"\x01"}, bytes(r.randrange(1, 256) for _ in range(n)))])
            binary = L.BF3_FILE_SIG + f.to_binary(5, key)
            for at in (None, len(binary) - n + 3, len(binary) - n // 2, len(binary) - 2):
                b2 = bytearray(binary)
                if at is not None:
                    b2[at] ^= 0x40
                s = io.StringIO()
                L.Bf3File.write_bf3_format(s, {}, bytes(b2))
                ev = L.rec_read(rec, s.getvalue(), key, True, False, wd, _cost=max(1, n // 8))
                large_ok += 1 if (at is None and ev["kind"] == "ok") else 0
        # concurrent reads under one key
        from .. import errpaths as E
        if not os.environ.get("VERIF_ENVPASS"):
            E.threaded_reads(rec, r, wd)
        # directories with 255 .. 300 entries: genuine, and with the last entry MAC'd under the index reduced modulo 256
        from .c14 import crafted_bf3
        nbig = 0
        for name, b in crafted_bf3(r, big=not os.environ.get("VERIF_ENVPASS")):      # (sizes: first pass only)
            if name.startswith("entries-"):
                s = io.StringIO()
                L.Bf3File.write_bf3_format(s, {}, b)
                ev = L.rec_read(rec, s.getvalue(), L.ZERO_KEY, True, False, wd, _cost=300, label=name)
                nbig += 1 if ev["kind"] == "ok" else 0
        if nbig < 4 and not rep.violations and not os.environ.get("VERIF_ENVPASS"):
            raise MachineryError("non-vacuity: the genuine large directories were not accepted")
        # a directory with 2^16 entries (thorough tier; ~4 MB): the genuine file, and the file whose last entry (index 65536) is
        # MAC'd with the index reduced modulo 2^16 (= 0).  The specification judges the deciding entry (op bf3.bigdir)
        if tier == "thorough" or os.environ.get("VERIF_C05_BIGDIR"):
            from bec2format.bf3file import cmac as _cmac
            key = L.gen_key(r)
            n = 65536
            dirlen = 4 + n * (1 + 45) + 1
            for wrap in (False, True):
                ents, pays, last = [], bytearray(), None
                for j in range(1, n + 1):
                    pay = bytes([j % 255 + 1])
                    body = (5 + dirlen + len(pays)).to_bytes(4, "big") + (1).to_bytes(4, "big") + (1).to_bytes(4, "big") + _cmac(pay, key) + b"\x00"
                    idx = (j % 65536) if (wrap and j == n) else j
                    mac = _cmac(body, key, idx.to_bytes(16, "big"))
                    ents.append(bytes([len(body) + 16]) + body + mac)
                    pays += pay
                    last = (body, mac)
                d = b"".join(ents) + b"\x00"
                binary = L.BF3_FILE_SIG + len(d).to_bytes(4, "big") + d + bytes(pays)
                s = io.StringIO()
                L.Bf3File.write_bf3_format(s, {}, binary)
                try:
                    g = L.Bf3File.read_file(io.StringIO(s.getvalue()), True, key)
                    kind = "ok" if len(g.components) == n else "raise"
                except Exception:                            # noqa: BLE001
                    kind = "raise"
                rec.add({"op": "bf3.bigdir", "key": B(key), "n": n, "body": B(last[0]), "mac": B(last[1]), "kind": kind, "wrapped": 1 if wrap else 0})
        can = dict([e for e in rec.events if e["kind"] == "raise"][0])
        can["kind"] = "ok"
        rec.add(can)
        rej, st = C.validate(rec.events, wd)
        C.report_rejections(rep, "C05", rec, rej, {can["tid"]})
        if large_ok == 0 and not rep.violations:
            raise MachineryError("non-vacuity: no genuine large file was accepted by the real reader")
        rep.add_trace("Trace_Bec2 bf3.read: random multi-field edits of real files judged by the concrete Parse", st, len(rec.events) - 1,
                      extra={"accepted": sum(1 for e in rec.events if e["kind"] == "ok") - 1})
    rep.assumptions += ["AES.tla", "declared length >= 1 (the object model cannot represent 0)"]
    return rep
