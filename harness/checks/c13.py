"""C13: BF2 import preserves firmware bytes and rejects what BF3 cannot represent.

MC (spec/MC_Bf2Import.tla, PAGE = 4, exhaustive): F platform filters (rendered expression == meaning of the filter bytes
for all assignments), P payload layouts (blob = contiguous image from 0, raw lines in order, memory image = every
extent, each line once; runs == lines), S section layouts (machine on the printed items == what the section
descriptors state; lines used once; rejections; grammar round trip).
C->S (spec/Trace_Bf2Import.tla, PAGE = 65536): the driver (harness/bf2lib.py) prints real BF2 text from generated layouts,
runs the real Bf3File.bf2_import / bf2_unpack_payload / bf2_convert_payload, attributes every returned byte to its
source line and TLC computes the expected components / comments / rejection from the layout.
Self-tests: DROP_FIRST_AFTER_GAP / SKIP_RETAINS_DATA on => TLC refutes; dangling filter bit => refuted; corrupted
canary events => rejected by the trace spec."""
import os, copy, collections, concurrent.futures as cf

from ..common import SPEC, Scratch, rng, MachineryError
from ..report import Report
from .. import tlc
from .. import bf2lib as B

MC = os.path.join(SPEC, "MC_Bf2Import.tla")
TRACE = os.path.join(SPEC, "Trace_Bf2Import.tla")
TRACE_CFG = "CONSTANT PAGE = 65536\nINIT Init\nNEXT Next\n"

ALL = dict(PAGE=4, DROP_FIRST_AFTER_GAP=False, SKIP_RETAINS_DATA=False, MaxF=3, MaxRuns=3, MaxPage=2, S_MaxSec=1,
           S_Types=[52, 53, 57, 61, 64, 72, 112, 131, 132, 80], S_Sels=["none", "single", "multi", "bgm", "bgmneg", "bgmand"],
           S_Vers=["none", "star", "v"], S_Sifs=["none", "star", "ok", "bad"],
           S_Shapes=["one", "two", "straddle", "gap", "gapmid", "nz", "pagegap", "nonbase"], S_Crcs=["none", "pre", "post"],
           S_Reboots=[False, True], S_Upds=[True, False], S_Fws=["none", "rel", "dbg"], S_Creators=[False, True],
           S_Enfs=[True, False])
P_INV = ["RawInOrder", "BlobIsImage", "MemImage", "RunsAreLines"]
S_INV = ["SAgree", "SUsedOnce", "SRejects", "SGrammar"]


def _lit(v):
    if isinstance(v, bool):
        return "TRUE" if v else "FALSE"
    if isinstance(v, str):
        return '"%s"' % v
    if isinstance(v, list):
        return "{" + ", ".join(_lit(x) for x in v) + "}"
    return str(v)


def cfg(mode, invs, **kw):
    c = dict(ALL)
    c.update(kw)
    t = "INIT Init%s\nNEXT Next%s\n" % (mode, mode)
    t += "".join("CONSTANT %s = %s\n" % (k, _lit(v)) for k, v in c.items())
    t += "".join("INVARIANT %s\n" % i for i in invs)
    return t, {k: v for k, v in c.items() if (k.startswith("S_") if mode == "S" else k in ("PAGE", "MaxF", "MaxRuns", "MaxPage"))
               or k in ("PAGE", "DROP_FIRST_AFTER_GAP", "SKIP_RETAINS_DATA")}


def mc_jobs(tier):
    """(name, mode, invariants, constants, expect_violated or None, workers)"""
    th = tier == "thorough"
    j = []
    j.append(("F filters (<= %d entries over 3 ids x more x neg, all 8 assignments)" % (4 if th else 3), "F",
              ["FilterEquiv", "FilterHeader"], dict(MaxF=4 if th else 3), None, 2))
    j.append(("P payload layouts (<= 3 runs of 1..2 lines x 1..3 bytes, 3 pages of 4 bytes, any order)", "P", P_INV,
              dict(MaxRuns=3, MaxPage=2), None, 3))
    if th:
        j.append(("P payload layouts (<= 4 runs, 3 pages)", "P", P_INV, dict(MaxRuns=4, MaxPage=2), None, 8))
        j.append(("P payload layouts (<= 5 runs, 2 pages)", "P", P_INV, dict(MaxRuns=5, MaxPage=1), None, 8))
    else:
        j.append(("P payload layouts (<= 4 runs, 2 pages)", "P", P_INV, dict(MaxRuns=4, MaxPage=1), None, 4))
    # one section: every mapped tag type x every shape / every instruction combination
    hdr_q = dict(S_Upds=[True, False], S_Fws=["rel", "dbg"], S_Creators=[True], S_Enfs=[True])
    if th:
        j.append(("S one section: all tag types x shapes x instructions x headers", "S", S_INV, dict(S_MaxSec=1), None, 8))
    else:
        j.append(("S one section: all tag types x all shapes", "S", S_INV,
                  dict(S_MaxSec=1, S_Sels=["none", "single"], S_Vers=["none", "v"], S_Sifs=["none", "ok"], S_Crcs=["none"], **hdr_q), None, 3))
        j.append(("S one section: all instruction combinations x headers", "S", S_INV,
                  dict(S_MaxSec=1, S_Types=[53, 57, 112, 132], S_Shapes=["one"], S_Creators=[True], S_Enfs=[True]), None, 4))
    two = dict(S_MaxSec=2, S_Types=[52, 53, 112, 132], S_Sels=["none", "single"], S_Vers=["none", "v"], S_Sifs=["none", "ok", "bad"],
               S_Shapes=["one", "gap"], S_Crcs=["none", "post"], S_Upds=[True], S_Fws=["none", "rel"], S_Creators=[False], S_Enfs=[True])
    if th:
        two.update(S_Fws=["none", "rel", "dbg"])
    else:
        two.update(S_Types=[52, 53, 132], S_Shapes=["one"], S_Crcs=["none"], S_Fws=["rel"])
    j.append(("S two sections (persistence / consumption / delimiters / skip / ignore)", "S", S_INV, two, None, 8 if th else 4))
    three = dict(S_MaxSec=3, S_Types=[52, 53, 112, 132] if th else [53, 132], S_Sels=["none"], S_Vers=["none", "v"],
                 S_Sifs=["none", "ok", "bad"], S_Shapes=["one"], S_Crcs=["none"], S_Upds=[True], S_Fws=["none"], S_Creators=[False], S_Enfs=[True])
    j.append(("S three sections", "S", S_INV, three, None, 8 if th else 4))
    # self-tests: each must be refuted
    j.append(("selftest DROP_FIRST_AFTER_GAP: memory image", "P", ["MemImage"], dict(DROP_FIRST_AFTER_GAP=True), "MemImage", 1))
    j.append(("selftest DROP_FIRST_AFTER_GAP: blob", "P", ["BlobIsImage"], dict(DROP_FIRST_AFTER_GAP=True), "BlobIsImage", 1))
    j.append(("selftest DROP_FIRST_AFTER_GAP: import of a blob section", "S", ["SAgree"],
              dict(DROP_FIRST_AFTER_GAP=True, S_Types=[53], S_Sels=["none"], S_Vers=["none"], S_Sifs=["none"], S_Crcs=["none"],
                   S_Upds=[True], S_Fws=["none"], S_Creators=[False], S_Enfs=[True]), "SAgree", 1))
    j.append(("selftest SKIP_RETAINS_DATA", "S", ["SAgree"],
              dict(SKIP_RETAINS_DATA=True, S_MaxSec=2, S_Types=[53, 132], S_Sels=["none"], S_Vers=["none", "v"], S_Sifs=["none", "ok", "bad"],
                   S_Shapes=["one"], S_Crcs=["none"], S_Upds=[True], S_Fws=["none"], S_Creators=[False], S_Enfs=[True]), "SAgree", 1))
    j.append(("selftest filter with dangling continuation bit", "F", ["FilterEquivAll"], dict(MaxF=2), "FilterEquivAll", 1))
    return j


# ------------------------------------------------------------------ fixed layouts (always exercised, whatever the seed)
def fixed_imports(tier="quick"):
    out = []

    def sec(L, bt, spans):
        return B.to_runs(L, [(bt + (a >> 16), a & 0xFFFF, n) for a, n in spans])
    # 1 blob with a gap before its last line
    L = B.Lines()
    out.append(([B.cmt("Bf3Update", "1"), B.item("grp", runs=sec(L, 0x35, [(0, 3), (5, 2)]))], L, True))
    # 2 blob with a gap in the middle / non-zero start
    L = B.Lines()
    out.append(([B.cmt("Bf3Update", "1"), B.item("grp", runs=sec(L, 0x3D, [(0, 3), (5, 2), (7, 4)]))], L, True))
    L = B.Lines()
    out.append(([B.cmt("Bf3Update", "1"), B.item("grp", runs=sec(L, 0x40, [(4, 3), (7, 2)]))], L, True))
    # 3 section with an unsupported interface closed by REBOOT, then a supported one
    L = B.Lines()
    out.append(([B.cmt("Bf3Update", "1"), B.ins("CHECK_FWVER", "hex", [0, 0, 2, 1, 2]), B.ins("SELECT_IF", "RS485"),
                 B.item("grp", runs=sec(L, 0x70, [(0, 16), (16, 26)])), B.ins("REBOOT"),
                 B.ins("CHECK_FWVER", "*"), B.ins("SELECT_IF", "BRP-TCP"), B.item("grp", runs=sec(L, 0x83, [(0, 42)])), B.ins("REBOOT")], L, True))
    # 4 clean file over every mapped tag type, one image crossing a page, ignored prepare / activate groups
    L = B.Lines()
    its = [B.cmt("Firmware", "1100 IDE ZY    1.23.04 2019"), B.cmt("Creator", "fwpack"), B.cmt("Bf3Update", "1")]
    for bt, proto in ((0x70, "BRP"), (0x83, "BRP-SER"), (0x84, None), (0x34, None), (0x35, None), (0x39, None), (0x3D, None), (0x40, None), (0x48, None)):
        its.append(B.ins("CHECK_FWVER", "hex", [1, 2, 4, 1, 2, 3, 4]))
        if proto:
            its.append(B.ins("SELECT_IF", proto))
        if bt in B.PERIPH:
            its.append(B.ins("SELECT", bytes_=[1, 1, 0, B.PERIPH[bt]]))
        spans = [(0xFFFF - 9, 10), (0x10000, 5)] if bt == 0x84 else [(0, 250), (250, 250), (500, 1)]
        if bt == 0x84:
            spans = [(a, 250) for a in range(0, 0xFFFF - 9 - 249, 250)]
            last = spans[-1][0] + 250
            spans += [(last, 0x10000 - last), (0x10000, 5)]
        runs = sec(L, bt, spans)
        for g in B.split_groups(None, runs, "page"):
            its.append(B.item("grp", runs=g))
        if bt not in B.IGNORED:
            its += [B.cmt("CRC", "0x89ABCDEF"), B.ins("REBOOT")]
    out.append((its, L, True))
    # 5 no BF3-update marker; 6 unknown tag type
    L = B.Lines()
    out.append(([B.cmt("Creator", "x"), B.item("grp", runs=sec(L, 0x84, [(0, 9)]))], L, True))
    L = B.Lines()
    out.append(([B.cmt("Bf3Update", "1"), B.item("grp", runs=sec(L, 0x50, [(0, 9)]))], L, True))
    # 7 EVERY tag type 0x00..0xFD (0xFE / 0xFF are the group markers) as the type of a section's only line, and as the type
    #   of a second line behind a base-type line of the range it belongs to: base types convert, continuation pages without
    #   their base are not convertible, everything else is an unknown tag type
    for ty in range(0xFE):
        L = B.Lines()
        out.append(([B.cmt("Bf3Update", "1"), B.item("grp", runs=B.to_runs(L, [(ty, 0, 3)]))], L, True))
        base = [b for b in B.PAGES if b < ty < b + B.PAGES[b]]
        if base:
            L = B.Lines()
            out.append(([B.cmt("Bf3Update", "1"), B.item("grp", runs=B.to_runs(L, [(base[0], 0, 3), (ty, 0, 4)]))], L, True))
    out += fixed_flag_matrix() + fixed_names() + fixed_straddle()
    for name, bt, ls in page_holes():
        L = B.Lines()
        its = [B.cmt("Bf3Update", "1"), B.ins("CHECK_FWVER", "*")]
        # (a group that goes back to the base tag type would open a new section: such layouts are written as one group)
        its += [B.item("grp", runs=g) for g in B.split_groups(None, B.to_runs(L, ls), "one" if "back" in name else "page")]
        out.append((its + [B.ins("REBOOT")], L, True))
    out += fixed_filters(tier)
    return out


def page_holes():
    """(name, first tag type, lines): holes / jumps whose size is a multiple of 65536 (and one line more or less), i.e. the tag
    type (page) changes while the 16-bit offsets run on -- flat addresses decide, a blob with such a hole is not convertible"""
    out = []
    for bt, ln, p in ((0x35, 250, 1000), (0x40, 200, 0x8000), (0x3D, 250, 64000), (0x39, 7, 21), (0x40, 128, 0x10000 - 128), (0x35, 3, 3)):
        tail = 3 * ln + 1
        first = B.image_from(bt, 0, p, ln)

        def at(a):
            return B.image_from(bt, a, a + tail, ln)
        out.append(("control: contiguous", bt, first + at(p)))
        out.append(("hole of exactly one page: (t, p) -> (t+1, p)", bt, first + at(0x10000 + p)))
        out.append(("hole of one page minus one line", bt, first + at(0x10000 + p - ln)))
        out.append(("hole of one page plus one line", bt, first + at(0x10000 + p + ln)))
        out.append(("one line, then the hole", bt, first[:1] + at(0x10000 + first[0][2])))
        if B.PAGES[bt] >= 3:
            out.append(("hole of exactly two pages: (t, p) -> (t+2, p)", bt, first + at(0x20000 + p)))
            out.append(("two holes of one page", bt, first + at(0x10000 + p) + B.image_from(bt, 0x20000 + p + tail, 0x20000 + p + 2 * tail, ln)))
        out.append(("jump back by exactly one page", bt, first + at(0x10000 + p) + at(p + tail)))
        out.append(("one page up, then back and contiguous with the first part", bt, first + at(0x10000 + p + tail) + at(p)))
    for bt, ln in ((0x35, 250), (0x40, 128), (0x40, 249)):
        page0 = B.image_from(bt, 0, 0x10000 + (-0x10000) % ln, ln)   # whole lines only: with ln = 249 / 250 the last one straddles
        end0 = ((page0[-1][0] - bt) << 16) + page0[-1][1] + page0[-1][2]
        if B.PAGES[bt] >= 3:
            out.append(("a whole tag type missing", bt, page0 + B.image_from(bt, end0 + 0x10000, end0 + 0x10000 + 700, ln)))
        out.append(("control: every page there", bt, page0 + B.image_from(bt, end0, end0 + 700, ln)))
    return out


def fixed_filters(tier):
    """the importer special-cases three spellings of the BGM12X / BGM12X_DETUNED filter (PFID2FILTER_TO_HWCID_SPECIAL_CASES) and the
    single-entry form `01 01 ..`: every filter of 1..3 entries over {B6, BE, 9B} x flag bits {00, 40, 80, C0} (both orders, unrelated
    id mixed in), in a BGM section, another peripheral section and a main firmware; and count bytes that disagree with the entries.
    The spec's HWCID rule and filter rendering / meaning are the judge."""
    import itertools
    out = []
    ent = [(f, i) for i in (0xB6, 0xBE, 0x9B) for f in (0x00, 0x40, 0x80, 0xC0)]
    bg = [e for e in ent if e[1] != 0x9B]

    def add(bt, es, count=None):
        L = B.Lines()
        f = [1, len(es) if count is None else count] + [b for fl, i in es for b in (fl, i)]
        out.append(([B.cmt("Bf3Update", "1"), B.ins("SELECT", bytes_=f), B.item("grp", runs=B.to_runs(L, [(bt, 0, 4)]))], L, True))
    for n in (1, 2):
        for es in itertools.product(ent, repeat=n):
            for bt in (0x39, 0x35, 0x84):
                add(bt, es)
    th = tier == "thorough"
    for es in itertools.product(ent, repeat=3):
        unrelated = [e for e in es if e[1] == 0x9B]
        if th or not unrelated or (len(unrelated) == 1 and unrelated[0][0] in (0x00, 0xC0)):
            for bt in ((0x39, 0x35, 0x84) if th else (0x39,)):
                add(bt, es)
    for es in itertools.product(bg, repeat=2):
        for count in (0, 1, 3):
            add(0x39, es, count)
    return out


# (first tag type, line size, image size): constant line sizes that do not divide 65536, one and several page boundaries
STRADDLE = [(0x35, 250, 0x10000 + 500), (0x35, 249, 0x10000 + 1), (0x39, 200, 0x10000 + 37), (0x3D, 250, 0x20000), (0x40, 3, 0x10000 + 10),
            (0x40, 7, 0x20000 + 20), (0x40, 250, 0x40000 + 123), (0x35, 249, 0x30000 + 7), (0x70, 250, 0x10000 + 500), (0x84, 200, 0x50000 + 5),
            (0x40, 251, 0x10000 - 250 + 251)]


def fixed_straddle():
    """data lines that start in one 64 KiB page and end in the next (flat address = page * 65536 + offset): blob sections
    (contiguous -> the image; with a gap at / next to the straddling line -> rejected), BF2-compatible sections"""
    out = []
    for bt, ln, size in STRADDLE:
        lines = B.const_image(bt, size, ln)
        st = [k for k, l in enumerate(lines) if l[1] + l[2] > 0x10000]
        if not st:
            raise MachineryError("driver: layout without a straddling line")
        for variant in ("whole", "one-group", "without-line-behind", "without-straddler"):
            if variant in ("without-line-behind", "without-straddler") and (ln < 100 or st[0] + 1 >= len(lines)):
                continue
            ls = lines if variant in ("whole", "one-group") else \
                lines[:st[0] + 1] + lines[st[0] + 2:] if variant == "without-line-behind" else lines[:st[0]] + lines[st[0] + 1:]
            L = B.Lines()
            runs = B.to_runs(L, ls)
            its = [B.cmt("Bf3Update", "1"), B.ins("CHECK_FWVER", "*")] + ([B.ins("SELECT_IF", "BRP")] if bt == 0x70 else [])
            its += [B.item("grp", runs=g) for g in B.split_groups(None, runs, "one" if variant == "one-group" else "page")]
            out.append((its + [B.ins("REBOOT")], L, True))
    return out


def _sec(L, bt, spans=((0, 40), (40, 2)), pre=(), reboot=True, ver=True):
    """one delimited section: CHECK_FWVER first (closes a pending predecessor), instructions, one group, REBOOT"""
    its = [B.ins("CHECK_FWVER", "hex", [1, 2, 2, 7, 8])] if ver else []
    its += list(pre)
    its.append(B.item("grp", runs=B.to_runs(L, [(bt + (a >> 16), a & 0xFFFF, n) for a, n in spans])))
    if reboot:
        its.append(B.ins("REBOOT"))
    return its


def fixed_flag_matrix():
    """enforce_bf3_compatibility x BF3-update marker x every rejection class x position of the offending section.
    The flag may only decide about the marker: whatever cannot be represented is rejected with either value."""
    out = []
    flags = [(enf, mark) for enf in (True, False) for mark in (True, False)]

    def emit(build):
        for enf, mark in flags:
            L = B.Lines()
            hdr = [B.cmt("Bf3Update", "1")] if mark else []
            out.append((hdr + [B.cmt("Creator", "x")] + build(L), L, enf))
    # clean files: accepted iff the marker is there or the flag is off
    emit(lambda L: _sec(L, 0x84) + _sec(L, 0x70, pre=[B.ins("SELECT_IF", "BRP")]) + _sec(L, 0x35, reboot=False))
    emit(lambda L: _sec(L, 0x3D, pre=[B.ins("SELECT", bytes_=[1, 1, 0, 0xAD])]) + _sec(L, 0x34, reboot=False) + _sec(L, 0x40, reboot=False))
    # unknown tag types: first / middle / last section, closed by REBOOT or not (then by the next CHECK_FWVER / end of file)
    for ty in (0x50, 0x33, 0xA4, 0x00):
        for pos in range(3):
            for rb in (True, False):
                def build(L, ty=ty, pos=pos, rb=rb):
                    secs = [_sec(L, 0x84, reboot=rb), _sec(L, 0x39, reboot=rb)]
                    secs.insert(pos, _sec(L, ty, spans=((0, 250), (250, 250)), reboot=rb))
                    return sum(secs, [])
                emit(build)
    # an unknown tag type directly behind the data of its predecessor (no instruction in between), and as the only section
    emit(lambda L: _sec(L, 0x84, reboot=False) + _sec(L, 0x50, ver=False, reboot=False))
    emit(lambda L: _sec(L, 0x50, ver=False, reboot=False))
    emit(lambda L: _sec(L, 0x50, ver=False, reboot=False) + _sec(L, 0x84, ver=False, reboot=False))
    # the other rejection classes, offending section first / last
    bad = [
        lambda L: _sec(L, 0x36),                                                             # continuation page without its base
        lambda L: _sec(L, 0x35, spans=((0, 3), (5, 2), (7, 2))),                             # gap in a blob
        lambda L: _sec(L, 0x35, spans=((0, 3), (3, 2), (7, 2))),                             # gap before the last line
        lambda L: _sec(L, 0x40, spans=((4, 3), (7, 2))),                                     # non-zero start
        lambda L: _sec(L, 0x3D, pre=[B.ins("SELECT", bytes_=[1, 2, 0x80, 0x9B, 0, 0xAD])]),  # peripheral with a two-entry filter
        lambda L: [B.ins("CHECK_FWVER", "hex", [1, 2])] + _sec(L, 0x84, ver=False),          # version descriptor too short
        lambda L: _sec(L, 0x84, pre=[B.cmt("Firmware", "11X0 IDE ZY    1.23.04")]),           # firmware id not numeric
        lambda L: _sec(L, 0x84, pre=[B.cmt("CRC", "0xZZ")]),                                 # checksum not hexadecimal
        lambda L: _sec(L, 0x84, pre=[B.ins("SELECT", bytes_=[2, 1, 0, 0x9B])]),              # filter header malformed
        lambda L: _sec(L, 0x70),                                                             # loader without interface
    ]
    for b in bad:
        emit(lambda L, b=b: b(L) + _sec(L, 0x39))
        emit(lambda L, b=b: _sec(L, 0x39) + b(L))
    # every tag type once more with the flag off (with and without marker)
    for ty in range(0xFE):
        for mark in (True, False):
            L = B.Lines()
            out.append((([B.cmt("Bf3Update", "1")] if mark else []) + [B.item("grp", runs=B.to_runs(L, [(ty, 0, 3)]))], L, False))
        base = [b for b in B.PAGES if b < ty < b + B.PAGES[b]]
        if base:
            L = B.Lines()
            out.append(([B.item("grp", runs=B.to_runs(L, [(base[0], 0, 3), (ty, 0, 4)]))], L, False))
    return out


def fixed_names():
    """every hardware id 0x00..0xCF (listed or not) as the single filter entry of a peripheral section (-> HWCID tag -> the
    component kind of the summary comment, and the filter term), ids above FF, and all of them inside multi-entry filters
    of a main firmware: each rendered name is judged against the pinned list of the specification"""
    out = []
    ids = list(range(0xD0)) + [0x100, 0x1AD, 0x3FFF]
    for i in ids:
        L = B.Lines()
        out.append(([B.cmt("Bf3Update", "1"), B.ins("CHECK_FWVER", "hex", [0, 0, 4, 1, 2, 3, 4]),
                     B.ins("SELECT", bytes_=[1, 1, i >> 8, i & 255]), B.item("grp", runs=B.to_runs(L, [(0x35, 0, 5)]))], L, True))
    for k in range(0, len(ids), 6):
        chunk = ids[k:k + 6]
        f = [1, len(chunk)]
        for j, i in enumerate(chunk):
            more = j % 3 != 2 and j < len(chunk) - 1
            f += [(0x80 if more else 0) | (0x40 if j % 2 else 0) | (i >> 8), i & 255]
        L = B.Lines()
        out.append(([B.cmt("Bf3Update", "1"), B.ins("SELECT", bytes_=f), B.item("grp", runs=B.to_runs(L, [(0x84, 0, 5)]))], L, True))
    return out


def fixed_directs():
    out = []
    for spans in ([(0, 3), (5, 2), (7, 2), (12, 1), (20, 1)], [(0, 3), (5, 2)], [(0, 3), (3, 2)], [(6, 3), (9, 2), (0, 4)],
                  [(0xFFFE, 2), (0x10000, 3), (0x10004, 3)]):
        L = B.Lines()
        out.append((L, B.to_runs(L, [(0x84 + (a >> 16), a & 0xFFFF, n) for a, n in spans])))
    # lines that straddle a page end (appended: the positions of the layouts above are used by the canaries)
    for spans in ([(0xFFFE, 4), (0x10002, 3)], [(0xFFFF, 2), (0x10001, 250), (0x100FB, 1)], [(0xFF06, 250), (0x10000, 6)],
                  [(0xFF06, 251), (0x10001, 6)], [(0xFFFF, 3), (0x1FFFD, 7), (0x20004, 3)]):
        L = B.Lines()
        out.append((L, B.to_runs(L, [(0x84 + (a >> 16), a & 0xFFFF, n) for a, n in spans])))
    for _name, bt, ls in page_holes():                   # holes / jumps of a multiple of 65536 bytes: unpack and all three formats
        L = B.Lines()
        out.append((L, B.to_runs(L, ls)))
    for bt, ln, size in STRADDLE:
        lines = B.const_image(bt, size, ln)
        k = [j for j, l in enumerate(lines) if l[1] + l[2] > 0x10000][0]
        for ls in (lines, lines[:k] + lines[k + 1:], lines[:k + 1] + lines[k + 2:], lines[k:] + lines[:k]):
            if ln < 100 and ls is not lines:
                continue
            L = B.Lines()
            out.append((L, B.to_runs(L, ls)))
    return out


def trim(ev, n=6):
    e = {k: v for k, v in ev.items() if not k.startswith("_")}
    if "items" in e and len(e["items"]) > n:
        e["items"] = e["items"][:n] + ["... %d more items" % (len(e["items"]) - n)]
    for k in ("runs", "blocks", "ids"):
        if k in e and len(e[k]) > 12:
            e[k] = e[k][:12] + ["... %d more" % (len(e[k]) - 12)]
    return e


def run(tier):
    rep = Report("C13", tier)
    th = tier == "thorough"
    r = rng("c13")
    with Scratch("c13") as wd:
        # ---------------- MC jobs run in the background while the driver records events
        jobs = mc_jobs(tier)
        pool = cf.ThreadPoolExecutor(max_workers=6 if th else 5)

        def one(k):
            name, mode, invs, consts, expect, workers = jobs[k]
            text, shown = cfg(mode, invs, **consts)
            return k, shown, tlc.run(MC, text, os.path.join(wd, "mc%02d" % k), workers=workers, timeout=3000 if th else 600)
        futs = [pool.submit(one, k) for k in range(len(jobs))]

        # ---------------- C->S: real code on generated layouts
        evs, tid = [], 0
        cases = fixed_imports(tier)
        n_imp = 16000 if th else 600
        for _ in range(n_imp):
            cases.append(B.gen_file(r, tier))
        bigs = [(200000, "big"), (200000, "uniform"), (199999, "mix"), (131073, "big"), (65537, "mix"), (65536, "uniform")]
        for k in range(60 if th else 6):
            cases.append(B.gen_file(r, tier, big=bigs[k % len(bigs)]))
        for items, L, enf in cases:
            tid += 1
            evs.append(B.run_import(items, L, enf, r, tid))
        directs = fixed_directs() + [B.gen_direct(r) for _ in range(4000 if th else 140)]
        directs += [B.gen_direct(r, big=bigs[k % len(bigs)]) for k in range(24 if th else 3)]
        for L, runs in directs:
            evs += B.run_direct(L, runs, r, tid + 1)
            tid += 4
        # character level: parse_bf2_file on small printed texts, clean and with character-level damage
        n_parse = 0
        for _ in range(8000 if th else 320):
            items, L, _enf = B.gen_file(r, tier, small=True)
            text = B.print_text(items, L, r)
            if len(text) > 2500:
                continue
            if r.random() < 0.6:
                text = B.mutate_text(r, text)
            tid += 1
            n_parse += 1
            evs.append(B.run_parse(text, tid))
        tid += 1
        evs.append(B.run_names(tid))                       # the library's hardware-id tables against the pinned list
        n_real = len(evs)
        # canaries: corrupted copies of recorded events must be rejected by the trace spec
        canaries = {}

        def canary(src, what, f):
            nonlocal tid
            e = copy.deepcopy(src)
            tid += 1
            e["tid"] = tid
            f(e)
            canaries[tid] = what
            evs.append(e)
        good = [e for e in evs if e["op"] == "import" and e["kind"] == "ok" and e["comps"]]
        clean = evs[4]                                     # fixed layout 5: clean file over every mapped tag type
        d0 = len(cases) + 4 * 2                            # fixed direct layout 3: two contiguous lines from address 0
        gd, gc = evs[d0], evs[d0 + 3]
        gp = [e for e in evs if e["op"] == "parse" and e["kind"] == "ok" and any(o["k"] == "load" for o in e["objs"])]
        if not (clean["op"] == "import" and gd["op"] == "unpack" and gc["op"] == "convert" and gc["fmt"] == 2 and gp and good):
            raise MachineryError("driver: canary source events are not where they are expected")
        canary(clean, "payload attributed to a different line", lambda e: e["comps"][0]["ids"][0].__setitem__(0, e["comps"][0]["ids"][0][0] + 1))
        canary(clean, "TYPE tag changed", lambda e: e["comps"][0]["desc"][1][1].__setitem__(0, (e["comps"][0]["desc"][1][1][0] + 1) % 3))
        canary(clean, "CRC tag changed", lambda e: [d[1].__setitem__(3, d[1][3] ^ 1) for d in e["comps"][2]["desc"] if d[0] == 199])
        canary(clean, "summary comment changed", lambda e: e["comments"][-1][1].append(33))
        canary(clean, "accepted file reported as rejected", lambda e: e.update(kind="raise", comps=[], comments=[]))
        canary(gd, "block address changed", lambda e: e["blocks"][0].__setitem__(0, e["blocks"][0][0] + 1))
        canary(gc, "raw lines: attribution mismatch flag", lambda e: e.update(bad=1))
        canary(gp[0], "parsed tag byte changed",
               lambda e: [o["lines"][0][2].__setitem__(0, o["lines"][0][2][0] ^ 1) for o in e["objs"] if o["k"] == "load"][:1])
        canary(evs[n_real - 1], "second name for a listed hardware id", lambda e: e["fwd"].append([B.chars("PN5190"), 0xAD]))
        canary(evs[n_real - 1], "reverse table names an id differently", lambda e: e["rev"][0].__setitem__(1, B.chars("X")))
        rej, st = tlc.validate_trace(TRACE, TRACE_CFG, evs, wd, shards=16 if th else 10, timeout=3000 if th else 600)
        byid = {e["tid"]: e for e in evs}
        rejected = {x[1]: x[2] for x in rej}
        for t, what in canaries.items():
            if t not in rejected:
                raise MachineryError("binding self-test: corrupted event (%s) was accepted by the trace spec" % what)
        clauses, soft = collections.Counter(), collections.Counter()
        for t, clause in sorted(rejected.items()):
            if t in canaries:
                continue
            if clause.startswith("soft:"):               # statistics only (reason of a rejection as read from the message)
                soft[clause + " / code: " + byid[t]["why"]] += 1
                continue
            clauses[clause] += 1
            e = byid[t]
            if clauses[clause] <= 3:
                d = trim(e, 40)
                if len(e.get("_text", "")) < 4000:
                    d["bf2_text"] = e.get("_text", "")
                rep.violation("C13:" + clause, "%s: result of the real code rejected by the specification (%s)" % (e["op"], clause), d)
            else:
                rep.violation("C13:" + clause, "", None)
        hist = collections.Counter("%s/%s%s" % (e["op"], e["kind"], "/" + e["cls"] if e["cls"] else "") for e in evs[:n_real])
        rep.add_trace("Trace_Bf2Import (real bf2_import / bf2_unpack_payload / bf2_convert_payload judged from the layout)", st, n_real,
                      extra={"events_by_outcome": dict(hist), "rejected_by_clause": dict(clauses),
                             "rejections_with_a_different_reason_than_the_spec (information)": dict(soft),
                             "canaries_rejected": {str(t): "%s -> %s" % (w, rejected[t]) for t, w in canaries.items()},
                             "import_files": len(cases), "parse_texts": n_parse, "payload_lines_printed": sum(L.n for _, L, _ in cases),
                             "largest_image_bytes": 200000})
        for e in (evs[0], evs[3], gd, [x for x in evs if x["kind"] == "raise"][0], gp[0]):
            rep.sample(trim(e))

        # ---------------- collect MC
        selftests = {}
        for f in futs:
            k, shown, res = f.result()
            name, mode, invs, consts, expect, workers = jobs[k]
            if expect is None:
                tlc.require_ok(res, "MC_Bf2Import " + name)
                rep.add_mc("MC_Bf2Import " + name + " [" + ", ".join(invs) + "]", res, shown)
            else:
                if expect not in res.violated:
                    raise MachineryError("self-test '%s': TLC did not refute %s:\n%s" % (name, expect, res.clean()[-1500:]))
                selftests[name] = "%s refuted after %d states" % (expect, res.distinct)
        pool.shutdown()
        rep.cov["parts"]["selftests"] = selftests
    rep.cov["exhaustive"] = True
    rep.cov["explanation"] = ("MC instances are exhaustive for their bounds (PAGE = 4); the C->S events are sampled from the grammar "
                              "(seeded) plus fixed layouts, every returned payload byte is attributed to its source line")
    rep.assumptions += [
        "grammar: sections are delimited the way the importer can recognise them (REBOOT, a CHECK_FWVER while one is pending, the next "
        "base-type group without instructions in between, end of file); every section carries data; every group has start and end marker",
        "ignored prepare/activate sections carry no CRC/REBOOT of their own; instructions in front of them stay pending for the next section",
        "the checksum is written `##CRC: 0x<1..8 hex digits>` (the only form the importer executes; `#>CRC ...` is rejected as malformed)",
        "data lines of a section do not overlap and lie at or above the page of its first line; a line starts inside its page (16-bit offset) but may end in the next one (flat addressing)",
        "hardware-id names: the spec renders with the pinned list spec/HwcidNames.tla (transcribed from bec2format/hwcids.py of the pinned "
        "commit); the library's HWCID_MAP / REV_HWCID_MAP must be injective and equal to it (event 'names')",
        "attribution: payload(line id, offset) starts with a prefix-free code of the id (at most 128 one-byte lines per file)",
        "exception classes of rejections are recorded but not judged here (C14); a loader section without interface is a rejection",
        "meaning of a filter whose last entry has the continuation bit set is undefined; the code drops the open group (MC self-test)",
        "Python int()/bytes.decode() leniencies beyond surrounding white space and ASCII are outside the generated grammar",
        "TLC's evaluation of the TLA+ definitions; the BF2 printer of the driver (checked end to end: a wrong printer makes events fail)",
    ]
    return rep
