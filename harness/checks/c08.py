"""C08: AES auth-block container.  MC at real scale (all payload lengths 0..253) with AES.tla;
C->S: real SoftwareCustKeyEncryptor / ConfigSecurityCodeEncryptor for every length and for payloads
covering every value of each CRC byte, judged by TLC (frame layout, exact bytes, exact inverse, errors)."""
import os, hashlib

from ..common import SPEC, Scratch, rng, MachineryError, B
from ..report import Report
from .. import tlc, bf3lib as L, bec2lib as B2, errpaths as E

CFG = "INIT Init\nNEXT Next\n"
TCFG = "INIT Init\nNEXT Next\nCONSTANTS SHORT_READ_OK = FALSE\nENC_NEVER_DECRYPTS = FALSE\nDEC_STRIPS_ZEROS = FALSE\nECC_FALLBACK_SEL0 = FALSE\n"
MCFG = CFG + "CONSTANTS SHORT_READ_OK = FALSE\nENC_NEVER_DECRYPTS = FALSE\nDEC_STRIPS_ZEROS = FALSE\n"


def rec_wrap(rec, enc, spec, plain):
    # the payload as bytes / bytearray / memoryview in turn (all accepted by the library): an equal value gives the same frame,
    # and the caller's buffer is left alone
    buf = (bytes, bytearray, lambda b: memoryview(bytes(b)))[rec.tid % 3](bytes(plain))
    try:
        out = enc.encrypt(buf)
        if bytes(buf) != bytes(plain):
            raise RuntimeError("encrypt() modified the caller's buffer")
    except Exception as e:                      # noqa: BLE001 -- a refused payload of <= 253 bytes: recorded, the specification rejects it
        if len(plain) > 253:
            raise
        rec.add({"op": "c08.wrap", "key": spec["key"], "ck": spec["ck"], "pos": spec["pos"], "plain": B(plain), "out": [],
                 "variant": spec["kind"], "exc": L.exc_info(e)})
        return bytes(16)
    rec.add({"op": "c08.wrap", "key": spec["key"], "ck": spec["ck"], "pos": spec["pos"], "plain": B(plain), "out": B(out),
             "variant": spec["kind"]})
    return out


def rec_unwrap(rec, enc, spec, c):
    ev = {"op": "c08.unwrap", "key": spec["key"], "ck": spec["ck"], "pos": spec["pos"], "c": B(c), "kind": "ok", "payload": []}
    try:
        ev["payload"] = B(enc.decrypt(bytes(c)))
    except Exception as e:                      # noqa: BLE001
        ev["kind"] = "raise"
        ev["exc"] = L.exc_info(e)
    return rec.add(ev)


def run(tier):
    from bec2format.bec2file import crc8404B
    rep = Report("C08", tier)
    r = rng("c08")
    with Scratch("c08") as wd:
        res = tlc.require_ok(tlc.run(os.path.join(SPEC, "MC_Container.tla"),
                                     MCFG + "INVARIANT FrameArith\nINVARIANT Inverse\nINVARIANT Errors\nINVARIANT CustKey\n",
                                     os.path.join(wd, "mc"), workers=16, timeout=900), "MC_Container")
        rep.add_mc("MC_Container: all payload lengths 0..253 at real scale (FrameArith, Inverse, Errors, CustKey)", res)
        bad = tlc.run(os.path.join(SPEC, "MC_Container.tla"), MCFG + "INVARIANT SelfTestBad\n", os.path.join(wd, "st"), workers=2, timeout=300)
        if "SelfTestBad" not in bad.violated:
            raise MachineryError("self-test: wrong padding formula not refuted")
        rep.cov["parts"]["selftest_mc"] = "padding formula without the enforced minimum refuted by TLC"
        rec = L.Rec()
        other = B2.dec_cust(bytes(r.randrange(256) for _ in range(16)))

        def rand(n):
            return bytes(r.randrange(256) for _ in range(n))

        reps = 1 if tier == "quick" else 4
        for n in range(254):
            for _ in range(reps):
                key = L.gen_key(r)
                variants = [B2.dec_cust(key)]
                code = rand(8)
                variants.append(B2.dec_code(code))
                if n >= 10:
                    ck = rand(10)
                    variants.append(B2.dec_cust(key, ck, r.choice([0, n - 10, r.randrange(0, n - 9)])))
                for enc, spec in variants:
                    p = rand(n)
                    if n and r.random() < 0.4:
                        z = r.randrange(1, min(n, 18) + 1)
                        p = p[:n - z] + bytes(z)
                    c = rec_wrap(rec, enc, spec, p)
                    rec_unwrap(rec, enc, spec, c)
                    if r.random() < 0.5:
                        rec_unwrap(rec, other[0], other[1], c)                      # frame made under another key
                    if r.random() < 0.3:
                        cc = bytearray(c)
                        cc[r.randrange(len(cc))] ^= 1 << r.randrange(8)
                        rec_unwrap(rec, enc, spec, bytes(cc))
        # error-path histories on ONE encryptor object: refused / failing calls interleaved with valid ones
        E.container_error_paths(rec, r, rec_wrap, rec_unwrap, B2)
        # payloads whose CRC high / low byte takes every value (in particular 0x00): found by search
        need = {(h, v) for h in (0, 1) for v in range(256)}
        enc, spec = B2.dec_cust(L.gen_key(r))
        tries = 0
        while need and tries < 400000:
            tries += 1
            p = rand(r.choice([1, 5, 17, 26]))
            c = crc8404B(p)
            hit = [(0, c >> 8), (1, c & 255)]
            if any(h in need for h in hit):
                for h in hit:
                    need.discard(h)
                cph = rec_wrap(rec, enc, spec, p)
                rec_unwrap(rec, enc, spec, cph)
        if need:
            raise MachineryError("could not find payloads for all CRC byte values")
        # payloads whose CRC is EXACTLY 0x0000, 0xFFFF, 0x0001, 0x0100 (both bytes special at once): found by a two-byte suffix search
        for n in (2, 3, 17, 26, 100, 253):
            for want in (0x0000, 0xFFFF, 0x0001, 0x0100):
                base = rand(n - 2)
                hit = None
                for v in range(65536):
                    p = base + bytes([v >> 8, v & 255])
                    if crc8404B(p) == want:
                        hit = p
                        break
                if hit is None:
                    continue
                for e2, s2 in (B2.dec_cust(L.gen_key(r)), B2.dec_code(rand(8))):
                    rec_unwrap(rec, e2, s2, rec_wrap(rec, e2, s2, hit))
        # security codes / AES keys / customer keys with trailing or leading 0x00 bytes (value classes, not left to chance)
        for code in (b"\x01\x02\x03\x04\x05\x06\x07\x00", b"\x01\x02\x03\x04\x05\x06\x00\x00", b"\x00\x02\x03\x04\x05\x06\x07\x08", bytes(8),
                     bytes(7) + b"\x01", b"\x41" * 7 + b"\x00"):
            encc, specc = B2.dec_code(code)
            for n in (0, 17, 26):
                p = rand(n)
                c = rec_wrap(rec, encc, specc, p)
                rec_unwrap(rec, encc, specc, c)
            # a frame made under the code with its trailing zeros removed / one more zero appended is a frame under ANOTHER key
            for other_code in (code.rstrip(b"\x00"), code + b"\x00"):
                if other_code != code and other_code:
                    eo, so = B2.dec_code(other_code)
                    rec_unwrap(rec, eo, so, rec_wrap(rec, encc, specc, rand(17)))
        for key in (bytes(15) + b"\x01", b"\x01" + bytes(15), bytes(range(1, 16)) + b"\x00"):
            enck, speck = B2.dec_cust(key, b"\x00" * 9 + b"\x07", 3)
            c = rec_wrap(rec, enck, speck, rand(26))
            rec_unwrap(rec, enck, speck, c)
        # customer key verification: the slot must hold exactly the configured key - in particular an all-zero slot
        # (a frame wrapped WITHOUT customer key) does not satisfy a verifier that is configured with one
        for pos, n in ((0, 26), (5, 26), (16, 26), (0, 10), (30, 60)):
            key = L.gen_key(r)
            plain_enc, plain_spec = B2.dec_cust(key)
            ck = rand(10)
            ver_enc, ver_spec = B2.dec_cust(key, ck, pos)
            pz = bytearray(rand(n))
            pz[pos:pos + 10] = bytes(10)
            c = rec_wrap(rec, plain_enc, plain_spec, bytes(pz))            # slot is all zero
            rec_unwrap(rec, ver_enc, ver_spec, c)
            pz[pos:pos + 10] = ck[:9] + bytes([ck[9] ^ 1])
            rec_unwrap(rec, ver_enc, ver_spec, rec_wrap(rec, plain_enc, plain_spec, bytes(pz)))   # one bit off
            pz[pos:pos + 10] = ck
            rec_unwrap(rec, ver_enc, ver_spec, rec_wrap(rec, plain_enc, plain_spec, bytes(pz)))   # exactly the key: accepted and blanked
        # one encryptor object whose public attributes are RE-ASSIGNED between calls (position, customer key): every call works with
        # the attributes as they are at that moment
        for pos1, pos2, n in ((3, 9, 40), (0, 16, 26), (10, 0, 30)):
            key = L.gen_key(r)
            ck1, ck2 = rand(10), rand(10)
            e1, s1 = B2.dec_cust(key, ck1, pos1)
            rec_unwrap(rec, e1, s1, rec_wrap(rec, e1, s1, rand(n)))
            e1.customer_key_pos = pos2
            s2 = dict(s1, pos=pos2)
            rec_unwrap(rec, e1, s2, rec_wrap(rec, e1, s2, rand(n)))
            e1.customer_key = ck2
            s3 = dict(s2, ck=B(ck2))
            cfr = rec_wrap(rec, e1, s3, rand(n))
            rec_unwrap(rec, e1, s3, cfr)
            e1.customer_key_pos = pos1
            rec_unwrap(rec, e1, dict(s3, pos=pos1), cfr)                 # (now the slot is elsewhere: refused unless it happens to match)
        # payloads RELATED to the customer key: a copy of its ten bytes in front of the slot, overlapping the slot, behind it; a
        # periodic key with equal bytes around the slot - unwrapping blanks the slot and nothing else
        for pos, n in ((12, 40), (10, 30), (3, 26), (20, 60)):
            key = L.gen_key(r)
            for ck in (rand(10), b"\x5a" * 10, bytes(range(1, 11))):
                e1, s1 = B2.dec_cust(key, ck, pos)
                for at in (0, pos - 10, pos - 3, pos - 1, pos + 10 if pos + 20 <= n else None):
                    if at is None or at < 0:
                        continue
                    p = bytearray(rand(n))
                    p[at:at + 10] = ck
                    p[pos:pos + 10] = bytes(10)                  # the slot itself is filled in by the encryptor
                    rec_unwrap(rec, e1, s1, rec_wrap(rec, e1, s1, bytes(p)))
        # frames a key holder can craft: right marker and length, WRONG checksum field (0000, FFFF, one bit off, CRC of another
        # payload), wrong marker, non-minimal padding; built with the library's cipher only to craft inputs - TLC judges them
        from bec2format.crypto import create_AES128
        # ... and checksum fields holding what OTHER CRC-16 conventions would give for the payload (other presets, final XOR,
        # byte order, the non-reflected CCITT polynomial): exactly one value is right
        def crc_ccitt(data, init):
            c = init
            for b in data:
                c ^= b << 8
                for _ in range(8):
                    c = ((c << 1) ^ 0x1021) & 0xFFFF if c & 0x8000 else (c << 1) & 0xFFFF
            return c
        for n in (1, 17, 26):
            key = L.gen_key(r)
            encx, specx = B2.dec_cust(key)
            p = rand(n)
            good = crc8404B(p)
            cands = {crc8404B(p, s0) for s0 in (0x0000, 0x6363, 0x1D0F, 0xC6C6, 0x8408, 0x1021, 0xFFFE, 0x00FF, 0xFF00)}
            cands |= {good ^ 0xFFFF, ((good & 255) << 8) | (good >> 8), crc_ccitt(p, 0xFFFF), crc_ccitt(p, 0), crc_ccitt(p, 0x1D0F), (good + 1) & 0xFFFF, (good - 1) & 0xFFFF}
            cands.discard(good)
            pad = (-(2 + 1 + n + 2) % 16) + 1
            for wrong in sorted(cands):
                rec_unwrap(rec, encx, specx, create_AES128(bytes(specx["key"])).encrypt(b"B" + bytes([n + 2]) + bytes(pad) + p + wrong.to_bytes(2, "big")))
        for n in (0, 1, 17, 26, 40):
            key = L.gen_key(r)
            encf, specf = B2.dec_cust(key)
            p = rand(n)
            good = crc8404B(p)
            pad = (-(2 + 1 + n + 2) % 16) + 1
            for crcval in (0x0000, 0xFFFF, good ^ 1, good ^ 0x8000, crc8404B(p + b"x"), good):
                if crcval == good and crcval in (0, 0xFFFF):
                    continue
                frame = b"B" + bytes([n + 2]) + bytes(pad) + p + crcval.to_bytes(2, "big")
                rec_unwrap(rec, encf, specf, create_AES128(key).encrypt(frame))
            frame = b"C" + bytes([n + 2]) + bytes(pad) + p + good.to_bytes(2, "big")
            rec_unwrap(rec, encf, specf, create_AES128(key).encrypt(frame))
            frame = b"B" + bytes([n + 2]) + bytes(pad + 16) + p + good.to_bytes(2, "big")          # one more padding block: still a frame
            rec_unwrap(rec, encf, specf, create_AES128(key).encrypt(frame))
        # customer key that does not match on unwrap
        for _ in range(20):
            key = L.gen_key(r)
            e1, s1 = B2.dec_cust(key, rand(10), 3)
            e2, s2 = B2.dec_cust(key, rand(10), 3)
            c = rec_wrap(rec, e1, s1, rand(26))
            rec_unwrap(rec, e2, s2, c)
        # binding self-test
        can = dict(rec.events[0])
        can["out"] = list(can["out"])
        can["out"][-1] ^= 1
        rec.add(can)
        rej, st = tlc.validate_trace(os.path.join(SPEC, "Trace_Bec2.tla"), TCFG, rec.events, os.path.join(wd, "tr"), shards=16, timeout=1500)
        ids = {x[1]: x for x in rej}
        byid = {e["tid"]: e for e in rec.events}
        for tid, x in ids.items():
            if tid != can["tid"]:
                e = byid[tid]
                rep.violation("C08:%s:%s" % (e["op"], x[2].split(":")[0]), "container event rejected by the specification: %s" % x[2], e)
        if can["tid"] not in ids and not rep.violations:
            raise MachineryError("binding self-test: corrupted wrap event accepted")
        nraise = sum(1 for e in rec.events if e.get("kind") == "raise")
        rep.add_trace("Trace_Bec2 (c08.wrap / c08.unwrap of the real encryptors, all lengths 0..253, every CRC byte value)", st,
                      len(rec.events) - 1, extra={"unwrap_rejections_observed": nraise, "crc_search_tries": tries})
        # security-code key derivation is an oracle relation (hashlib SHA-256 supplies the digest)
        rep.cov["oracle_relation_events"] += sum(1 for e in rec.events if e.get("variant") == "code")
        rep.sample(rec.events[0]); rep.sample(rec.events[1])
    rep.assumptions += ["AES.tla, CRC16.tla", "SHA-256 of the security code from hashlib (oracle)"]
    return rep
