"""C18: ECDSA signatures verify, reject tampering, interoperate with OpenSSL and follow RFC 6979.

MC    MC_ECDSA: on tiny prime-order curves, for every key d, digest value z, and (r, s) in (0..2N)^2: signatures made
      by Sign verify, and the accept set of Verify is EXACTLY the set of signatures Sign can produce; 0, N, N+1, 2N
      rejected; Bits2Int keeps the leftmost bits.  Self-test: a verifier with u1/u2 exchanged is refuted.
C->S  Trace_ECDSA: the library's Public_key.verifies / Private_key.sign / SigningKey.sign_digest /
      VerifyingKey.verify_digest on the same tiny curves (built with the library's CurveFp / PointJacobi / Curve),
      all (d, z, r, s) in the thorough tier; TLC computes the expected verdict / signature of every call.
      Range boundaries: the model curve T13r (y^2=x^3+7x+6 over F_13, n = 11) has points with x = n-1 and x = 1, so
      VALID signatures with r = n-1, r = 1, s = 1, s = n-1 occur and are judged (TLC prints which boundary values are
      reached on each model curve; the check refuses to run vacuously if r = n-1 is reached on none).  On the shipped
      curves r = n-1 cannot be produced by signing (it needs a point with x = n-1 and a crafted key), so that boundary
      rests on the model curves.
      Error paths: the first sign / verifies on fresh curve objects is interrupted (a private BaseException raised from a
      sys.settrace line event, every position inside PointJacobi._maybe_precompute), then ordinary calls on the same
      objects are judged as usual; on real curves an interrupted key generation on a fresh Curve object, then key
      generation + sign_deterministic + verification judged by OpenSSL / the independent RFC 6979.
      Constructors: SigningKey.from_secret_exponent / from_string / from_der / from_pem (ssleay and pkcs8) / generate and
      VerifyingKey.from_string / from_der / from_pem / from_public_point / from_public_key_recovery, each WITH a non-default
      hashfunc and then used WITHOUT a per-call hash (OpenSSL dgst -<hash> -verify, independent RFC 6979).
      Buffer forms: bytes, bytearray, memoryview, array('B'/'H'/'I'), memoryview.cast('H'), memoryview(array('I')) -- all
      accepted by the unchanged library -- for the data / digest arguments of sign*, verify*, each judged like bytes.
      Hash pairs: sign_digest_deterministic(digest of hash A, HMAC-DRBG hash B), sizes differing, against the independent
      RFC 6979 implementation.
      Many rejected nonce candidates: the independent RFC 6979 generator counts the rounds of step H3; a bounded, seeded
      search (longer in the thorough tier) picks messages with the longest runs on the curves whose order is not close to
      a power of two (SECP160r1, BRAINPOOL*, SECP112r1/r2); fixed witness with 21 rejections on SECP160r1.
      Related keys (d and n-d: same x; d+1; 2d; 1/d) verified alternately in one process with nothing in between, on the
      model curves (TLC) and on every shipped curve (library + OpenSSL): every valid signature must verify.
      Trace_ECOracle: the 17 shipped curves x SHA-1..SHA-512 x encodings: library signs -> OpenSSL verifies,
      OpenSSL signs -> library verifies, every tampered message / signature / key judged by both, out-of-range and
      malformed signatures, and RFC 6979 signatures rebuilt from an independent nonce generator + OpenSSL's k*G."""
import os, hashlib, hmac, concurrent.futures as cf

from ..common import SPEC, Scratch, rng, MachineryError
from ..report import Report
from .. import tlc, eclib
from ..eclib import TINY
from .c17 import PatchedAddZ1

MC_INV = "SignVerifies SignReduces ExactAccept RangeReject InfUnique".split()
TRACE_CFG = "INIT Init\nNEXT Next\n"
HASHES = ["sha1", "sha224", "sha256", "sha384", "sha512"]


def _mc_cfg(name, invs):
    return "INIT Init\nNEXT Next\n" + eclib.consts(name) + "".join("INVARIANT %s\n" % i for i in invs)


# ====================================================================== independent RFC 6979 (section 3.2), hmac/hashlib only
def rfc6979_k(n, x, hname, h1, count=False):
    qlen = n.bit_length()
    rlen = (qlen + 7) // 8
    H = getattr(hashlib, hname)
    hlen = H().digest_size

    def bits2int(b):
        v, bl = int.from_bytes(b, "big"), len(b) * 8
        return v >> (bl - qlen) if bl > qlen else v

    def int2octets(v):
        return v.to_bytes(rlen, "big")

    def bits2octets(b):
        z1 = bits2int(b)
        return int2octets(z1 - n if z1 >= n else z1)

    def mac(K, m):
        return hmac.new(K, m, H).digest()
    V, K = b"\x01" * hlen, b"\x00" * hlen
    K = mac(K, V + b"\x00" + int2octets(x) + bits2octets(h1)); V = mac(K, V)
    K = mac(K, V + b"\x01" + int2octets(x) + bits2octets(h1)); V = mac(K, V)
    rejected = 0
    while True:
        T = b""
        while len(T) < rlen:
            V = mac(K, V)
            T += V
        k = bits2int(T)
        if 1 <= k < n:
            return (k, rejected) if count else k
        rejected += 1                      # candidate out of range: step H3 of RFC 6979 goes round again
        K = mac(K, V + b"\x00"); V = mac(K, V)


def _rfc6979_selfcheck():
    """RFC 6979 A.2.5 (P-256, SHA-256, "sample") and A.2.3 (P-192, SHA-1, "sample")"""
    n = 0xFFFFFFFF00000000FFFFFFFFFFFFFFFFBCE6FAADA7179E84F3B9CAC2FC632551
    x = 0xC9AFA9D845BA75166B5C215767B1D6934E50C3DB36E89B127B8A622B120F6721
    if rfc6979_k(n, x, "sha256", hashlib.sha256(b"sample").digest()) != 0xA6E3C57DD01ABE90086538398355DD4C3B17AA873382B0F24D6129493D8AAD60:
        raise MachineryError("independent RFC 6979 generator does not reproduce RFC 6979 A.2.5")
    n = 0xFFFFFFFFFFFFFFFFFFFFFFFF99DEF836146BC9B1B4D22831
    x = 0x6FAB034934E4C0FC9AE67F5B5659A9D7D1FEFD187EE09FD4
    if rfc6979_k(n, x, "sha1", hashlib.sha1(b"sample").digest()) != 0x37D7CA00D2C7B0E5E412AC03BD44BA837FDD5B28CD3B0021:
        raise MachineryError("independent RFC 6979 generator does not reproduce RFC 6979 A.2.3")


# ====================================================================== tiny curves
class TinySig:
    """the library's ECDSA on one tiny curve; run() executes the call described by the fields of an event"""

    def __init__(self, name):
        from register_crypto_plugin.ecdsa.ellipticcurve import PointJacobi, Point, INFINITY
        from register_crypto_plugin.ecdsa import keys, ecdsa, util
        self.PointJacobi, self.Point, self.keys, self.ecdsa, self.util = PointJacobi, Point, keys, ecdsa, util
        self.name = name
        self.p, _, _, self.gx, self.gy, self.n, _ = TINY[name]
        self.c, self.G, self.cv = eclib.tiny_curve(name)
        self._pk = {}

    def pubkey(self, d, via):
        """Public_key for Q = d*G; Q comes from the affine multiplication so that the event is about verification"""
        if (d, via) not in self._pk:
            Ga = self.Point(self.c, self.gx, self.gy, self.n)
            Qa = Ga * d
            if via == "affine":
                pk = self.ecdsa.Public_key(Ga, Qa)
            elif via == "precomp":      # both points with multiplication tables (what VerifyingKey.precompute() sets up)
                pk = self.ecdsa.Public_key(self.G, self.PointJacobi(self.c, Qa.x(), Qa.y(), 1, self.n, generator=True))
            else:
                pk = self.ecdsa.Public_key(self.G, self.PointJacobi.from_affine(Qa))
            self._pk[(d, via)] = pk
        return self._pk[(d, via)]

    def fresh_interrupted(self, op, d, via):
        """Error-path history (via = "<jac|precomp>-int:<N>"): a key object on FRESH curve objects (generator with its lazy
        multiplication table not built yet); the first sign / verifies call is interrupted at the N-th line event inside
        PointJacobi._maybe_precompute and the exception swallowed.  Returns the key object for the later, judged calls."""
        kind, N = via.split("-int:")
        c, G, cv = eclib.tiny_curve(self.name)
        Qa = self.Point(c, self.gx, self.gy, self.n) * d
        Q = self.PointJacobi(c, Qa.x(), Qa.y(), 1, self.n, generator=True) if kind == "precomp" else self.PointJacobi.from_affine(Qa)
        pk = self.ecdsa.Public_key(G, Q)
        if op == "sign":
            first = lambda: self.ecdsa.Private_key(pk, d).sign(1, 1)
        else:
            first = lambda: pk.verifies(1, self.ecdsa.Signature(1, 1))
        self.last_interrupt = eclib.interrupted(eclib.precompute_code(), int(N), first)
        return pk

    def run(self, op, via="", d=1, z=0, k=0, r=0, dig=(), out=()):
        """-> the fields of the event that the call determines"""
        n = self.n
        Signature = self.ecdsa.Signature
        if op == "verrow":
            try:
                pk = self.fresh_interrupted(op, d, via) if "-int:" in via else self.pubkey(d, via)
            except Exception as e:            # building Q = d*G / the key object failed: every verdict of the row is "raised"
                return {"out": [2] * (2 * n + 1), "exc": "key:" + type(e).__name__}
            row, excs = [], set()
            for s in range(2 * n + 1):
                try:
                    row.append(1 if pk.verifies(z, Signature(r, s)) else 0)
                except Exception as e:
                    row.append(2)
                    excs.add(type(e).__name__)
            return {"out": row, "exc": ",".join(sorted(excs))}
        try:
            if op == "sign":
                sg = self.ecdsa.Private_key(self.fresh_interrupted(op, d, via) if "-int:" in via else self.pubkey(d, via), d).sign(z, k)
                return {"out": [int(sg.r), int(sg.s)], "exc": "ok"}
            if op == "signdig":
                sk = self.keys.SigningKey.from_secret_exponent(d, self.cv)
                rs, ss = sk.sign_digest(bytes(dig), sigencode=self.util.sigencode_strings, k=k, allow_truncate=True)
                return {"out": [int.from_bytes(rs, "big"), int.from_bytes(ss, "big")], "exc": "ok"}
            if op == "verdig":
                vk = self.keys.VerifyingKey.from_public_point(self.pubkey(d, "jac").point, self.cv)
                ok = vk.verify_digest(bytes(out), bytes(dig), sigdecode=self.util.sigdecode_string, allow_truncate=True)
                return {"exc": "True" if ok is True else repr(ok)}
        except Exception as e:
            f = {"exc": type(e).__name__}
            if op != "verdig":
                f["out"] = [0, 0]
            return f
        raise MachineryError("unknown tiny call " + op)


def _ev(rec, **f):
    e = {"tid": len(rec) + 1, "op": "", "via": "", "d": 1, "z": 0, "k": 0, "r": 0, "dig": [], "out": [], "exc": ""}
    e.update(f)
    e["dig"], e["out"] = [int(x) for x in e["dig"]], [int(x) for x in e["out"]]
    rec.append(e)
    return e


def _record_tiny(args):
    name, tier, ds, part, allvias = args
    from ..common import repo_on_path
    repo_on_path()
    T = TinySig(name)
    n = T.n
    r = rng("c18/%s/%s" % (name, part))
    thorough = tier == "thorough"
    rec = []
    zmax = 2 ** n.bit_length() - 1
    zs = list(range(n)) + sorted({n, n + 1, zmax})

    def do(op, **f):
        f2 = dict(f)
        f2.update(T.run(op, **f))
        _ev(rec, op=op, **f2)

    for d in ds:
        vias = ["jac", "precomp", "affine"] if allvias else ["jac"]
        for via in vias:
            for z in (zs if via == "jac" else zs[:n]):
                for rr in range(2 * n + 1):
                    do("verrow", via=via, d=d, z=z, r=rr)
        for z in zs:
            for k in range(1, n):
                do("sign", via="jac", d=d, z=z, k=k)
        # digests: every one-byte digest, two- and three-byte digests sampled; all nonces
        digs = [[b] for b in range(256)] + [[r.randrange(256), r.randrange(256)] for _ in range(24 if thorough else 6)] + \
               [[r.randrange(256) for _ in range(3)] for _ in range(12 if thorough else 3)]
        for dig in digs:
            for k in (range(1, n) if (thorough or len(dig) > 1 or dig[0] % 16 == 0) else (r.randrange(1, n),)):
                do("signdig", d=d, dig=dig, k=k)
                e = rec[-1]
                if e["exc"] == "ok" and max(e["out"]) < 256:
                    do("verdig", d=d, dig=dig, out=e["out"])
                    do("verdig", d=d, dig=dig, out=[e["out"][0], (e["out"][1] + 1) % 256])
        for dig in digs[:256:8] + digs[256:]:
            for rr, ss in [(0, 1), (1, 0), (n, 1), (1, n), (n + 1, n - 1), (255, 255), (r.randrange(1, n), r.randrange(1, n))]:
                do("verdig", d=d, dig=dig, out=[rr, ss])
        if allvias:
            # RELATED keys verified alternately on the shared generator object, nothing in between: Q and -Q (d, n-d: same x),
            # d+1, 2d, 1/d -- every row judged by TLC as usual
            for d2 in sorted({n - d, d % (n - 1) + 1, 2 * d % n, pow(d, -1, n)} - {0, d}):
                for z in (1, 4):
                    for rr in range(1, n):
                        do("verrow", via="jac", d=d, z=z, r=rr)
                        do("verrow", via="jac", d=d2, z=z, r=rr)
                        do("verrow", via="jac", d=d, z=z, r=rr)
            # error path: first sign / verifies interrupted inside the lazy table set-up of the generator (every line-event
            # position, and one beyond), then ordinary calls on the same objects, judged as usual
            code = eclib.precompute_code()
            T.fresh_interrupted("sign", d, "jac-int:0")
            tot_s = T.last_interrupt[1]
            for N in range(1, tot_s + 2):
                for k in range(1, n):
                    do("sign", via="jac-int:%d" % N, d=d, z=3, k=k)
            for kind in ("precomp", "jac"):
                T.fresh_interrupted("verrow", d, kind + "-int:0")
                tot_v = T.last_interrupt[1]
                for N in range(1, tot_v + 2):
                    for rr in (range(1, n) if kind == "precomp" else (1, n - 1, r.randrange(2, n - 1))):
                        do("verrow", via="%s-int:%d" % (kind, N), d=d, z=1, r=rr)
    return name, part, rec


# ====================================================================== shipped curves: OpenSSL relations
def _oracle_curve(args):
    ci, tier, wd = args
    from ..common import repo_on_path
    repo_on_path()
    from register_crypto_plugin.ecdsa import keys, util
    cv = eclib.shipped()[ci]
    r = rng("c18/" + cv.name)
    thorough = tier == "thorough"
    files = eclib.Files(os.path.join(wd, cv.name))
    n = int(cv.order)
    nb = n.bit_length()
    L = (nb + 7) // 8
    d, d2 = r.randrange(1, n), r.randrange(1, n)
    # the key files OpenSSL works with do not come from the library: private key encoded here, public keys derived by OpenSSL
    privf = files.put(eclib.priv_der_nopub(cv, d), "priv")
    pubf, pub2f = files.put(eclib.ossl_pub_raw(cv, d)[1], "pub"), files.put(eclib.ossl_pub_raw(cv, d2)[1], "pub2")
    evs = []            # events; "ref" may be a pending OpenSSL query
    try:
        sk, sk2 = keys.SigningKey.from_secret_exponent(d, cv), keys.SigningKey.from_secret_exponent(d2, cv)
        vk, vk2 = sk.verifying_key, sk2.verifying_key
    except Exception as e:
        return cv.name, [{"tid": 0, "op": "flags", "what": "%s key generation d=%d raised %s" % (cv.name, d, eclib.mro(e)), "ctx": "", "zero": 0,
                          "lib": [0], "ref": [], "cls": type(e).__name__}], 2
    queries = {}        # (hname, which pub, der sig, msg) -> verdict

    def q_verify(hname, sig_der, msg, pub=None):
        key = (hname, pub or pubf, bytes(sig_der), bytes(msg))
        queries.setdefault(key, None)
        return ("Q", key)

    def ev(op, what, lib, ref, cls="", ctx="verify", key=None):
        e = {"tid": 0, "op": op, "what": "%s %s" % (cv.name, what), "ctx": ctx, "zero": 0, "lib": lib, "ref": ref, "cls": cls}
        if key:
            e["_key"] = key
        evs.append(e)

    def lib_verify(vkey, sig, msg, H, dec):
        try:
            ok = vkey.verify(sig, msg, hashfunc=H, sigdecode=dec)
            return ("accept" if ok is True else "reject"), ("" if ok is True else "returned %r" % (ok,))
        except Exception as e:
            return "reject", type(e).__name__

    def split(sig):
        return int.from_bytes(sig[:L], "big"), int.from_bytes(sig[L:], "big")

    def flip(b, bit):
        m = bytearray(b)
        m[bit // 8] ^= 0x80 >> (bit % 8)
        return bytes(m)

    def positions(nbits, few, head=0):
        if nbits == 0:
            return []
        return sorted(set(r.sample(range(nbits), min(few, nbits))) | set(range(min(head, nbits))) | {nbits - 1})

    # OpenSSL-made signatures first (one call per hash)
    msgs = {h: bytes(r.randrange(256) for _ in range(r.choice([1, 5, 13, 16]))) for h in HASHES}
    if thorough:
        msgs["sha224"] = b""
    osigs = dict(zip(HASHES, eclib.pmap(lambda h: eclib.ossl_sign(h, privf, msgs[h]), HASHES, workers=5)))
    ncalls = len(HASHES) + 2

    ENC = [("der", util.sigencode_der, util.sigdecode_der), ("der_canonize", util.sigencode_der_canonize, util.sigdecode_der),
           ("string", util.sigencode_string, util.sigdecode_string), ("string_canonize", util.sigencode_string_canonize, util.sigdecode_string),
           ("strings", util.sigencode_strings, util.sigdecode_strings), ("strings_canonize", util.sigencode_strings_canonize, util.sigdecode_strings)]
    det_k = []

    def per_hash(hname):
        H = getattr(hashlib, hname)
        msg = msgs[hname]
        all_bits = thorough and hname in ("sha256", "sha512")
        tag = "%s msg=%s " % (hname, msg.hex())
        knonce = r.randrange(1, n)
        # ---- A. library signs, OpenSSL verifies
        made = {}
        for ename, enc, dec in ENC:
            sig = sk.sign(msg, hashfunc=H, sigencode=enc, k=knonce)
            made[ename] = sig
            rs = util.sigdecode_der(sig, n) if ename.startswith("der") else split(sig if ename.startswith("string_") or ename == "string" else sig[0] + sig[1])
            lv, cls = lib_verify(vk, sig, msg, H, dec)
            ev("accept", tag + "library signs (%s, k given) -> library and OpenSSL verify" % ename, lv,
               q_verify(hname, sig if ename.startswith("der") else eclib.der_sig(*rs), msg), cls)
            made[ename + ":rs"] = rs
        r0, s0 = made["der:rs"]
        rc, sc = made["der_canonize:rs"]
        ev("flags", tag + "canonised signature: same r, s' in {s, n-s}, 2s' <= n; all canonised encodings carry the same (r, s')",
           [int(rc == r0), int(sc in (s0, n - s0)), int(2 * sc <= n), int(made["string_canonize:rs"] == (rc, sc)),
            int(made["strings_canonize:rs"] == (rc, sc)), int(made["string:rs"] == (r0, s0)), int(made["strings:rs"] == (r0, s0))], [])
        for ename, enc, dec in (ENC[0], ENC[1], ENC[2]):
            sig = sk.sign_deterministic(msg, hashfunc=H, sigencode=enc)
            lv, cls = lib_verify(vk, sig, msg, H, dec)
            ev("accept", tag + "sign_deterministic (%s) -> library and OpenSSL verify" % ename, lv,
               q_verify(hname, sig if ename.startswith("der") else eclib.der_sig(*split(sig)), msg), cls)
        # verification through VerifyingKey.precompute() on a key loaded from bytes
        for how, load in (("from_string", lambda: keys.VerifyingKey.from_string(vk.to_string(), cv)), ("from_der", lambda: keys.VerifyingKey.from_der(vk.to_der()))):
            if hname != "sha256" and how == "from_der":
                continue
            try:
                vkp = load()
                vkp.precompute()
                lv, cls = lib_verify(vkp, made["der"], msg, H, util.sigdecode_der)
            except Exception as e:
                lv, cls = "reject", type(e).__name__
            ev("accept", tag + "library signs (der) -> VerifyingKey.%s(...).precompute() then verify; OpenSSL verifies" % how, lv,
               q_verify(hname, made["der"], msg), cls, key="precompute-on-loaded-key")
        # ---- B. OpenSSL signs, library verifies
        osig = osigs[hname]
        lv, cls = lib_verify(vk, osig, msg, H, util.sigdecode_der)
        ev("accept", tag + "OpenSSL signs -> library (sigdecode_der) and OpenSSL verify", lv, q_verify(hname, osig, msg), cls)
        # ---- C. tampering
        sig_der, sig_str, sig_strs = made["der"], made["string"], made["strings"]
        for bit in (range(8 * len(msg)) if (all_bits or thorough and len(msg) <= 16) else positions(8 * len(msg), 6, 2)):
            m2 = flip(msg, bit)
            for nm, sg in (("library", sig_der), ("OpenSSL", osig)):
                lv, cls = lib_verify(vk, sg, m2, H, util.sigdecode_der)
                ev("verdict", tag + "message bit %d flipped, %s-made DER signature" % (bit, nm), lv, q_verify(hname, sg, m2), cls)
        for m2, what in ((msg + b"\x00", "message extended by 00"), (msg[:-1], "message truncated"), (b"", "empty message")):
            if m2 != msg:
                lv, cls = lib_verify(vk, sig_der, m2, H, util.sigdecode_der)
                ev("verdict", tag + what, lv, q_verify(hname, sig_der, m2), cls)
        for nm, sg in (("library", sig_der), ("OpenSSL", osig)):
            for bit in (range(8 * len(sg)) if all_bits else positions(8 * len(sg), 40 if thorough else 10, 16)):
                s2 = flip(sg, bit)
                lv, cls = lib_verify(vk, s2, msg, H, util.sigdecode_der)
                ev("verdict", tag + "%s-made DER signature bit %d flipped [%s]" % (nm, bit, s2.hex()), lv, q_verify(hname, s2, msg), cls)
        for bit in (range(8 * len(sig_str)) if all_bits else positions(8 * len(sig_str), 40 if thorough else 8, 1)):
            s2 = flip(sig_str, bit)
            ref = q_verify(hname, eclib.der_sig(*split(s2)), msg)
            lv, cls = lib_verify(vk, s2, msg, H, util.sigdecode_string)
            ev("verdict", tag + "string signature bit %d flipped [%s]" % (bit, s2.hex()), lv, ref, cls)
            lv, cls = lib_verify(vk, (s2[:L], s2[L:]), msg, H, util.sigdecode_strings)
            ev("verdict", tag + "strings signature bit %d flipped [%s]" % (bit, s2.hex()), lv, ref, cls)
        for nm, sg, dec in (("DER", sig_der, util.sigdecode_der), ("string", sig_str, util.sigdecode_string), ("strings", sig_strs, util.sigdecode_strings)):
            lv, cls = lib_verify(vk2, sg, msg, H, dec)
            ev("verdict", tag + "%s signature under a different key" % nm, lv, q_verify(hname, sig_der, msg, pub2f), cls)
        # out-of-range r, s
        vals = [0, n, n + 1, 2 ** nb, 2 ** (nb + 1), 2 ** (nb - 1), 256 ** L - 1, n - 1]
        combos = [(v, s0) for v in vals] + [(r0, v) for v in vals] + [(0, 0), (n, n), (n + 1, n + 1), (r0, n - s0), (n - r0, s0), (r0 + n, s0), (r0, s0 + n)]
        for rr, ss in combos:
            dsig = eclib.der_sig(rr, ss)
            ref = q_verify(hname, dsig, msg)
            lv, cls = lib_verify(vk, dsig, msg, H, util.sigdecode_der)
            ev("verdict", tag + "DER signature r=%d s=%d" % (rr, ss), lv, ref, cls)
            if rr < 256 ** L and ss < 256 ** L:
                raw = rr.to_bytes(L, "big") + ss.to_bytes(L, "big")
                lv, cls = lib_verify(vk, raw, msg, H, util.sigdecode_string)
                ev("verdict", tag + "string signature r=%d s=%d" % (rr, ss), lv, ref, cls)
                lv, cls = lib_verify(vk, (raw[:L], raw[L:]), msg, H, util.sigdecode_strings)
                ev("verdict", tag + "strings signature r=%d s=%d" % (rr, ss), lv, ref, cls)
        # malformed encodings
        body = sig_der[2:] if sig_der[1] < 0x80 else sig_der[3:]
        for s2, what in ((sig_der[:-1], "DER truncated by one byte"), (sig_der + b"\x00", "DER followed by 00"), (b"", "empty DER"),
                         (b"\x30\x00", "empty SEQUENCE"), (sig_der[:2], "header only"), (b"\x30" + eclib.der_len(len(body) + 1) + body + b"\x00", "junk inside SEQUENCE"),
                         (b"\x30\x81" + bytes([len(body)]) + body if len(body) < 0x80 else b"\x30\x82\x00" + bytes([len(body)]) + body, "non-minimal length"),
                         (b"\x30" + eclib.der_len(len(body) + 1) + b"\x02" + bytes([body[1] + 1]) + b"\x00" + body[2:], "r with a superfluous leading 00"),
                         (b"\x31" + sig_der[1:], "SET instead of SEQUENCE"), (b"\x30\x80" + body + b"\x00\x00", "indefinite length")):
            lv, cls = lib_verify(vk, s2, msg, H, util.sigdecode_der)
            ev("verdict", tag + "malformed DER: %s [%s]" % (what, s2.hex()), lv, q_verify(hname, s2, msg), cls)
        for s2, what in ((sig_str[:-1], "one byte short"), (sig_str + b"\x00", "one byte long"), (b"", "empty"), (sig_str[:L], "only r")):
            lv, cls = lib_verify(vk, s2, msg, H, util.sigdecode_string)
            ev("docreject", tag + "string signature %s" % what, lv, "", cls)
        for s2, what in (((sig_strs[0],), "one string"), ((sig_strs[0], sig_strs[1], b""), "three strings"), ((sig_strs[0][:-1], sig_strs[1]), "short r"),
                         ((sig_strs[0], sig_strs[1] + b"\x00"), "long s")):
            lv, cls = lib_verify(vk, s2, msg, H, util.sigdecode_strings)
            ev("docreject", tag + "strings signature %s" % what, lv, "", cls)
        # ---- D. RFC 6979: nonce from the independent generator, r from OpenSSL's k*G, s with Python integers
        h1 = H(msg).digest()
        k = rfc6979_k(n, d, hname, h1)
        try:
            rl, sl = sk.sign_deterministic(msg, hashfunc=H, sigencode=lambda r_, s_, o_: (r_, s_))
            lib = int(rl).to_bytes(L, "big") + int(sl).to_bytes(L, "big")
            cls = ""
        except Exception as e:
            lib, cls = b"\xff", type(e).__name__
        det_k.append((hname, msg, k, h1, lib, cls))

    simple = lambda r_, s_, o_: (r_, s_)

    def det_event(label, fn, k, h1, dd=None):
        """fn() -> (r, s) of a deterministic signature; judged against the independent nonce k and OpenSSL's k*G"""
        try:
            rl, sl = fn()
            lib, cls = int(rl).to_bytes(L, "big") + int(sl).to_bytes(L, "big"), ""
        except Exception as e:
            lib, cls = b"\xff", type(e).__name__
        det_k.append((label, None, k, h1, lib, cls, d if dd is None else dd))

    def accept_event(label, hname, fn_sign, msg, verify=None, pub=None):
        """fn_sign() -> DER signature made by the library: must verify in the library (verify(sig), default vk with the
        per-call hash) and in OpenSSL under `dgst -<hname>`"""
        H = getattr(hashlib, hname)
        try:
            sig = fn_sign()
            lv, cls = (verify or (lambda sg: lib_verify(vk, sg, msg, H, util.sigdecode_der)))(sig)
            ev("accept", label, lv, q_verify(hname, sig, msg, pub), cls)
        except Exception as e:
            ev("accept", label, "reject", "accept", type(e).__name__)

    def extras():
        import array
        # ---- E. digest produced by one hash, HMAC-DRBG of RFC 6979 run with another (sizes differ)
        msg = msgs["sha256"]
        pairs = [(a, b) for a in HASHES for b in HASHES if a != b]
        if not thorough:
            pairs = [("sha256", "sha1"), ("sha1", "sha256"), ("sha512", "sha256"), ("sha224", "sha512"), ("sha384", "sha224")]
        for hd, hg in pairs:
            Hd, Hg = getattr(hashlib, hd), getattr(hashlib, hg)
            dig = Hd(msg).digest()
            k = rfc6979_k(n, d, hg, dig)
            det_event("%s digest of msg=%s signed with sign_digest_deterministic(hashfunc=%s)" % (hd, msg.hex(), hg),
                      lambda: sk.sign_digest_deterministic(dig, hashfunc=Hg, sigencode=simple, allow_truncate=True), k, dig)
            det_event("%s digest of msg=%s signed with sign_digest_deterministic() of a key created with hashfunc=%s" % (hd, msg.hex(), hg),
                      lambda: keys.SigningKey.from_secret_exponent(d, cv, hashfunc=Hg).sign_digest_deterministic(dig, sigencode=simple, allow_truncate=True), k, dig)
        # ---- F. every bytes-like representation the library accepts for data / digest arguments (probed on the unchanged
        #         tree: all of these are accepted by sign*, verify*), each judged like the bytes form
        forms = [("bytes", bytes), ("bytearray", bytearray), ("memoryview", memoryview), ("array-B", lambda b: array.array("B", b)),
                 ("array-H", lambda b: array.array("H", b)), ("array-I", lambda b: array.array("I", b)),
                 ("memoryview-cast-H", lambda b: memoryview(b).cast("H")), ("memoryview-of-array-I", lambda b: memoryview(array.array("I", b)))]
        msg4 = bytes(r.randrange(256) for _ in range(16))
        for hname in (("sha512", "sha256", "sha1") if thorough else ("sha512", "sha224" if nb < 224 else "sha256")):
            H = getattr(hashlib, hname)
            dig = H(msg4).digest()
            k = rfc6979_k(n, d, hname, dig)
            kn = r.randrange(1, n)
            ref_sig = sk.sign(msg4, hashfunc=H, sigencode=util.sigencode_der, k=kn)
            for fname, f in forms:
                tag = "%s msg=%s given as %s: " % (hname, msg4.hex(), fname)
                det_event(tag + "sign_digest_deterministic(digest)", lambda: sk.sign_digest_deterministic(f(dig), hashfunc=H, sigencode=simple, allow_truncate=True), k, dig)
                det_event(tag + "sign_deterministic(data)", lambda: sk.sign_deterministic(f(msg4), hashfunc=H, sigencode=simple), k, dig)
                det_event(tag + "sign_deterministic(data, extra_entropy=b'' as that form)",
                          lambda: sk.sign_deterministic(msg4, hashfunc=H, sigencode=simple, extra_entropy=f(b"")), k, dig)
                accept_event(tag + "sign(data, k given) -> library and OpenSSL verify", hname,
                             lambda: sk.sign(f(msg4), hashfunc=H, sigencode=util.sigencode_der, k=kn), msg4)
                accept_event(tag + "sign_digest(digest, k given) -> library and OpenSSL verify", hname,
                             lambda: sk.sign_digest(f(dig), sigencode=util.sigencode_der, k=kn, allow_truncate=True), msg4)

                def lv_(fn):
                    try:
                        ok = fn()
                        return ("accept" if ok is True else "reject"), ""
                    except Exception as e:
                        return "reject", type(e).__name__
                for what, fn in (("verify(sig, data)", lambda: vk.verify(ref_sig, f(msg4), hashfunc=H, sigdecode=util.sigdecode_der)),
                                 ("verify_digest(sig, digest)", lambda: vk.verify_digest(ref_sig, f(dig), sigdecode=util.sigdecode_der, allow_truncate=True)),
                                 ("verify(sig, tampered data)", lambda: vk.verify(ref_sig, f(bytes([msg4[0] ^ 1]) + msg4[1:]), hashfunc=H, sigdecode=util.sigdecode_der))):
                    lv, cls = lv_(fn)
                    tampered = "tampered" in what
                    ev("verdict" if tampered else "accept", tag + what, lv,
                       q_verify(hname, ref_sig, (bytes([msg4[0] ^ 1]) + msg4[1:]) if tampered else msg4), cls)
        # ---- G. keys obtained through every constructor WITH a non-default hashfunc, then used without a per-call hash
        hname = ("sha256", "sha384", "sha512", "sha224")[ci % 4]
        H = getattr(hashlib, hname)
        msg = msgs[hname]
        h1 = H(msg).digest()
        k = rfc6979_k(n, d, hname, h1)
        kn = r.randrange(1, n)
        ent = lambda nbytes: bytes(r.randrange(256) for _ in range(nbytes))
        ctors = [("from_secret_exponent", lambda: keys.SigningKey.from_secret_exponent(d, cv, hashfunc=H)),
                 ("from_string", lambda: keys.SigningKey.from_string(sk.to_string(), cv, hashfunc=H)),
                 ("from_der(ssleay)", lambda: keys.SigningKey.from_der(sk.to_der(), hashfunc=H)),
                 ("from_der(pkcs8)", lambda: keys.SigningKey.from_der(sk.to_der(format="pkcs8"), hashfunc=H)),
                 ("from_pem(ssleay)", lambda: keys.SigningKey.from_pem(sk.to_pem(), hashfunc=H)),
                 ("from_pem(pkcs8)", lambda: keys.SigningKey.from_pem(sk.to_pem(format="pkcs8"), hashfunc=H)),
                 ("from_pem(ssleay, str)", lambda: keys.SigningKey.from_pem(sk.to_pem().decode(), hashfunc=H)),
                 ("generate", lambda: keys.SigningKey.generate(cv, entropy=ent, hashfunc=H))]
        for cname, make in ctors:
            tag = "SigningKey.%s(..., hashfunc=%s) then no per-call hash, msg=%s: " % (cname, hname, msg.hex())
            try:
                skc = make()
                dd = int(skc.privkey.secret_multiplier)
            except Exception as e:
                ev("flags", tag + "constructor raised " + eclib.mro(e), [0], [], type(e).__name__)
                continue
            pubc = None
            if dd != d:
                pubc = files.put(eclib.ossl_pub_raw(cv, dd)[1], "pubg")
            det_event(tag + "sign_deterministic(msg)", lambda: skc.sign_deterministic(msg, sigencode=simple),
                      k if dd == d else rfc6979_k(n, dd, hname, h1), h1, dd)

            def ver_own(sg):
                try:
                    ok = skc.verifying_key.verify(sg, msg, sigdecode=util.sigdecode_der)          # no per-call hash either
                    return ("accept" if ok is True else "reject"), ""
                except Exception as e:
                    return "reject", type(e).__name__
            accept_event(tag + "sign(msg, k given) -> its verifying_key (no per-call hash) and OpenSSL dgst -%s verify" % hname, hname,
                         lambda: skc.sign(msg, sigencode=util.sigencode_der, k=kn), msg, ver_own, pubc)
            accept_event(tag + "sign_deterministic(msg) -> its verifying_key and OpenSSL dgst -%s verify" % hname, hname,
                         lambda: skc.sign_deterministic(msg, sigencode=util.sigencode_der), msg, ver_own, pubc)
        vctors = [("from_string", lambda: keys.VerifyingKey.from_string(vk.to_string(), cv, hashfunc=H)),
                  ("from_der", lambda: keys.VerifyingKey.from_der(vk.to_der(), hashfunc=H)),
                  ("from_pem", lambda: keys.VerifyingKey.from_pem(vk.to_pem(), hashfunc=H)),
                  ("from_public_point", lambda: keys.VerifyingKey.from_public_point(vk.pubkey.point, cv, hashfunc=H)),
                  ("from_public_key_recovery", lambda: [v for v in keys.VerifyingKey.from_public_key_recovery(
                      osigs[hname], msg, cv, hashfunc=H, sigdecode=util.sigdecode_der) if v.to_string() == vk.to_string()][0])]
        if cv.curve.cofactor() != 1:
            vctors.pop()          # key recovery only tries x = r; with n << p (SECP112r2) x = r + j*n is common: outside this property
        for cname, make in vctors:
            tag = "VerifyingKey.%s(..., hashfunc=%s) then verify() without per-call hash: " % (cname, hname)
            try:
                vkc = make()
                ok = vkc.verify(osigs[hname], msg, sigdecode=util.sigdecode_der)
                lv, cls = ("accept" if ok is True else "reject"), ""
            except Exception as e:
                lv, cls = "reject", type(e).__name__
            ev("accept", tag + "OpenSSL-made %s signature" % hname, lv, q_verify(hname, osigs[hname], msg), cls)

    def extras2():
        # ---- H. RFC 6979 with MANY rejected nonce candidates: the independent generator counts how often step H3 goes round;
        #         a bounded, seeded search picks the (key, message) pairs with the longest runs on the curves whose order is
        #         not close to a power of two (a candidate of qlen bits is out of range with probability 1 - n / 2^qlen)
        prej = 1 - n / 2.0 ** nb
        if prej > 0.05:
            budget = (1 << 20 if cv.name == "SECP160r1" else 150000) if thorough else 12000
            found = []
            H = hashlib.sha256
            for i in range(budget):
                m = b"C18 %s rejection search %d/%d" % (cv.name.encode(), i, r.randrange(1 << 30) if i % 1000 == 0 else 0)
                h1 = H(m).digest()
                k, rej = rfc6979_k(n, d, "sha256", h1, True)
                if len(found) < 3 or rej > found[-1][0]:
                    found = sorted(found + [(rej, m, k, h1)], key=lambda t_: -t_[0])[:3]
            for rej, m, k, h1 in found:
                det_event("RFC 6979 with %d rejected candidates before the nonce (search of %d messages, P(reject) = %.2f): sha256 msg=%r sign_deterministic"
                          % (rej, budget, prej, m), lambda: sk.sign_deterministic(m, hashfunc=H, sigencode=simple), k, h1)
                accept_event("RFC 6979 with %d rejected candidates: sha256 msg=%r sign_deterministic -> library and OpenSSL verify" % (rej, m), "sha256",
                             lambda: sk.sign_deterministic(m, hashfunc=H, sigencode=util.sigencode_der), m)
        if cv.name == "SECP160r1":
            dw, mw = 0x00A1B2C3D4E5F60718293A4B5C6D7E8F90123456, b"bec2format C18 message #417257"
            h1 = hashlib.sha256(mw).digest()
            k, rej = rfc6979_k(n, dw, "sha256", h1, True)
            if rej != 21:
                raise MachineryError("independent RFC 6979 generator: the fixed witness has %d rejected candidates, expected 21" % rej)
            det_event("RFC 6979 fixed witness with 21 rejected candidates: SECP160r1 sha256 d=%#x msg=%r sign_deterministic" % (dw, mw),
                      lambda: keys.SigningKey.from_secret_exponent(dw, cv).sign_deterministic(mw, hashfunc=hashlib.sha256, sigencode=simple), k, h1, dw)
        # ---- I. RELATED keys verified alternately in one process, nothing in between: Q and -Q (d, n-d: same x), d+1, 2d, 1/d.
        #         Every signature is valid: library (fresh key objects on the shared curve generator) and OpenSSL must accept
        hname = "sha256"
        H = hashlib.sha256
        msg = msgs[hname]
        for pi, (rel, dp) in enumerate((("n-d (the negated point, same x)", n - d), ("d+1", d % (n - 1) + 1), ("2d", 2 * d % n), ("1/d", pow(d, -1, n)))):
            if dp in (0, d):
                continue
            pubp = files.put(eclib.ossl_pub_raw(cv, dp)[1], "pubr")
            try:
                skp = keys.SigningKey.from_secret_exponent(dp, cv)
                sigs = {"A": sk.sign_deterministic(msg, hashfunc=H, sigencode=util.sigencode_der),
                        "B": skp.sign_deterministic(msg, hashfunc=H, sigencode=util.sigencode_der)}
                vks = {"A": keys.VerifyingKey.from_string(vk.to_string(), cv), "B": keys.VerifyingKey.from_string(skp.verifying_key.to_string(), cv)}
            except Exception as e:
                ev("flags", "related keys d and %s: set-up raised %s" % (rel, eclib.mro(e)), [0], [], type(e).__name__)
                continue
            for step, who in enumerate("ABAB" if pi % 2 == 0 else "BABA"):
                lv, cls = lib_verify(vks[who], sigs[who], msg, H, util.sigdecode_der)
                ev("accept", "related keys d and %s verified alternately, step %d: valid signature of key %s (%s) -> library and OpenSSL verify"
                   % (rel, step + 1, who, "d" if who == "A" else rel), lv, q_verify(hname, sigs[who], msg, None if who == "A" else pubp), cls)
            # and an invalid one in the same rhythm: signature of A offered to B
            lv, cls = lib_verify(vks["B"], sigs["A"], msg, H, util.sigdecode_der)
            ev("verdict", "related keys d and %s: signature of d offered to the other key" % rel, lv, q_verify(hname, sigs["A"], msg, pubp), cls)

    for hname in HASHES:
        try:
            per_hash(hname)
        except MachineryError:
            raise
        except Exception as e:          # a library call outside the recorded verdicts failed: a rejected event, not a crash
            ev("flags", "%s: the library raised %s: %s while producing the events of this hash" % (hname, eclib.mro(e), str(e)[:200]), [0], [],
               type(e).__name__)

    for part in (extras, extras2):
        try:
            part()
        except MachineryError:
            raise
        except Exception as e:
            ev("flags", "the library raised %s: %s while producing the constructor / buffer-form / hash-pair / rejection / related-key events"
               % (eclib.mro(e), str(e)[:200]), [0], [], type(e).__name__)

    # ---- OpenSSL: k*G for the deterministic nonces, then all verification queries
    uk = sorted({t[2] for t in det_k})
    kxs = dict(zip(uk, eclib.pmap(lambda k_: eclib.ossl_pub_raw(cv, k_)[0], uk, workers=5)))
    ncalls += len(uk)
    for t in det_k:
        hname, msg, k, h1, lib, cls = t[:6]
        dd = t[6] if len(t) > 6 else d
        raw = kxs[k]
        x = int.from_bytes(raw[:len(raw) // 2], "big")
        rr = x % n
        z = int.from_bytes(h1, "big")
        if len(h1) * 8 > nb:
            z >>= len(h1) * 8 - nb
        ss = pow(k, -1, n) * (z + rr * dd) % n
        if rr == 0 or ss == 0:
            continue
        what = ("%s msg=%s sign_deterministic" % (hname, msg.hex())) if msg is not None else hname
        ev("eq", what + " (r, s) = (x(kG) mod n from OpenSSL, k^-1(z + r d)) with the independent RFC 6979 nonce k=%d" % k,
           list(lib), list(rr.to_bytes(L, "big") + ss.to_bytes(L, "big")), cls, ctx="rfc6979")
    qkeys = list(queries)
    maxlen = len(eclib.der_sig(n, n))        # EVP_PKEY_size of the key in OpenSSL 3 (ECDSA_size encodes the order twice)
    verd = eclib.pmap(lambda q: eclib.ossl_verify(q[0], q[1], q[2], q[3], files, maxlen), qkeys, workers=6)
    ncalls += len(qkeys)
    queries.update(zip(qkeys, verd))
    for e in evs:
        if isinstance(e["ref"], tuple) and e["ref"] and e["ref"][0] == "Q":
            e["ref"] = queries[e["ref"][1]]
    return cv.name, evs, ncalls


# ====================================================================== histories (state kept by the library between calls)
def _oracle_history(args):
    """One fresh process: every shipped curve in turn (curves of equal byte length but different bit length are neighbours),
    then all of them again in the opposite direction, with the SAME private scalar and message on every curve and several
    hashes: RFC 6979 signatures rebuilt independently, signatures with a given nonce and OpenSSL-made signatures verified.
    Run twice (order 0 / 1), so that every pair of curves is met in both orders as first users of any process-wide memo."""
    tier, wd, order = args
    from ..common import repo_on_path
    repo_on_path()
    from register_crypto_plugin.ecdsa import keys, util
    thorough = tier == "thorough"
    r = rng("c18/history/%d" % order)
    files = eclib.Files(os.path.join(wd, "hist%d" % order))
    blen = lambda c: (int(c.order).bit_length() + 7) // 8
    cvs = sorted(eclib.shipped(), key=lambda c: (blen(c), int(c.order).bit_length(), c.name), reverse=bool(order))
    seq = cvs + cvs[::-1]
    hashes = HASHES if thorough else ["sha1", "sha256", "sha512"]
    if order:
        hashes = hashes[::-1]
    d = r.randrange(2, min(int(c.order) for c in cvs))
    msg = bytes(r.randrange(256) for _ in range(11))
    evs, det, ver = [], [], []
    pub = {c.name: files.put(eclib.ossl_pub_raw(c, d)[1], "pub") for c in cvs}
    priv = {c.name: files.put(eclib.priv_der_nopub(c, d), "priv") for c in cvs}
    osig = dict(zip([(c.name, h) for c in cvs for h in hashes],
                    eclib.pmap(lambda t: eclib.ossl_sign(t[1], priv[t[0]], msg), [(c.name, h) for c in cvs for h in hashes], workers=8)))
    ncalls = 2 * len(cvs) + len(osig)

    def ev(op, what, lib, ref, cls="", ctx="verify"):
        e = {"tid": 0, "op": op, "what": "history%d %s" % (order, what), "ctx": ctx, "zero": 0, "lib": lib, "ref": ref, "cls": cls}
        evs.append(e)
        return e

    for step, cv in enumerate(seq):
        n = int(cv.order)
        L = blen(cv)
        for hname in hashes:
            H = getattr(hashlib, hname)
            tag = "step %d %s %s d=%d msg=%s " % (step, cv.name, hname, d, msg.hex())
            try:
                sk = keys.SigningKey.from_secret_exponent(d, cv)
                vk = sk.verifying_key
                rl, sl = sk.sign_deterministic(msg, hashfunc=H, sigencode=lambda r_, s_, o_: (r_, s_))
                lib, cls = list(int(rl).to_bytes(L, "big") + int(sl).to_bytes(L, "big")), ""
                dsig = eclib.der_sig(int(rl), int(sl))
            except Exception as e:
                lib, cls, dsig, vk = [255], type(e).__name__, None, None
            h1 = H(msg).digest()
            k = rfc6979_k(n, d, hname, h1)
            det.append((ev("eq", tag + "sign_deterministic = independent RFC 6979 nonce k=%d + OpenSSL k*G" % k, lib, None, cls, ctx="rfc6979"), cv, k, h1))
            if dsig is not None:
                ver.append((ev("accept", tag + "sign_deterministic -> library and OpenSSL verify", "accept", None), hname, cv, dsig, vk, H, util.sigdecode_der))
            try:
                sig2 = sk.sign(msg, hashfunc=H, sigencode=util.sigencode_string, k=(k % (n - 1)) + 1)
                ver.append((ev("accept", tag + "sign (string, k given) -> library and OpenSSL verify", "accept", None), hname, cv,
                            eclib.der_sig(int.from_bytes(sig2[:L], "big"), int.from_bytes(sig2[L:], "big")), vk, H, util.sigdecode_der))
            except Exception as e:
                ev("flags", tag + "sign raised " + eclib.mro(e), [0], [], type(e).__name__)
            ver.append((ev("accept", tag + "OpenSSL signs -> library (key loaded from DER) and OpenSSL verify", "accept", None), hname, cv,
                        osig[(cv.name, hname)], "load", H, util.sigdecode_der))
    # ---- error path on real curves: FRESH Curve objects (the table of their generator is not built yet); key generation
    #      d*G is interrupted inside PointJacobi._maybe_precompute (sampled line positions), the exception swallowed; then
    #      key generation, sign_deterministic and sign on the same Curve object, judged as above
    from register_crypto_plugin.ecdsa.curves import Curve
    from register_crypto_plugin.ecdsa.ellipticcurve import PointJacobi
    code = eclib.precompute_code()
    for cv0 in [c for c in cvs if c.name in (("NIST256p", "SECP112r2", "BRAINPOOLP384r1", "SECP256k1", "NIST521p") if thorough else ("NIST256p", "SECP112r2", "BRAINPOOLP192r1"))]:
        def fresh_curve():
            g = cv0.generator
            return Curve(cv0.name, cv0.curve, PointJacobi(cv0.curve, int(g.x()), int(g.y()), 1, int(cv0.order), generator=True), cv0.oid, cv0.openssl_name)
        total = eclib.interrupted(code, 0, lambda: keys.SigningKey.from_secret_exponent(d, fresh_curve()))[1]
        for N in sorted({2, total // 2, total - 3} | {r.randrange(5, total) for _ in range(5 if thorough else 2)}):
            fc = fresh_curve()
            hit = eclib.interrupted(code, N, lambda: keys.SigningKey.from_secret_exponent(d, fc))
            n, L = int(fc.order), blen(fc)
            hname = hashes[0]
            H = getattr(hashlib, hname)
            tag = "%s %s d=%d msg=%s after a key generation interrupted at line event %d of %d in _maybe_precompute (%s): " % (
                fc.name, hname, d, msg.hex(), N, total, "interrupted" if hit[0] else "not interrupted")
            try:
                sk = keys.SigningKey.from_secret_exponent(d, fc)
                vk = sk.verifying_key
                evs_pub = list(vk.to_string("uncompressed"))
                rl, sl = sk.sign_deterministic(msg, hashfunc=H, sigencode=lambda r_, s_, o_: (r_, s_))
                lib, cls = list(int(rl).to_bytes(L, "big") + int(sl).to_bytes(L, "big")), ""
                dsig = eclib.der_sig(int(rl), int(sl))
            except Exception as e:
                lib, cls, dsig, vk, evs_pub = [255], type(e).__name__, None, None, [255]
            ev("eq", tag + "public key = OpenSSL's d*G", evs_pub, list(b"\x04" + eclib.ossl_pub_raw(cv0, d)[0]), cls, ctx="keygen")
            h1 = H(msg).digest()
            k = rfc6979_k(n, d, hname, h1)
            det.append((ev("eq", tag + "sign_deterministic = independent RFC 6979 nonce k=%d + OpenSSL k*G" % k, lib, None, cls, ctx="rfc6979"), cv0, k, h1))
            if dsig is not None:
                ver.append((ev("accept", tag + "sign_deterministic -> library (key loaded from DER) and OpenSSL verify", "accept", None), hname, cv0, dsig, "load", H, util.sigdecode_der))
    # library verdicts in the same sequence, then the OpenSSL answers
    for e, hname, cv, sig, vk, H, dec in ver:
        try:
            if vk == "load":
                vk = keys.VerifyingKey.from_der(open(pub[cv.name], "rb").read())
            ok = vk.verify(sig, msg, hashfunc=H, sigdecode=dec)
            e["lib"], e["cls"] = ("accept" if ok is True else "reject"), ""
        except Exception as ex:
            e["lib"], e["cls"] = "reject", type(ex).__name__
    uq = sorted({(cv.name, k) for _, cv, k, _ in det})
    byname = {c.name: c for c in cvs}
    kx = dict(zip(uq, eclib.pmap(lambda q: eclib.ossl_pub_raw(byname[q[0]], q[1])[0], uq, workers=8)))
    for e, cv, k, h1 in det:
        n, L = int(cv.order), blen(cv)
        raw = kx[(cv.name, k)]
        rr = int.from_bytes(raw[:len(raw) // 2], "big") % n
        z = int.from_bytes(h1, "big")
        if len(h1) * 8 > n.bit_length():
            z >>= len(h1) * 8 - n.bit_length()
        ss = pow(k, -1, n) * (z + rr * d) % n
        e["ref"] = list(rr.to_bytes(L, "big") + ss.to_bytes(L, "big"))
    vq = sorted({(hname, cv.name, bytes(sig)) for _, hname, cv, sig, _, _, _ in ver})
    va = dict(zip(vq, eclib.pmap(lambda q: eclib.ossl_verify(q[0], pub[q[1]], q[2], msg, files, len(eclib.der_sig(int(byname[q[1]].order), int(byname[q[1]].order)))),
                                 vq, workers=8)))
    for e, hname, cv, sig, _, _, _ in ver:
        e["ref"] = va[(hname, cv.name, bytes(sig))]
    ncalls += len(uq) + len(vq)
    return "history%d" % order, evs, ncalls


# ====================================================================== the check
def run(tier):
    import multiprocessing as mp
    rep = Report("C18", tier)
    ossl_version = eclib.require_openssl()
    _rfc6979_selfcheck()
    thorough = tier == "thorough"
    curves = ["T17", "T13", "T13r"] + (["T11", "T23"] if thorough else [])
    r = rng("c18")
    with Scratch("c18") as wd:
        ctx = mp.get_context("fork")
        pool = ctx.Pool(10 if thorough else 8)
        tjobs = []
        for nm in curves:
            n = TINY[nm][5]
            ds = list(range(1, n)) if (thorough or nm == "T13r") else sorted({1, n - 1, r.randrange(2, n - 1)})
            for i, dd in enumerate(ds):
                tjobs.append((nm, tier, [dd], "d%d" % dd, thorough or i == 1))
        tiny_async = pool.map_async(_record_tiny, tjobs, chunksize=1)
        ora_async = pool.map_async(_oracle_curve, [(i, tier, wd) for i in range(17)], chunksize=1)
        # histories: each in a fresh interpreter of its own
        hist_async = eclib.FreshJobs(os.path.join(wd, "fresh"), "harness.checks.c18", "_oracle_history", [(tier, wd, 0), (tier, wd, 1)])

        # ---------------------------------------------------------------- MC while the recorders run
        def mc(job):
            nm, invs, tag = job
            return job, tlc.run(os.path.join(SPEC, "MC_ECGroup.tla" if tag == "grp" else "MC_ECDSA.tla"), _mc_cfg(nm, invs),
                                os.path.join(wd, "mc_%s_%s" % (nm, tag)), workers=4 if TINY[nm][5] > 11 else 1, timeout=1200)
        # T13r is used by C18 only: its constants (group order, generator) and the group law on it are checked here
        jobs = [(nm, MC_INV, "ax") for nm in curves] + [("T17", ["BadExactAccept"], "st"),
                                                        ("T13r", "Closure Commut Ident Inverse Assoc MulIsRep OrderDiv PrimeOrder".split(), "grp")]
        boundary = {}
        with cf.ThreadPoolExecutor(max_workers=len(jobs)) as ex:
            for (nm, invs, tag), res in ex.map(mc, jobs):
                if tag == "grp":
                    tlc.require_ok(res, "MC_ECGroup " + nm)
                    rep.add_mc("MC_ECGroup %s (constants of the model curve used only here, group axioms)" % nm, res, dict(zip("P A B GX GY N H".split(), TINY[nm])))
                elif tag == "ax":
                    tlc.require_ok(res, "MC_ECDSA " + nm)
                    p, a, b, gx, gy, n, h = TINY[nm]
                    for v in res.printed:
                        if isinstance(v, tuple) and v and v[0] == "BOUNDARY":
                            boundary[nm] = {"r=1": v[1], "r=n-1": v[2], "s=1": v[3], "s=n-1": v[4]}
                    rep.add_mc("MC_ECDSA %s: y^2=x^3+%dx+%d over F_%d, n=%d (%s)" % (nm, a, b, p, n, ", ".join(invs)), res,
                               {"P": p, "A": a, "B": b, "G": [gx, gy], "N": n,
                                "states": "d in 1..N-1, z in 0..N+1 and 2^QLen-1, phase; r, s in 0..2N and k in 1..N-1 quantified inside the invariants"})
                else:
                    if invs[0] not in res.violated:
                        raise MachineryError("self-test: the verifier with u1/u2 exchanged was not refuted by TLC:\n" + res.clean()[-1500:])
                    rep.cov["parts"]["selftest MC T17 BadExactAccept"] = "verifier with u1 and u2 exchanged refuted by TLC after %d states" % res.distinct
        try:
            tiny_parts = tiny_async.get(timeout=2400)
            ora = list(ora_async.get(timeout=3000)) + eclib.get_or_report(rep, "C18", hist_async, 3000)
        finally:
            pool.terminate()
            hist_async.terminate()

        tiny = {}
        for nm, part, evs in tiny_parts:
            lst = tiny.setdefault(nm, [])
            for e in evs:
                e["tid"] = len(lst) + 1
                lst.append(e)
        canaries = {}
        selftest = []          # failed self-tests: MachineryError only if the run is otherwise clean (a deviating library may spoil a canary)
        for nm, evs in tiny.items():
            base = next((e for e in evs if e["op"] == "verrow" and 1 in e["out"]), None)
            if base is not None:
                cz = dict(base); cz["tid"] = len(evs) + 1
                cz["out"] = list(base["out"]); j = cz["out"].index(1); cz["out"][j] = 0
            else:                                   # a deviating library accepted nothing: corrupt a verdict into "raised"
                base = next(e for e in evs if e["op"] == "verrow")
                cz = dict(base); cz["tid"] = len(evs) + 1; cz["out"] = [2] + list(base["out"][1:])
            evs.append(cz)
            base = next((e for e in evs if e["op"] == "sign" and e["exc"] == "ok"), None)
            if base is not None:
                cz2 = dict(base); cz2["tid"] = len(evs) + 1; cz2["out"] = [base["out"][0], base["out"][1] % (TINY[nm][5] - 1) + 1]
            else:
                base = next(e for e in evs if e["op"] == "sign")
                cz2 = dict(base); cz2["tid"] = len(evs) + 1; cz2["exc"] = "ok"; cz2["out"] = [0, 0]
            evs.append(cz2)
            canaries[nm] = {cz["tid"], cz2["tid"]}
            for e in evs:
                if e["op"] == "verrow":
                    e["_cost"] = 12
        oevs, ncalls = [], 0
        for nm, evs, nc in ora:
            ncalls += nc
            for e in evs:
                e["tid"] = len(oevs) + 1
                oevs.append(e)
        ocan = set()
        for pick, mut in ((lambda e: e["op"] == "accept" and e["lib"] == "accept" and e["ref"] == "accept", lambda e: e.update(ref="reject")),
                          (lambda e: e["op"] == "verdict" and e["lib"] == "reject" and e["ref"] == "reject", lambda e: e.update(lib="accept")),
                          (lambda e: e["op"] == "verdict" and e["lib"] == "reject" and e["ref"] == "reject", lambda e: e.update(cls="IndexError")),
                          (lambda e: e["op"] == "eq" and e["lib"] == e["ref"], lambda e: e.update(lib=e["lib"][:-1] + [e["lib"][-1] ^ 1]))):
            base = next((e for e in oevs if pick(e)), None)
            if base is None:
                selftest.append("no event available for one binding self-test of Trace_ECOracle")
                continue
            cz = {k: (list(v) if isinstance(v, list) else v) for k, v in base.items() if not k.startswith("_")}
            cz["tid"] = len(oevs) + 1
            cz["what"] = "CANARY " + cz["what"]
            mut(cz)
            oevs.append(cz)
            ocan.add(cz["tid"])

        vjobs = [(nm, "Trace_ECDSA", TRACE_CFG + eclib.consts(nm), evs) for nm, evs in tiny.items()]
        vjobs.append(("oracle", "Trace_ECOracle", TRACE_CFG, oevs))
        results = eclib.validate_many(vjobs, wd, total_shards=16, timeout=3000)

        # ---------------------------------------------------------------- tiny verdicts; second pass with the C17 patch in memory
        retry = {}
        pending = []
        for nm, evs in tiny.items():
            rej, st = results[nm]
            byid = {e["tid"]: e for e in evs}
            ids = {x[1] for x in rej}
            if not canaries[nm] <= ids:
                selftest.append("binding self-test: corrupted verdict / signature on %s was accepted by Trace_ECDSA" % nm)
            T = None
            for x in rej:
                if x[1] in canaries[nm]:
                    continue
                e = byid[x[1]]
                if x[2] == "verifies-at-infinity":
                    _violation(rep, nm, e, x, "verifies-at-infinity")
                    continue
                T = T or TinySig(nm)
                with PatchedAddZ1() as pa:
                    if not pa.active:
                        _violation(rep, nm, e, x, None)
                        continue
                    T._pk.clear()
                    f = {k: e[k] for k in ("via", "d", "z", "k", "r", "dig")}
                    if e["op"] == "verdig":
                        f["out"] = e["out"]
                    e2 = dict(e)
                    e2.update(T.run(e["op"], **f))
                    T._pk.clear()
                e2["tid"] = len(retry.setdefault(nm, [])) + 1
                retry[nm].append(e2)
                pending.append((nm, e, x, e2["tid"]))
            calls = sum((len(e["out"]) if e["op"] == "verrow" else 1) for e in evs[:-2])
            ops = {}
            for e in evs[:-2]:
                ops[e["op"]] = ops.get(e["op"], 0) + 1
            rep.add_trace("Trace_ECDSA %s (library on the tiny curve; expected verdicts and signatures computed by TLC)" % nm, st, len(evs) - 2,
                          extra={"events_by_op": ops, "library_calls_judged": calls, "curve": dict(zip("P A B GX GY N H".split(), TINY[nm]))})
        if retry:
            res2 = eclib.validate_many([(nm, "Trace_ECDSA", TRACE_CFG + eclib.consts(nm), evs) for nm, evs in retry.items()],
                                       os.path.join(wd, "second"), total_shards=8, timeout=1200)
            for nm, e, x, tid2 in pending:
                rej2 = [y for y in res2[nm][0] if y[1] == tid2]
                if not rej2 or all(y[2] == "verifies-at-infinity" for y in rej2):
                    _violation(rep, nm, e, x, "wrong-result-through-C17:add-z1-unreduced-y")
                else:
                    _violation(rep, nm, e, x, None)
            rep.cov["parts"]["second pass (rejected tiny events re-executed with the proposed patch of C17:add-z1-unreduced-y in memory)"] = \
                {"events": sum(len(v) for v in retry.values())}

        rej, st = results["oracle"]
        ids = {x[1] for x in rej}
        if not ocan <= ids:
            selftest.append("binding self-test: a corrupted oracle event was accepted by Trace_ECOracle (%s)" % sorted(ocan - ids))
        byid = {e["tid"]: e for e in oevs}
        for x in rej:
            if x[1] in ocan:
                continue
            e = byid[x[1]]
            key = e.get("_key") or (x[2] + ":" + (e["ctx"] or e["op"]))
            rep.violation("C18:" + key, "%s: %s (library %r %s / OpenSSL %r)" % (x[2], e["what"], _short(e["lib"]), e["cls"], _short(e["ref"])),
                          {k: v for k, v in e.items()})
        oops = {}
        for e in oevs[:len(oevs) - len(ocan)]:
            oops[e["op"]] = oops.get(e["op"], 0) + 1
        rep.add_trace("Trace_ECOracle (17 shipped curves x SHA-1..SHA-512: library vs OpenSSL verdicts, RFC 6979 (r, s))", st, len(oevs) - len(ocan),
                      spec_computed=False, extra={"events_by_relation": oops, "openssl_calls": ncalls, "openssl": ossl_version,
                                                  "curves": [c.name for c in eclib.shipped()], "hashes": HASHES})
        t0 = tiny[curves[0]]
        rep.sample(next(e for e in t0 if e["op"] == "verrow" and 1 in e["out"]))
        rep.sample(next(e for e in t0 if e["op"] == "sign"))
        rep.sample(next(e for e in t0 if e["op"] == "verdig"))
        for op in ("accept", "verdict", "eq"):
            rep.sample({k: v for k, v in next(e for e in oevs if e["op"] == op).items() if not k.startswith("_")}, limit=8)
    rep.cov["boundary_values_reached_in_valid_signatures"] = boundary          # computed by TLC (MC_ECDSA, BOUNDARY)
    if not any(b.get("r=n-1") for b in boundary.values()):
        selftest.append("non-vacuity: no model curve produces a valid signature with r = n-1 (%r)" % (boundary,))
    if selftest and not rep.violations:
        raise MachineryError("; ".join(selftest))
    rep.cov["exhaustive"] = thorough
    rep.cov["explanation"] = ("accept set of Verify exhausted by TLC on each tiny curve; the library's verifies/sign driven on " +
                              ("all" if thorough else "three keys d x all") + " (z, r, s) with r, s in 0..2n; shipped curves sampled against OpenSSL"
                              + (" (every bit position of message and signatures for SHA-256 and SHA-512)" if thorough else " (sampled bit positions)"))
    rep.assumptions += [
        "TLC integer arithmetic; ECGroup law model-checked in C17",
        "shipped curves: OpenSSL %s `dgst -sign/-verify` is the reference verifier/signer (`pkeyutl -verify` on the hashlib digest for empty and over-long signatures, which `dgst` does not read completely); k*G of the RFC 6979 nonce comes from `openssl ec -pubout`" % ossl_version,
        "hashlib/hmac (SHA-1..SHA-512, HMAC) for the independent RFC 6979 generator (checked against RFC 6979 A.2.3 and A.2.5 on every run)",
        "s = k^-1 (z + r d) mod n, z = leftmost bits of the digest, computed with Python integers in the harness",
        "Edwards curves excluded (already failing in the pinned baseline)",
    ]
    return rep


def _short(v):
    if isinstance(v, list):
        return bytes(v).hex()
    return v


def _violation(rep, nm, e, x, key):
    if key is None:
        key = "%s:%s:%s" % (x[2], e["op"], e["via"].split(":")[0])
    rep.violation("C18:" + key, "%s %s via %s d=%d z=%d k=%d r=%d dig=%s -> library %s %s; specification: %s %s" % (
        nm, e["op"], e["via"], e["d"], e["z"], e["k"], e["r"], e["dig"], e["out"], e["exc"], x[2], x[3]), dict(e, curve=nm, params=TINY[nm]))
