"""MC runs of the abstract BEC2 model shared by C02 C07 C09."""
import os

from ..common import SPEC, MachineryError
from .. import tlc

SW = dict(ADAPTER_STRIPS="FALSE", ECC_FALLBACK_SEL0="FALSE", POINT_CHECK_OFF="FALSE")


def cfg(invs, max_files, max_writes, max_blocks=3, **over):
    d = dict(SW)
    d.update(over)
    return ("SPECIFICATION Spec\nCONSTANTS\n" + "".join("%s = %s\n" % kv for kv in d.items())
            + "MaxFiles = %d\nMaxWrites = %d\nMaxBlocks = %d\n" % (max_files, max_writes, max_blocks) + "".join("INVARIANT %s\n" % i for i in invs))


def run_mc_bec2(rep, wd, tier, invs, selftest=None, two_files=None):
    mf, mw = 1, (1 if tier == "quick" else 2)
    if two_files is None:
        two_files = tier == "thorough"
    res = tlc.require_ok(tlc.run(os.path.join(SPEC, "MC_Bec2.tla"), cfg(invs, mf, mw), os.path.join(wd, "mcb"), workers=16, timeout=2400), "MC_Bec2")
    rep.add_mc("MC_Bec2: invariants %s" % ",".join(invs), res, {"MaxFiles": mf, "MaxWrites": mw})
    if not two_files:
        res2 = None
    # two files with one block each, both written: the scenario in which splicing and cross-file freshness are exercised
    else:
        res2 = tlc.require_ok(tlc.run(os.path.join(SPEC, "MC_Bec2.tla"), cfg(invs, 2, 2, 1), os.path.join(wd, "mcb2"), workers=16, timeout=2400), "MC_Bec2/2files")
        rep.add_mc("MC_Bec2 (two files, one block each, two writes): invariants %s" % ",".join(invs), res2, {"MaxFiles": 2, "MaxWrites": 2, "MaxBlocks": 1})
    if selftest:
        inv, switch = selftest
        bad = tlc.run(os.path.join(SPEC, "MC_Bec2.tla"), cfg([inv], 1, 1, **{switch: "TRUE"}), os.path.join(wd, "mcb_st"), workers=16, timeout=900)
        if inv not in bad.violated:
            raise MachineryError("self-test: %s not refuted with %s=TRUE\n%s" % (inv, switch, bad.clean()[-1500:]))
        rep.cov["parts"].setdefault("selftests", []).append("%s=TRUE: TLC refutes %s (trace of %d states)" % (switch, inv, len(bad.trace())))
    return res
