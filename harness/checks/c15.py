"""C15: CRC-16/MCRF4XX.  MC: three forms of the update step agree on all 2^24
arguments (TLC, exhaustive).  C->S: the real crc8404B on all 2^24 (start, byte)
pairs against the table TLC exported, and recorded calls (steps, all strings of
length <= 2, long strings) judged by TLC against the bit-serial definition."""
import os, multiprocessing as mp

from ..common import SPEC, Scratch, rng, MachineryError
from ..report import Report
from .. import tlc

MC_CFG = "INIT Init\nNEXT Next\nINVARIANT FormsAgreeAndFit\n"


def _real():
    from bec2format.bec2file import crc8404B
    return crc8404B


def _chunk(args):
    lo, hi, T = args
    crc = _real()
    bad = []
    n = 0
    for s in range(lo, hi):
        sh, sl = s >> 8, s & 0xFF
        for b in range(256):
            r = crc(bytes((b,)), s)
            n += 1
            if r != (sh ^ T[sl ^ b]) or not (0 <= r < 65536):
                bad.append((s, b, r))
                if len(bad) > 20:
                    return n, bad
    return n, bad


def run(tier):
    rep = Report("C15", tier)
    crc = _real()
    r = rng("c15")
    with Scratch("c15") as wd:
        # --- MC: exhaustive equivalence of the three forms
        res = tlc.require_ok(tlc.run(os.path.join(SPEC, "MC_CRC16.tla"), MC_CFG, wd, workers=16, timeout=900), "MC_CRC16")
        rep.add_mc("MC_CRC16 (StepBit = StepTab = StepShift, result < 2^16; all 2^16 states x 256 bytes per state)", res,
                   {"states": "0..65535", "bytes per state": 256})
        T = None
        for v in res.printed:
            if isinstance(v, tuple) and v and v[0] == "TAB":
                T = [v[1][i] for i in range(256)] if isinstance(v[1], tuple) else [v[1][i] for i in range(256)]
        if T is None or len(T) != 256:
            raise MachineryError("table export missing")
        # --- self-test: a wrong shift constant must be refuted
        bad = tlc.run(os.path.join(SPEC, "MC_CRC16.tla"), "INIT Init\nNEXT Next\nINVARIANT SelfTestBad\n", wd, workers=4, timeout=300)
        if "SelfTestBad" not in bad.violated:
            raise MachineryError("self-test: wrong CRC variant was not refuted by TLC")
        rep.cov["parts"]["selftest"] = "BadShift (b>>5 instead of b>>4) refuted by TLC"
        # --- C->S 1: all 2^24 real one-byte calls vs TLC's table
        step = 4096
        with mp.Pool(16) as pool:
            outs = pool.map(_chunk, [(lo, lo + step, T) for lo in range(0, 65536, step)])
        n = sum(o[0] for o in outs)
        for o in outs:
            for (s, b, got) in o[1][:3]:
                rep.violation("C15:step", "crc8404B(bytes([%d]), %d) = %d differs from the bit-serial CRC" % (b, s, got),
                              {"start": s, "byte": b, "got": got})
        rep.add_replay("all 2^24 (start, byte) one-byte updates of the real crc8404B vs the table exported by TLC", n,
                       {"exhaustive": True})
        # default start value
        if crc(b"") != 0xFFFF or crc(b"", 0x1234) != 0x1234:
            rep.violation("C15:empty", "CRC of the empty string is not the start value", {})
        # --- C->S 2: recorded calls judged by TLC
        evs = []
        tid = 0

        def ev(data, start, default=False):
            nonlocal tid
            tid += 1
            out = crc(bytes(data)) if default else crc(bytes(data), start)
            evs.append({"tid": tid, "op": "crc", "data": list(data), "start": 0xFFFF if default else start, "out": out})

        starts = [0xFFFF, 0x0000, r.randrange(65536)]
        ev([], 0xFFFF, True)
        for st in starts:
            ev([], st)
            for a in range(256):
                ev([a], st)
        n2 = 65536 if tier == "thorough" else 4096
        pairs = range(65536) if tier == "thorough" else r.sample(range(65536), n2)
        for p in pairs:
            for st in (starts if tier == "thorough" else starts[:1]):
                ev([p >> 8, p & 255], st)
        for _ in range(2000 if tier == "thorough" else 300):
            L = r.choice([3, 4, 15, 16, 17, 26, 100, 255, 600])
            ev([r.randrange(256) for _ in range(L)], r.randrange(65536), default=r.random() < 0.3)
        # long inputs whose LENGTH is a multiple of a buffer-like size (every multiple of 256 up to 16 KiB, of 1024 up to 64 KiB, of
        # 1000 up to 64000, and one more / one less): every byte is processed exactly once whatever the length
        lens = sorted(set(range(256, 16385, 256)) | set(range(1024, 65537, 1024)) | set(range(1000, 64001, 1000)) | {4095, 4097, 12287, 12289, 65535})
        if tier == "quick":
            lens = [x for x in lens if x % 1024 == 0 or x in (12287, 12289, 1000, 5000, 10000, 4095, 4097)]
        for ln in lens:
            tid += 1
            data = bytes((j * 13 + ln) % 256 for j in range(ln))
            st = 0xFFFF if ln % 2048 else r.randrange(65536)
            evs.append({"tid": tid, "op": "crc", "data": list(data), "start": st, "out": crc(data, st), "_cost": 1 + ln // 512})
        # argument forms the unchanged function accepts for the data (bytes, bytearray, memoryview, list / tuple of ints) and for the
        # start value (int, bool-free int subclass): an equal value in another representation gives the same result
        class _I(int):
            pass
        for _ in range(40 if tier == "quick" else 400):
            data = [r.randrange(256) for _ in range(r.choice([0, 1, 5, 26, 300]))]
            st = r.randrange(65536)
            import itertools as _it
            for mk in (bytes, bytearray, lambda d: memoryview(bytes(d)), list, tuple, iter, lambda d: (x for x in d),
                       lambda d: _it.chain(d[:len(d) // 2], d[len(d) // 2:]), lambda d: map(int, d)):
                tid += 1
                try:
                    out = crc(mk(data), _I(st) if tid % 2 else st)
                except Exception as e:                           # noqa: BLE001 -- recorded, rejected by TLC (out of range)
                    out = -1
                evs.append({"tid": tid, "op": "crc", "data": list(data), "start": st, "out": out})
        # several threads computing checksums of long inputs at once (tiny switch interval): every call still returns the CRC of
        # ITS input - the function keeps no state outside the call
        import threading, sys as _sys
        inputs = [([r.randrange(256) for _ in range(r.choice([800, 1500, 3000]))], r.randrange(65536)) for _ in range(8 if tier == "quick" else 24)]
        results = {}

        def work(k):
            for j in range(6):
                d, st = inputs[(k + j) % len(inputs)]
                results[(k, j)] = (d, st, crc(bytes(d), st))
        old_si = _sys.getswitchinterval()
        _sys.setswitchinterval(1e-5)
        try:
            ths = [threading.Thread(target=work, args=(k,)) for k in range(8)]
            [t.start() for t in ths]
            [t.join(120) for t in ths]
        finally:
            _sys.setswitchinterval(old_si)
        for (k, j), (d, st, out) in sorted(results.items()):
            tid += 1
            evs.append({"tid": tid, "op": "crc", "data": list(d), "start": st, "out": out, "threaded": 1})
        # the same byte string checksummed again with other start values right away (and the default in between):
        # the result must depend on the start value of THIS call only
        for _ in range(400 if tier == "quick" else 4000):
            L = r.choice([0, 1, 2, 9, 26])
            data = [r.randrange(256) for _ in range(L)]
            for st in (None, r.randrange(65536), 0, None, 0xFFFF, r.randrange(65536)):
                ev(data, st if st is not None else 0xFFFF, default=st is None)
        for _ in range(100000 if tier == "thorough" else 20000):
            tid += 1
            s, b = r.randrange(65536), r.randrange(256)
            evs.append({"tid": tid, "op": "step", "start": s, "b": b, "out": crc(bytes([b]), s)})
        # vacuity guard of the trace spec: one corrupted event must be rejected
        tid += 1
        evs.append({"tid": tid, "op": "crc", "data": [1, 2, 3], "start": 0xFFFF, "out": crc(b"\x01\x02\x03") ^ 1})
        canary = tid
        rej, st = tlc.validate_trace(os.path.join(SPEC, "Trace_CRC16.tla"), "INIT Init\nNEXT Next\n", evs, wd, shards=16)
        rej_ids = {x[1] for x in rej}
        byid = {e["tid"]: e for e in evs}
        for x in rej:
            if x[1] != canary:
                e = byid[x[1]]
                rep.violation("C15:" + x[2], "crc8404B result %r rejected by the specification (%s)" % (e["out"], x[2]), e)
        if canary not in rej_ids and not rep.violations:
            raise MachineryError("binding self-test: corrupted CRC event was accepted by the trace spec")
        rep.add_trace("Trace_CRC16 (recorded crc8404B calls judged by the bit-serial definition)", st, len(evs) - 1)
        # --- use site: the checksum INSIDE authentication blocks (the container of C08) is this CRC, big-endian, two bytes,
        #     and a frame with any other value in the checksum field (0000 and FFFF included) is refused
        from .. import bf3lib as L3, bec2lib as B2
        from .c08 import rec_wrap, rec_unwrap, TCFG
        from bec2format.crypto import create_AES128
        urec = L3.Rec()
        need = {("hi", 0), ("lo", 0), ("hi", 255), ("lo", 255)}
        tries = 0
        while tries < 300000 and (need or tries < 60):
            tries += 1
            n = r.choice([1, 17, 26])
            p = bytes(r.randrange(256) for _ in range(n))
            c16 = crc(p)
            hit = {("hi", c16 >> 8), ("lo", c16 & 255)} & need
            if hit or tries <= 60:
                need -= hit
                key = bytes(r.randrange(256) for _ in range(16))
                enc, spec = B2.dec_cust(key) if tries % 2 else B2.dec_code(key[:8])
                ct = rec_wrap(urec, enc, spec, p)
                rec_unwrap(urec, enc, spec, ct)
                pad = (-(2 + 1 + n + 2) % 16) + 1
                akey = bytes(spec["key"])
                # (also what OTHER CRC-16 conventions give for this payload: other presets, final XOR, swapped bytes)
                others = {crc(p, s0) for s0 in (0x0000, 0x6363, 0x1D0F, 0xC6C6, 0x8408, 0x1021, 0xFFFE)} | {c16 ^ 0xFFFF, ((c16 & 255) << 8) | (c16 >> 8)}
                for wrong in [0x0000, 0xFFFF, c16 ^ 0x0100] + sorted(others):
                    if wrong != c16:
                        rec_unwrap(urec, enc, spec, create_AES128(akey).encrypt(b"B" + bytes([n + 2]) + bytes(pad) + p + wrong.to_bytes(2, "big")))
        if need:
            raise MachineryError("no payloads found for the CRC byte classes %r" % sorted(need))
        # one encryptor object through refused frames (wrong checksum / length / marker) and valid ones in turn: the
        # checksum of a frame depends on that frame's payload only
        from .. import errpaths as E
        E.container_error_paths(urec, r, rec_wrap, rec_unwrap, B2)
        urej, ust = tlc.validate_trace(os.path.join(SPEC, "Trace_Bec2.tla"), TCFG, urec.events, os.path.join(wd, "use"), shards=16)
        ubyid = {e["tid"]: e for e in urec.events}
        for x in urej:
            e = ubyid[x[1]]
            rep.violation("C15:use-site:%s:%s" % (e["op"], x[2].split(":")[0]), "checksum inside an authentication block: %s" % x[2], e)
        rep.add_trace("Trace_Bec2 c08.wrap/c08.unwrap: the checksum field of real authentication-block frames (CRC byte classes 00/FF) and crafted wrong checksums", ust, len(urec.events))
        rep.sample(evs[5]); rep.sample(evs[-2]); rep.sample(evs[700])
    rep.cov["exhaustive"] = True
    rep.cov["explanation"] = "one-step equivalence exhausted on 2^24 arguments in the spec and on the real function; fold by induction"
    rep.assumptions += ["TLC's Bitwise module (^^) and integer arithmetic", "induction over the byte-string fold"]
    return rep
