"""C11: configuration updates are history-independent.
MC: ObjModel - every operation sequence up to MaxSteps over three configurations (TLC, exhaustive): at most one
    configuration component, last and latest after set_config, firmware untouched and in order, derived comments a function
    of the most recent configuration, other comments untouched, auth blocks derived from empty = requested initial block
    (+ update block iff code and identifier), one block per kind.
S->C: TLC's complete state graph is dumped and EVERY PATH from the initial state is walked on real Bf3File / Bec2File objects
    (depth-first, the real object deep-copied at each branch): after each operation the projected real state must equal the
    spec state of the graph node."""
import os, io, copy, multiprocessing as mp

from ..common import SPEC, Scratch, rng, MachineryError, B
from ..report import Report
from .. import tlc, bf3lib as L
from ..dotgraph import Graph

from bec2format import Bf3File, Bf3Component, Bec2File
from bec2format.bec2file import InitCustKeyAuthBlock, InitEccAuthBlock, UpdateAuthBlock, UnknownAuthBlock

INVS = ["AtMostOneCfg", "AfterSetCfg", "DerivedCommentsDependOnConfigOnly", "OtherCommentsUntouched", "OneBlockPerKind"]
PROPS = ["FirmwareUntouched", "DeriveFromEmpty"]
KEY = bytes(range(16, 32))
CUSTKEY = bytes([0x12, 0x34] * 8)
CODE1, CODE3 = b"\x45" * 8, bytes(range(1, 9))
CONF = {
    1: {(0x1111, 0x22): b"\x33\x33\x33", (0x0202, 0x82): CODE1, (0x0620, 0x01): (10234).to_bytes(4, "big"),
        (0x0620, 0x05): (5678).to_bytes(2, "big"), (0x0620, 0x02): (6789).to_bytes(2, "big"), (0x0620, 0x07): b"\x09",
        (0x0620, 0x06): b"Testname", (0x0620, 0x04): b"\x03", (0x0620, 0x03): b"DevName", (0x0620, 0x20): b"\x01"},
    2: {(0x1111, 0x22): b"\x44", (0x0620, 0x07): b"\x04", (0x0620, 0x06): b"OnlyName"},
    3: {(0x2222, 0x01): bytes(20), (0x0202, 0x82): CODE3, (0x0620, 0x01): (77).to_bytes(2, "big"), (0x0620, 0x04): b"\x07"},
}
CODE4 = b"\x00\x11\x22\x33\x44\x55\x66\x00"
CONF[4] = {(0x3333, 0x03): b"\x07\x07", (0x0202, 0x82): CODE4, (0x0620, 0x01): (4711).to_bytes(2, "big"), (0x0620, 0x05): (12).to_bytes(1, "big"),
           (0x0620, 0x07): b"\x00", (0x0620, 0x06): b"VersionZero"}        # (no device id 0x02: it defaults to 0000)
EXTRA_BLOCK = b"\x01\x77\x66\x01\x02\xAB\xCD"         # a caller-supplied TLV block (set_config's second argument)
UPD = {1: (CODE1, 9), 3: (CODE3, 7), 4: (CODE4, 0)}       # security code and identifier version each configuration states


def cfg(sw, mf, ms):
    return ("SPECIFICATION Spec\nCONSTANTS CFG_NDX_KEYERROR = %s\nMaxFw = %d\nMaxSteps = %d\n" % (sw, mf, ms)
            + "".join("INVARIANT %s\n" % i for i in INVS) + "".join("PROPERTY %s\n" % p for p in PROPS))


class Gamma:
    """Concretisation: what each abstract value looks like on a FRESH object (history independence = equal to this)."""

    def __init__(self):
        self.cfg_blob, self.cm = {}, {}
        for c, conf in CONF.items():
            f = Bf3File()
            f.set_config(conf)
            comp = f.components[0]
            self.cfg_blob[c] = (dict(comp.description), bytes(comp.blob))
            g = Bf3File({})
            g.derive_comments_from_config(conf)
            self.cm[c] = dict(g.comments)
        if len({v[1] for v in self.cfg_blob.values()}) != len(CONF):
            raise MachineryError("configurations are not distinguishable")
        self.cfgx_blob = {}
        for c in (1, 2):
            f = Bf3File()
            f.set_config(dict(CONF[c]), [EXTRA_BLOCK])
            comp = f.components[0]
            self.cfgx_blob[c] = (dict(comp.description), bytes(comp.blob))


def fw_comp(kind, n):
    desc = {0xC1: b"\x00", 0x10: bytes([n])}
    if kind == "fwT":
        desc[0xC3] = b"\x02"
    if kind == "fwW":
        desc[0xC3] = b"\x00\x03"                 # two-byte TYPE value: numerically 3, but NOT the configuration tag (03)
    return Bf3Component(desc, b"FW" + bytes([n]) * (3 + n))


def project(bec, g):
    comps = []
    for comp in bec.bf3file.components:
        d, blob = comp.description, bytes(comp.blob)
        if blob[:2] == b"FW":
            n = blob[2]
            for kind in ("fwT", "fwU", "fwW"):
                ref = fw_comp(kind, n)
                if d == ref.description and blob == ref.blob and comp.actual_len == len(blob) and not comp.encrypt_by_session_key:
                    comps.append({"k": kind, "id": n})
                    break
            else:
                comps.append({"k": "corrupt-firmware", "id": n})
        else:
            hit = [c for c, (dd, bb) in g.cfg_blob.items() if d == dd and blob[:comp.actual_len] == bb and comp.actual_len == len(bb)
                   and comp.encrypt_by_session_key]
            hitx = [c for c, (dd, bb) in g.cfgx_blob.items() if d == dd and blob[:comp.actual_len] == bb and comp.actual_len == len(bb)
                    and comp.encrypt_by_session_key]
            comps.append({"k": "cfg", "id": hit[0]} if hit else {"k": "cfgx", "id": hitx[0]} if hitx else {"k": "unrecognised", "id": 0})
    cm = {}
    for key in ("Configuration", "DeviceSettings", "RequiresBusAddress"):
        v = bec.bf3file.comments.get(key)
        if v is None:
            cm[key] = ()
        else:
            tag = {"Configuration": "prj", "DeviceSettings": "dev", "RequiresBusAddress": "Yes"}[key]
            hit = [c for c in CONF if g.cm[c].get(key) == v]
            cm[key] = ("Yes", 0) if (key == "RequiresBusAddress" and v == "Yes") else ((tag, hit[0]) if hit else ("?", v))
    # the user's comments: one ordinary ("Other: keep") and one with an EMPTY value ("Blank: "), which a write/read-back must keep too
    user = (bec.bf3file.comments.get("Other"), bec.bf3file.comments.get("Blank"))
    cm["Other"] = ("keep", 0) if user == ("keep", "") else ("?", user)
    extra = set(bec.bf3file.comments) - {"Configuration", "DeviceSettings", "RequiresBusAddress", "Other", "Blank"}
    if extra:
        cm["Other"] = ("extra-comments", sorted(extra))
    auth = []
    for b in bec.auth_blocks.values():
        if isinstance(b, InitEccAuthBlock):
            auth.append({"kind": "ecc", "c": 0} if b.key_selector == 0 else {"kind": "ecc-other-selector", "c": 0})
        elif isinstance(b, InitCustKeyAuthBlock):
            auth.append({"kind": "cust", "c": 0})
        elif isinstance(b, UpdateAuthBlock):
            hit = [c for c, (code, ver) in UPD.items() if b.config_security_code == code and b.version == ver]
            auth.append({"kind": "update", "c": hit[0] if hit else -1})
        else:
            auth.append({"kind": "unknown", "c": 0})
    return {"comps": tuple(comps), "cm": cm, "auth": tuple(auth)}


def spec_view(st):
    return {"comps": tuple(dict(c) for c in st["comps"]), "cm": {k: tuple(v) for k, v in st["cm"].items()},
            "auth": tuple(dict(a) for a in st["auth"])}


class ObservationMismatch(Exception):
    pass


def apply_op(bec, label, nfw, gamma=None):
    """label: the instantiated action as TLC prints it on the state-graph edge, e.g. SetCfg(1), DeriveAuth(2,"cust"), AddFw("fwU",TRUE)"""
    f = bec.bf3file
    name, _, rest = label.partition("(")
    args = [a.strip().strip('"') for a in rest.rstrip(")").split(",")] if rest else []
    if name == "SetCfg":
        f.set_config(CONF[int(args[0])])
    elif name == "SetCfgX":
        f.set_config(CONF[int(args[0])], [EXTRA_BLOCK])
    elif name == "DeriveCm":
        f.derive_comments_from_config(CONF[int(args[0])])
    elif name == "DeriveAuth":
        bec.derive_auth_blocks_from_config(CONF[int(args[0])], args[1] == "cust")
    elif name == "AddFw":
        comp = fw_comp(args[0], nfw + 1)
        if args[1] == "TRUE":
            f.components.insert(0, comp)
        else:
            f.components.append(comp)
    elif name == "WriteRead":
        if (len(f.components) + nfw) % 2:
            # through a path that already holds a longer file (an older, bigger version of the package)
            import tempfile
            with tempfile.TemporaryDirectory(prefix="verif_c11_") as td:
                pth = os.path.join(td, "p.bf3")
                with open(pth, "w") as fh:
                    fh.write("Old: file\n\n" + ("DEADBEEF" * 10 + "\n") * 60)
                f.write_file(pth, KEY)
                bec.bf3file = Bf3File.read_file(pth, True, KEY)
        else:
            s = io.StringIO()
            f.write_file(s, KEY)
            bec.bf3file = Bf3File.read_file(io.StringIO(s.getvalue()), True, KEY)
    elif name == "FailedWrite":
        for bad in ([], ()):
            try:
                bec.write_file(io.StringIO(), bad)
            except KeyError:
                continue
            raise ObservationMismatch("BEC2 write with a customer-key block and no customer-key encryptor was not refused")
    elif name == "WriteReadBec2":
        from bec2format import SoftwareCustKeyEncryptor, ConfigSecurityCodeEncryptor
        s = io.StringIO()
        bec.write_file(s, [SoftwareCustKeyEncryptor(crypto_key=CUSTKEY)])
        decs = [SoftwareCustKeyEncryptor(crypto_key=CUSTKEY)]
        decs += [ConfigSecurityCodeEncryptor(b.config_security_code) for b in bec.auth_blocks.values() if isinstance(b, UpdateAuthBlock)]
        back = Bec2File.read_file(io.StringIO(s.getvalue()), decs)
        want = project(bec, gamma)
        want["auth"] = tuple({"kind": "unknown", "c": 0} if a["kind"] == "ecc" else a for a in want["auth"])
        got = project(back, gamma)
        if got != want or back.session_key != bec.session_key:
            raise ObservationMismatch("BEC2 file read back differs from the object written: %r / %r" % (got, want))
    else:
        raise MachineryError("unknown action label %r" % label)


_G = {}
_PRISTINE = {c: dict(v) for c, v in CONF.items()}


def _walk(args):
    """All paths below one first edge (depth-first); returns (steps, mismatches)."""
    first_label, first_dst, limit = args[:3]
    sample_p = args[3] if len(args) > 3 else 1.0     # below the fifth step only this fraction of the successors is followed (seeded)
    import random as _rnd
    rs = _rnd.Random("%s/%s" % (first_label, first_dst))
    graph, g = _G["graph"], _G["gamma"]
    bec0 = Bec2File(Bf3File({"Other": "keep", "Blank": ""}), [], KEY)
    steps, bad = 0, []
    stack = [(graph.init, bec0, [], first_label, first_dst)]
    while stack:
        src, bec, hist, label, dst = stack.pop()
        b2 = copy.deepcopy(bec)
        # every third step: a second file built from the SAME list object and an equal comment dictionary (the clone idiom
        # Bf3File(dict(f.comments), f.components)); editing the one must leave the other as it was
        twin = before = None
        if steps % 3 == 0:
            twin = Bec2File(Bf3File(dict(b2.bf3file.comments), b2.bf3file.components), list(b2.auth_blocks.values()), b2.session_key)
            before = project(twin, g)
        try:
            apply_op(b2, label, graph.nodes[src]["nfw"], g)
            got = project(b2, g)
            if CONF != _PRISTINE:                 # the operations READ the caller's configuration dictionaries
                got = {"exception": {"cls": "ObservationMismatch", "mro": [], "msg": "the caller's configuration dictionary was modified: %r" % (
                    {c: {k: v for k, v in CONF[c].items() if _PRISTINE[c].get(k) != v} for c in CONF if CONF[c] != _PRISTINE[c]},)}}
                for c in CONF:
                    CONF[c].clear()
                    CONF[c].update(_PRISTINE[c])
            if twin is not None and project(twin, g) != before:
                got = {"exception": {"cls": "ObservationMismatch", "mro": [], "msg": "a second file built from the same component list changed: %r -> %r" % (before, project(twin, g))}}
        except Exception as e:               # noqa: BLE001
            got = {"exception": L.exc_info(e)}
        steps += 1
        want = spec_view(graph.nodes[dst])
        h2 = hist + [label]
        if got != want:
            if len(bad) < 5:
                bad.append({"history": h2, "real": got, "spec": want})
            continue                          # the real object no longer corresponds to a spec state below this point
        for (lab, nxt) in graph.out.get(dst, ()):
            if sample_p < 1.0 and len(h2) >= 5 and rs.random() > sample_p:
                continue
            stack.append((dst, b2, h2, lab, nxt))
        if limit and steps >= limit:
            break
    return steps, bad


def run(tier):
    rep = Report("C11", tier)
    depth = 4 if tier == "quick" else 6
    # (29 operations: every path up to 4 steps [quick] / 5 steps [thorough]; of the paths of 6 steps a seeded 5 % sample of the last step)
    sample_p = 1.0 if tier == "quick" else 0.05
    if os.environ.get("VERIF_ENVPASS"):
        depth, sample_p = 4, 1.0            # (the second interpreter mode repeats the quick walk)
    with Scratch("c11") as wd:
        dump = os.path.join(wd, "g.dot")
        res = tlc.require_ok(tlc.run(os.path.join(SPEC, "ObjModel.tla"), cfg("FALSE", 2, depth), os.path.join(wd, "mc"), workers=16,
                                     timeout=1800, dump=dump), "ObjModel")
        rep.add_mc("ObjModel: all operation sequences up to %d steps over 3 configurations, <= 2 firmware components" % depth, res,
                   {"MaxSteps": depth, "MaxFw": 2, "operations": 29})
        if tier == "thorough":
            res7 = tlc.require_ok(tlc.run(os.path.join(SPEC, "ObjModel.tla"), cfg("FALSE", 3, 8), os.path.join(wd, "mc8"), workers=16, timeout=2400), "ObjModel/8")
            rep.add_mc("ObjModel: depth 8, <= 3 firmware components (MC only)", res7, {"MaxSteps": 8, "MaxFw": 3})
        bad = tlc.run(os.path.join(SPEC, "ObjModel.tla"), cfg("TRUE", 2, 4), os.path.join(wd, "st"), workers=8, timeout=600)
        if "AtMostOneCfg" not in bad.violated:
            raise MachineryError("self-test: CFG_NDX_KEYERROR not refuted")
        tr = bad.trace()
        rep.cov["parts"]["selftests"] = ["CFG_NDX_KEYERROR=TRUE: TLC refutes AtMostOneCfg: " + " ; ".join(a.split(" line")[0].strip("<") for a, _ in tr[1:])]
        graph = Graph(dump)
        if len(graph.nodes) != res.distinct:
            raise MachineryError("state graph has %d nodes, TLC reported %d states" % (len(graph.nodes), res.distinct))
        _G["graph"], _G["gamma"] = graph, Gamma()
        # self-test of the walk: a deliberately wrong expected state must be reported
        some = next(iter(graph.out[graph.init]))
        saved = graph.nodes[some[1]]
        graph.nodes[some[1]] = dict(saved, nfw=saved["nfw"], comps=saved["comps"] + ({"k": "cfg", "id": 2},))
        s0, b0 = _walk((some[0], some[1], 1))
        graph.nodes[some[1]] = saved
        if not b0:
            raise MachineryError("walk self-test: wrong expected state not noticed")
        jobs = [(lab, dst, 0, sample_p) for (lab, dst) in graph.out[graph.init]]
        with mp.Pool(min(16, len(jobs))) as pool:          # fork: workers inherit _G
            outs = pool.map(_walk, jobs)
        total = sum(o[0] for o in outs)
        for o in outs:
            for m in o[1]:
                key = "C11:history:" + "/".join(x.split("(")[0] for x in m["history"][-3:])
                if any(c.get("k") == "cfg" for c in m["real"].get("comps", ())) and sum(1 for c in m["real"].get("comps", ()) if c.get("k") == "cfg") > 1:
                    key = "C11:two-configuration-components"
                rep.violation(key, "after %s the real object differs from the specification" % " ; ".join(m["history"]), m)
        rep.add_replay("S->C: every path of TLC's state graph (depth %d) walked on real Bf3File/Bec2File objects, projected state compared after each operation" % depth,
                       total, {"graph_states": len(graph.nodes), "graph_edges": graph.n_edges, "paths_are": "all operation sequences enabled in the spec"})
        rep.sample({"history": ["AppendU", "SetCfg1", "SetCfg2"], "note": "the sequence that exposed the defect fixed by the _get_config_ndx fix"})
        n1 = graph.out[graph.init][0]
        rep.sample({"edge": n1[0], "spec_state_after": {k: str(v) for k, v in graph.nodes[n1[1]].items()}})
    rep.assumptions += ["gamma: the value of a configuration-derived comment / component is what a FRESH object gives (history independence is the claim)",
                        "security code and identifier version of the update block are the values written into the test configurations"]
    return rep
