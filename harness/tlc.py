"""TLC runner: JVM command line tuned for this sandbox (see DESIGN.md §3),
stdout parsing (state counts, violations, error traces, coverage, PrintT values),
sharded trace validation."""
import os, re, json, subprocess, time, concurrent.futures as cf

from . import tlaval
from .common import SPEC, MachineryError

JARS = "/opt/veriftools/tla/tla2tools.jar:/opt/veriftools/tla/CommunityModules-deps.jar"
NOISE = re.compile(r"^(Parsing file|Semantic processing|Linting of|Warning: Please run the Java VM|\(Use the -nowarning)")


class TlcResult:
    def __init__(self, rc, out, wall):
        self.rc, self.out, self.wall = rc, out, wall
        m = re.findall(r"(\d+) states generated, (\d+) distinct states found", out)
        self.generated = int(m[-1][0]) if m else 0
        self.distinct = int(m[-1][1]) if m else 0
        m = re.search(r"The depth of the complete state graph search is (\d+)", out)
        self.depth = int(m.group(1)) if m else 0
        self.errors = [l for l in out.splitlines() if l.startswith("Error:")]
        self.violated = re.findall(r"Invariant (\S+) is violated", out)
        self.violated += re.findall(r"Action property (\S+) is violated", out)
        if "Temporal properties were violated" in out:
            self.violated.append("<temporal>")
        if "Deadlock reached" in out:
            self.violated.append("<deadlock>")
        m = re.findall(r"(?:The|Evaluating) (?:first |second )?(?:argument of Assert|assumption|postcondition).*", out)
        self.completed = ("Model checking completed. No error has been found." in out
                          or "Finished computing initial states" in out and not self.errors)
        self.ok = self.completed and not self.errors and not self.violated

    @property
    def printed(self):
        return list(tlaval.printed_values(self.clean()))

    def clean(self):
        return "\n".join(l for l in self.out.splitlines() if not NOISE.match(l))

    def trace(self):
        """Counterexample as list of (action, {var: value})."""
        states, cur, act = [], None, None
        buf = []

        def flush():
            nonlocal buf
            if cur is not None and buf:
                txt = "\n".join(buf)
                for part in re.split(r"(?m)^/\\ ", txt):
                    part = part.strip()
                    if not part:
                        continue
                    name, _, val = part.partition(" = ")
                    try:
                        cur[name.strip()] = tlaval.parse(val)
                    except Exception:
                        cur[name.strip()] = val
            buf = []

        for l in self.out.splitlines():
            m = re.match(r"State (\d+): (.*)", l)
            if m:
                flush()
                cur = {}
                states.append((m.group(2), cur))
                continue
            if cur is not None:
                if l.strip() == "" or l.startswith(("Error:", "Finished", "The ", "Progress", "Worker")) or re.match(r"\d+ states generated", l):
                    flush()
                    if l.strip() != "":
                        cur = None
                    continue
                buf.append(l)
        flush()
        return states

    def coverage(self):
        cov = {}
        for m in re.finditer(r"<(\w+) line \d+, col \d+ to line \d+, col \d+ of module (\w+)>: (\d+):(\d+)", self.out):
            cov[m.group(1)] = (int(m.group(3)), int(m.group(4)))
        return cov


def java_cmd(xmx="4g", extra_props=()):
    return ["java", "-Xms256m", "-Xmx" + xmx, "-Xss256m", "-XX:+UseSerialGC"] + list(extra_props) + [
        "-DTLA-Library=" + SPEC, "-cp", JARS, "tlc2.TLC"]


def run(module_path, cfg_text, workdir, workers=1, env=None, timeout=600, coverage=False,
        simulate=None, dump=None, depth=None, seed=None, xmx="4g", deadlock=False, parallel_gc=False, extra=()):
    """module_path: absolute path of root .tla; cfg_text written to workdir."""
    name = os.path.splitext(os.path.basename(module_path))[0]
    os.makedirs(workdir, exist_ok=True)
    # results of runs that do not depend on the implementation (model checking, case generation: no env, no dump) are shared
    # between the first pass of a check and its second pass in another interpreter mode (harness/main.py)
    cache = os.environ.get("VERIF_TLC_CACHE")
    ckey = None
    if cache and not env and not dump and not simulate:
        import hashlib, pickle
        h = hashlib.sha256()
        h.update(open(module_path, "rb").read())
        h.update(cfg_text.encode())
        h.update(repr((workers > 1, coverage, depth, seed, deadlock, tuple(extra))).encode())
        for fn in sorted(os.listdir(SPEC)):
            if fn.endswith(".tla"):
                st = os.stat(os.path.join(SPEC, fn))
                h.update(("%s:%d:%d" % (fn, st.st_size, int(st.st_mtime))).encode())
        ckey = os.path.join(cache, h.hexdigest() + ".pkl")
        if os.path.exists(ckey):
            with open(ckey, "rb") as f:
                rc, out, wall = pickle.load(f)
            return TlcResult(rc, out, wall)
    cfg = os.path.join(workdir, name + ".cfg")
    with open(cfg, "w") as f:
        f.write(cfg_text)
    cmd = java_cmd(xmx)
    cmd.insert(1, "-Djava.io.tmpdir=" + os.path.abspath(workdir))      # (TLC leaves an empty tlc-<n> directory per run in the JVM's tmpdir)
    if parallel_gc:
        cmd = [c if c != "-XX:+UseSerialGC" else "-XX:+UseParallelGC" for c in cmd]
    cmd += ["-workers", str(workers), "-metadir", os.path.join(workdir, "meta_" + name), "-noGenerateSpecTE", "-nowarning",
            "-config", cfg]
    if not deadlock:
        cmd += ["-deadlock"]  # -deadlock DISABLES deadlock checking
    if coverage:
        cmd += ["-coverage", "1"]
    if simulate:
        cmd += ["-simulate", simulate]
    if depth:
        cmd += ["-depth", str(depth)]
    if seed is not None:
        cmd += ["-seed", str(seed)]
    if dump:
        cmd += ["-dump", "dot,actionlabels", dump]
    cmd += list(extra)
    cmd += [module_path]
    e = dict(os.environ)
    e.pop("JAVA_TOOL_OPTIONS", None)
    if env:
        e.update({k: str(v) for k, v in env.items()})
    t0 = time.time()
    try:
        p = subprocess.run(cmd, cwd=workdir, env=e, stdout=subprocess.PIPE, stderr=subprocess.STDOUT,
                           timeout=timeout, text=True, errors="replace")
    except subprocess.TimeoutExpired as ex:
        raise MachineryError("TLC timeout after %ss on %s" % (timeout, name))
    if ckey:
        import pickle
        try:
            with open(ckey + ".tmp", "wb") as f:
                pickle.dump((p.returncode, p.stdout, time.time() - t0), f)
            os.replace(ckey + ".tmp", ckey)
        except OSError:
            pass
    return TlcResult(p.returncode, p.stdout, time.time() - t0)


def require_ok(res, what):
    if not res.ok:
        raise MachineryError("TLC failed on %s:\n%s" % (what, res.clean()[-4000:]))
    return res


def write_ndjson(path, events):
    with open(path, "w") as f:
        for ev in events:
            f.write(json.dumps(ev, separators=(",", ":")) + "\n")


def validate_trace(module_path, cfg_text, events, workdir, shards=16, timeout=900, by="tid", env=None, xmx="3g"):
    """Shard `events` (dicts with a unique 'tid'; events that share `by` stay together and in order),
    validate each shard with one single-worker JVM running the trace spec `module_path`.
    The trace spec prints <<"REJ", tid, clause, detail>> for a rejected event and
    <<"DONE", n>> when it consumed n events.  Returns (rejections, stats)."""
    groups = {}
    for ev in events:
        groups.setdefault(ev[by], []).append(ev)
    shards = max(1, min(shards, len(groups)))
    buckets = [[] for _ in range(shards)]
    sizes = [0] * shards
    for g in sorted(groups.values(), key=lambda g: -sum(e.get("_cost", 1) for e in g)):
        i = sizes.index(min(sizes))
        buckets[i].extend(g)
        sizes[i] += sum(e.get("_cost", 1) for e in g)
    name = os.path.splitext(os.path.basename(module_path))[0]

    def one(i):
        wd = os.path.join(workdir, "shard%02d" % i)
        os.makedirs(wd, exist_ok=True)
        tf = os.path.join(wd, "trace.ndjson")
        write_ndjson(tf, [{k: v for k, v in ev.items() if not k.startswith("_")} for ev in buckets[i]])
        e = {"TRACE_FILE": tf}
        if env:
            e.update(env)
        r = run(module_path, cfg_text, wd, workers=1, env=e, timeout=timeout, xmx=xmx)
        return i, r

    rej, generated, distinct, wall = [], 0, 0, 0.0
    with cf.ThreadPoolExecutor(max_workers=shards) as ex:
        for i, r in ex.map(one, range(shards)):
            done = None
            for v in r.printed:
                if isinstance(v, tuple) and v and v[0] == "REJ":
                    rej.append(v)
                elif isinstance(v, tuple) and v and v[0] == "DONE":
                    done = v[1]
            if not r.ok or done != len(buckets[i]):
                c = r.clean()
                k = c.find("Error:")
                raise MachineryError("trace validation shard %d of %s did not finish (done=%r of %d):\n%s\n...\n%s"
                                     % (i, name, done, len(buckets[i]), c[max(0, k - 200):k + 1800] if k >= 0 else "", c[-600:]))
            generated += r.generated
            distinct += r.distinct
            wall = max(wall, r.wall)
    return rej, {"states": distinct, "transitions": generated, "events": len(events), "shards": shards, "tlc_wall_s": round(wall, 2)}
