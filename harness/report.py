"""Check result -> evidence file, replay files, VIOLATION / KNOWN-FINDING lines, exit code."""
import json, os, sys, time, hashlib

from .common import VERIF, seed as _seed


CURRENT = []


PRELUDE = None


class Report:
    def __init__(self, pid, tier, level="model_checking"):
        CURRENT.append(self)
        self.pid, self.tier, self.level = pid, tier, level
        self.cov = {"states": 0, "transitions": 0, "traces_validated_against_impl": 0, "samples": [],
                    "spec_computed_events": 0, "oracle_relation_events": 0, "parts": {}}
        if PRELUDE is not None:
            self.cov["parts"]["prelude_failing_calls"] = {"kind": "history", "refused_calls_before_recording": PRELUDE}
        self.assumptions = []
        self.violations = []   # dicts: key, what, data
        self.t0 = time.time()

    # -- coverage bookkeeping -------------------------------------------------
    def add_mc(self, name, res, constants=None, exhaustive=True):
        self.cov["states"] += res.distinct
        self.cov["transitions"] += res.generated
        self.cov["parts"][name] = {"kind": "MC", "distinct_states": res.distinct, "states_generated": res.generated,
                                  "depth": res.depth, "wall_s": round(res.wall, 2), "exhaustive": exhaustive}
        if constants:
            self.cov["parts"][name]["constants"] = constants
        cov = res.coverage()
        if cov:
            self.cov["parts"][name]["action_coverage"] = {k: list(v) for k, v in cov.items()}

    def add_trace(self, name, stats, n_events, spec_computed=True, extra=None):
        self.cov["states"] += stats.get("states", 0)
        self.cov["transitions"] += stats.get("transitions", 0)
        self.cov["traces_validated_against_impl"] += n_events
        self.cov["spec_computed_events" if spec_computed else "oracle_relation_events"] += n_events
        d = {"kind": "C->S trace validation", "events": n_events}
        d.update(stats)
        if extra:
            d.update(extra)
        self.cov["parts"][name] = d

    def add_replay(self, name, n_cases, extra=None):
        self.cov["traces_validated_against_impl"] += n_cases
        self.cov["spec_computed_events"] += n_cases
        d = {"kind": "S->C replay of TLC-generated cases on the real code", "cases": n_cases}
        if extra:
            d.update(extra)
        self.cov["parts"][name] = d

    def sample(self, x, limit=6):
        if len(self.cov["samples"]) < limit:
            self.cov["samples"].append(x)

    def violation(self, key, what, data=None):
        self.violations.append({"key": key, "what": what, "data": data})

    # -- finish -----------------------------------------------------------------
    def finish(self):
        kf_path = os.path.join(VERIF, "known_findings.json")
        known = json.load(open(kf_path))["findings"] if os.path.exists(kf_path) else []
        frag = os.path.join(VERIF, "known_findings.d", self.pid + ".json")     # per-property fragment (same format)
        if os.path.exists(frag):
            known += json.load(open(frag))["findings"]
        open_keys = {f["key"]: f for f in known if f["property"] == self.pid and f["status"] == "open"}
        new, seen_known = [], {}
        for v in self.violations:
            if v["key"] in open_keys:
                seen_known.setdefault(v["key"], []).append(v)
            else:
                new.append(v)
        for k, vs in seen_known.items():
            print("KNOWN-FINDING: property=%s %s -- %s (%d occurrence(s) this run)" % (self.pid, k, open_keys[k]["what"], len(vs)))
        outbase = os.environ.get("VERIF_OUT", VERIF)      # (mutant evaluation redirects evidence/replays to a scratch directory)
        rdir = os.path.join(outbase, "replays")
        os.makedirs(rdir, exist_ok=True)
        lines, seenk = [], set()
        for v in new:
            if v["key"] in seenk:
                continue
            seenk.add(v["key"])
            h = hashlib.sha1(json.dumps(v, sort_keys=True, default=str).encode()).hexdigest()[:10]
            p = os.path.join(rdir, "%s_%s.json" % (self.pid, h))
            with open(p, "w") as f:
                json.dump({"property": self.pid, "key": v["key"], "what": v["what"], "data": v["data"],
                           "tier": self.tier, "seed": _seed(), "python_flags": os.environ.get("VERIF_ENVPASS", "")}, f, indent=1, default=str)
            lines.append("VIOLATION property=%s replay=%s" % (self.pid, p))
            print("  violation: %s: %s" % (v["key"], v["what"]))
        cov = self.cov
        if not cov["samples"]:
            cov["samples"] = ["(no sample recorded)"]
        cov["known_findings_seen"] = {k: len(vs) for k, vs in seen_known.items()}
        ev = {"property_id": self.pid, "tier": self.tier, "seed": _seed(), "level": self.level, "coverage": cov,
              "assumptions": self.assumptions, "wall_s": round(time.time() - self.t0, 2), "violations": len(new)}
        evpath = os.environ.get("VERIF_EVIDENCE_FILE") or os.path.join(outbase, "evidence", self.pid + ".json")
        os.makedirs(os.path.dirname(evpath), exist_ok=True)
        with open(evpath, "w") as f:
            json.dump(ev, f, indent=1, default=str)
        for l in lines:
            print(l)
        print("%s %s%s: states=%d transitions=%d impl_events=%d violations=%d known=%d wall=%.1fs" % (
            self.pid, self.tier, (" [second pass: python %s]" % os.environ["VERIF_ENVPASS"]) if os.environ.get("VERIF_ENVPASS") else "",
            cov["states"], cov["transitions"], cov["traces_validated_against_impl"],
            len(new), len(seen_known), time.time() - self.t0))
        return 1 if new else 0
