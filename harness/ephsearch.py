"""Input selection for C09: ephemeral private scalars whose ECDH shared x-coordinate with a given recipient has leading
zero bytes (1 in 256 of all ephemeral keys: the class in which an implementation that serialises the shared secret as a
minimal-length integer differs from one that uses the fixed 32-byte field element).  The search uses the library's own
point multiplication ONLY to pick inputs; the expected values of the events still come from OpenSSL + hashlib + AES.tla."""
from .oracle_openssl import P256_N, sec1_from_scalar


def find_leading_zero_ephemerals(recipient_pub_raw, r, want=2, max_tries=4000):
    from register_crypto_plugin.ecdsa import NIST256p
    from register_crypto_plugin.ecdsa.ellipticcurve import PointJacobi
    x = int.from_bytes(recipient_pub_raw[:32], "big")
    y = int.from_bytes(recipient_pub_raw[32:], "big")
    Q = PointJacobi(NIST256p.curve, x, y, 1, NIST256p.order)
    out = []
    for _ in range(max_tries):
        e = r.randrange(1, P256_N)
        sx = (Q * e).x()
        if sx >> 248 == 0:
            out.append(e)
            if len(out) >= want:
                break
    return out


def find_ephemerals_by_public_x(r, first_byte, want=2, max_tries=4000):
    """ephemeral scalars whose PUBLIC point's X coordinate starts with the given byte (e.g. 0x04, the value of the
    uncompressed-point marker, or 0x00): 1 in 256 of all ephemeral keys"""
    from register_crypto_plugin.ecdsa import NIST256p
    G = NIST256p.generator
    out = []
    for _ in range(max_tries):
        e = r.randrange(1, P256_N)
        if (G * e).x() >> 248 == first_byte:
            out.append(e)
            if len(out) >= want:
                break
    return out


# ---- curve points with a SMALL coordinate (pure integer arithmetic on the P-256 equation; nothing from the library)
def _polymulmod(a, b, f, p):
    """(a * b) mod f over F_p; a, b of degree <= 2 (lists low->high), f monic cubic [f0, f1, f2, 1]"""
    prod = [0] * 5
    for i, ai in enumerate(a):
        for j, bj in enumerate(b):
            prod[i + j] = (prod[i + j] + ai * bj) % p
    for d in (4, 3):
        c = prod[d]
        if c:
            for k in range(3):
                prod[d - 3 + k] = (prod[d - 3 + k] - c * f[k]) % p
            prod[d] = 0
    return prod[:3]


def _cubic_roots(f, p):
    """roots in F_p of the monic cubic f (p = 3 mod 4): gcd(x^p - x, f) and the quadratic formula"""
    # x^p mod f
    result, base, e = [1, 0, 0], [0, 1, 0], p
    while e:
        if e & 1:
            result = _polymulmod(result, base, f, p)
        base = _polymulmod(base, base, f, p)
        e >>= 1
    g = [(result[0]) % p, (result[1] - 1) % p, result[2] % p]          # x^p - x  (mod f)
    # Euclid on (f, g)
    def deg(a):
        while a and a[-1] % p == 0:
            a = a[:-1]
        return a
    a, b = deg(list(f)), deg(g)
    while b:
        inv = pow(b[-1], -1, p)
        while len(a) >= len(b) and a:
            c = a[-1] * inv % p
            s = len(a) - len(b)
            for k in range(len(b)):
                a[s + k] = (a[s + k] - c * b[k]) % p
            a = deg(a)
        a, b = b, a
    a = deg(a)
    if not a or len(a) == 1:
        return []
    inv = pow(a[-1], -1, p)
    a = [c * inv % p for c in a]
    if len(a) == 2:
        return [(-a[0]) % p]
    if len(a) == 3:
        disc = (a[1] * a[1] - 4 * a[0]) % p
        s = pow(disc, (p + 1) // 4, p)
        if s * s % p != disc:
            return []
        i2 = pow(2, -1, p)
        return [(-a[1] + s) * i2 % p, (-a[1] - s) * i2 % p]
    return []                                                     # three roots: take none (rare), the caller tries another value


def p256_points_with_small_y(r, want=2, bound_bits=200, max_tries=200):
    """points (x, y) on P-256 with y < 2^bound_bits: then y + p still fits in 32 bytes - a NON-canonical encoding of Y"""
    from .oracle_openssl import P256_P as p, P256_B as b
    out = []
    for _ in range(max_tries):
        y = r.randrange(1, 1 << bound_bits)
        f = [(b - y * y) % p, (-3) % p, 0, 1]                      # x^3 - 3x + b - y^2
        for x in _cubic_roots(f, p):
            if (x * x * x - 3 * x + b - y * y) % p == 0:
                out.append((x, y))
                break
        if len(out) >= want:
            break
    return out


def p256_points_with_small_x(r, want=2, bound_bits=200, max_tries=400):
    from .oracle_openssl import P256_P as p, P256_B as b
    out = []
    for _ in range(max_tries):
        x = r.randrange(1, 1 << bound_bits)
        rhs = (x * x * x - 3 * x + b) % p
        y = pow(rhs, (p + 1) // 4, p)
        if y * y % p == rhs:
            out.append((x, y))
            if len(out) >= want:
                break
    return out


# ---- plain affine P-256 arithmetic (only to CRAFT inputs: an ephemeral point whose shared secret with a given recipient is special)
def _p256_add(P, Q):
    from .oracle_openssl import P256_P as p
    if P is None:
        return Q
    if Q is None:
        return P
    (x1, y1), (x2, y2) = P, Q
    if x1 == x2 and (y1 + y2) % p == 0:
        return None
    if P == Q:
        lam = (3 * x1 * x1 - 3) * pow(2 * y1, -1, p) % p
    else:
        lam = (y2 - y1) * pow(x2 - x1, -1, p) % p
    x3 = (lam * lam - x1 - x2) % p
    return x3, (lam * (x1 - x3) - y1) % p


def _p256_mul(k, P):
    R = None
    while k:
        if k & 1:
            R = _p256_add(R, P)
        P = _p256_add(P, P)
        k >>= 1
    return R


def ephemeral_for_shared_x(d, want_x):
    """an ephemeral PUBLIC point R with d * R = (want_x, y) for the recipient's private scalar d, or None if want_x is not an
    x-coordinate of the curve: R = d^-1 * (want_x, y)"""
    from .oracle_openssl import P256_P as p, P256_B as b, P256_N as n
    rhs = (want_x ** 3 - 3 * want_x + b) % p
    y = pow(rhs, (p + 1) // 4, p)
    if y * y % p != rhs:
        return None
    R = _p256_mul(pow(d, -1, n), (want_x % p, y))
    return R[0].to_bytes(32, "big") + R[1].to_bytes(32, "big")


def scalar_of_sec1(priv_der):
    """private scalar of an OpenSSL SEC1 ECPrivateKey DER (30 .. 02 01 01 04 20 <32 bytes> ..)"""
    i = priv_der.find(b"\x02\x01\x01\x04\x20")
    if i < 0:
        raise ValueError("not a P-256 SEC1 private key")
    return int.from_bytes(priv_der[i + 5:i + 37], "big")
