"""Input selection for C09: ephemeral private scalars whose ECDH shared x-coordinate with a given recipient has leading
zero bytes (1 in 256 of all ephemeral keys: the class in which an implementation that serialises the shared secret as a
minimal-length integer differs from one that uses the fixed 32-byte field element).  The search uses the library's own
point multiplication ONLY to pick inputs; the expected values of the events still come from OpenSSL + hashlib + AES.tla."""
from .oracle_openssl import P256_N, sec1_from_scalar


def find_leading_zero_ephemerals(recipient_pub_raw, r, want=2, max_tries=4000):
    from register_crypto_plugin.ecdsa import NIST256p
    from register_crypto_plugin.ecdsa.ellipticcurve import PointJacobi
    x = int.from_bytes(recipient_pub_raw[:32], "big")
    y = int.from_bytes(recipient_pub_raw[32:], "big")
    Q = PointJacobi(NIST256p.curve, x, y, 1, NIST256p.order)
    out = []
    for _ in range(max_tries):
        e = r.randrange(1, P256_N)
        sx = (Q * e).x()
        if sx >> 248 == 0:
            out.append(e)
            if len(out) >= want:
                break
    return out


def find_ephemerals_by_public_x(r, first_byte, want=2, max_tries=4000):
    """ephemeral scalars whose PUBLIC point's X coordinate starts with the given byte (e.g. 0x04, the value of the
    uncompressed-point marker, or 0x00): 1 in 256 of all ephemeral keys"""
    from register_crypto_plugin.ecdsa import NIST256p
    G = NIST256p.generator
    out = []
    for _ in range(max_tries):
        e = r.randrange(1, P256_N)
        if (G * e).x() >> 248 == first_byte:
            out.append(e)
            if len(out) >= want:
                break
    return out
