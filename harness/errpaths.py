"""Error-path histories: a call that legitimately fails (or is refused), followed by correct calls on the same object or in
the same process.  Whatever the failed call left behind must not change the later results; the later calls are recorded as
ordinary events and judged by the specification like any other."""
import io

from .common import B
from . import bf3lib as L


def bf3_failed_then_good(rec, r, wd, n=6, enc=False):
    """Writes refused for an over-long directory entry in component 0 / 1 / 2 (OverflowError), then: the same object repaired
    and written, and an unrelated fresh file written - all read back."""
    for j in range(n):
        comps = [L.gen_plain_comp(r) for _ in range(3)]
        if enc:
            # session-key encrypted components before and after the failing entry: the repaired write must still encrypt them
            for at in (0, 2):
                blob = bytes(r.randrange(1, 256) for _ in range(r.choice([9, 16, 23])))
                comps[at] = L.mk_comp({0xC3: b"\x03", 0xC2: b"\x02"}, blob, len(blob), True)
        bad_at = j % 3
        f = L.Bf3File({"h": "x"}, comps)
        kind = j % 2
        saved = dict(f.components[bad_at].description)
        if kind == 0:
            f.components[bad_at].description[0x77] = bytes(300)             # tag value longer than 255 bytes
        else:
            f.components[bad_at].description = {t: b"" for t in range(120)}   # entry longer than 255 bytes
        key = L.gen_key(r)
        for attempt in (lambda: f.to_binary(5, key), lambda: f.write_file(io.StringIO(), key)):
            try:
                attempt()
                refused = False
            except (OverflowError, ValueError):
                refused = True
            if not refused:
                # the writer accepted an entry that cannot be framed: recorded so that the spec can judge the bytes
                L.rec_to_binary(rec, f, 5, key)
        f.components[bad_at].description = saved                              # repair and retry on the SAME object
        L.rec_to_binary(rec, f, 5, key)
        text = L.rec_write(rec, f, key, False, wd)
        L.rec_read(rec, text, key, True, False, wd, auth=rec.last_written)
        g = L.gen_bf3(r, 2)                                                   # an unrelated object afterwards
        k2 = L.gen_key(r)
        try:
            L.rec_to_binary(rec, g, 5, k2)
            t2 = L.rec_write(rec, g, k2, False, wd)
            L.rec_read(rec, t2, k2, True, False, wd, auth=rec.last_written)
        except OverflowError:
            pass


def container_error_paths(rec, r, rec_wrap, rec_unwrap, B2):
    """One encryptor object: refused / failing calls interleaved with valid ones (cust-key and security-code flavours)."""
    def rand(n):
        return bytes(r.randrange(256) for _ in range(n))
    for flavour in range(4):
        key = L.gen_key(r)
        if flavour % 2 == 0:
            enc, spec = B2.dec_cust(key, rand(10), 2) if flavour == 0 else B2.dec_cust(key)
        else:
            enc, spec = B2.dec_code(rand(8))
        good = rec_wrap(rec, enc, spec, rand(26))
        rec_unwrap(rec, enc, spec, good)
        # the SAME key used elsewhere in the library with another IV while this encryptor object is alive (the directory MACs of
        # a file whose session key equals the wrapping key do exactly that): the container stays a zero-IV CBC
        from bec2format.bf3file import cmac as _cmac
        from bec2format.crypto import create_AES128 as _mk
        wk = bytes(spec["key"])
        for iv in (rand(16), (1).to_bytes(16, "big"), bytes([255] * 16)):
            try:
                _cmac(rand(40), wk, iv)
                _mk(wk, iv).encrypt(rand(16))
            except Exception:                                   # noqa: BLE001 -- only the later container events are judged
                pass
            rec_unwrap(rec, enc, spec, good)
            rec_unwrap(rec, enc, spec, rec_wrap(rec, enc, spec, rand(26)))
        big = rec_wrap(rec, enc, spec, rand(60))
        failing = [big[:40], big[:33], big + b"\x00", good[:-1], bytes(16), bytes(48),
                   bytes([good[0] ^ 1]) + good[1:], good[:-1] + bytes([good[-1] ^ 1])]
        for bad in failing:
            rec_unwrap(rec, enc, spec, bad)                     # refused (length / marker / CRC) ...
            rec_unwrap(rec, enc, spec, good)                    # ... and the next valid unwrap must still succeed
            p = rand(r.choice([0, 17, 26]) if flavour else r.choice([12, 17, 26]))     # (customer-key slot: payload must contain it)
            rec_unwrap(rec, enc, spec, rec_wrap(rec, enc, spec, p))
        for too_long in (254, 255, 300):
            try:
                enc.encrypt(rand(too_long))                     # payload does not fit the length byte: refused
            except Exception:                                   # noqa: BLE001
                pass
            p = rand(17)
            rec_unwrap(rec, enc, spec, rec_wrap(rec, enc, spec, p))


def bf3_large(rec, r, wd, sizes=(300, 4128), enc=True, read=True):
    """Payloads longer than 256 and 4096 bytes (session-key encrypted and clear): byte-exact layout and read-back."""
    for n in sizes:
        for e in ((True, False) if enc else (False,)):
            blob = bytes(r.randrange(1, 256) for _ in range(n))
            f = L.Bf3File({}, [L.mk_comp({0xC3: b"\x03", 0xC2: b"\x02"} if e else {0x10: b"\x01"}, blob, len(blob), e)])
            key = L.gen_key(r)
            L.rec_to_binary(rec, f, 5, key, _cost=max(1, n // 16))
            if read:
                text = L.rec_write(rec, f, key, False, wd)
                rec.events[-1]["_cost"] = max(1, n // 16)
                L.rec_read(rec, text, key, True, False, wd, auth=rec.last_written, _cost=max(1, n // 8))


def failing_calls(r=None):
    """Process-wide prelude: public entry points called with inputs they legitimately refuse (every exception swallowed).
    The checks run it BEFORE recording their events, so that whatever a failed call leaves behind in module- or
    class-level state (switches, caches, scratch buffers) is in place while the recorded calls are judged."""
    import bec2format
    from bec2format import Bf3File, Bec2File
    from bec2format import crypto as _crypto
    done = 0

    def attempt(fn):
        nonlocal done
        try:
            fn()
        except BaseException as e:                                   # noqa: BLE001
            if isinstance(e, (KeyboardInterrupt, SystemExit)):
                raise
            done += 1

    key = bytes(range(0x30, 0x40))
    good = Bf3File({"a": "b"}, [L.mk_comp({0x10: b"\x01"}, bytes(range(1, 40)))])
    s = io.StringIO()
    good.write_file(s, key)
    text = s.getvalue()
    lines = text.split("\n")
    for bad in ("", "BF3\n", "GARBAGE\n\nAA\n", text[:len(text) // 2], text[:-20], "\n".join(lines[:-3]), text.replace("A", "G", 1),
                text.replace("BF3", "BFX", 1)):
        attempt(lambda: Bf3File.read_file(io.StringIO(bad), True, key))
        attempt(lambda: Bf3File.read_file(io.StringIO(bad), False, key))
        attempt(lambda: Bec2File.read_file(io.StringIO(bad), [], True))
    attempt(lambda: Bf3File.read_file(io.StringIO(text), True, bytes(16)))           # wrong key
    attempt(lambda: Bf3File.read_file("/nonexistent/dir/x.bf3", True, key))
    attempt(lambda: good.write_file("/nonexistent/dir/x.bf3", key))
    attempt(lambda: Bf3File({}, [L.mk_comp({1: bytes(300)}, b"\x01")]).to_binary(0, key))
    attempt(lambda: Bf3File({}, [L.mk_comp({}, b"\x01"), L.mk_comp({1: bytes(300)}, b"\x01", 1, True)]).write_file(io.StringIO(), key))
    attempt(lambda: Bf3File({}, [])._get_config_ndx())
    attempt(lambda: Bf3File({}, []).set_config({(1, 2): bytes(70000)}))
    attempt(lambda: Bec2File(good, [], key).write_file(io.StringIO(), None))
    attempt(lambda: Bec2File.read_file(io.StringIO("BEC2\n\n00\n"), [], True))
    attempt(lambda: Bec2File.create_from_config({(0x0202, 0x82): b"x"}, None, None))
    for arg in (b"", bytes(15), bytes(17)):
        attempt(lambda: bec2format.AES128(key).decrypt(arg))
        attempt(lambda: bec2format.AES128(key).encrypt(arg) if not arg else (_ for _ in ()).throw(ValueError()))
    attempt(lambda: bec2format.AES128(bytes(5)).encrypt(bytes(16)))
    try:
        from bec2format.configid import ConfigId
        for t in ("", "x", "1-2-3", "12345-1234-1234-12-extra-" + "9" * 70, "-----", "00000-0000-0000-00 ", " \t"):
            attempt(lambda: ConfigId.create_from_str(t))
    except ImportError:
        pass
    # (last, and ending with refused ones: a later successful call of the same entry point could restore what a failed one broke)
    for bf2 in ("", ":0000FE00\n:00000104DEADBEEF\n:0000FF00\n", "#>BOOTLOADER\n:00000104DEADBEEF\n:0000FF00\n", ":zz\n", ":000010\n",
                "#>REBOOT a\n", "##x\n", "##a:b:c\n", ":00001010AA\n", ":0000100100\n:0000FF00\n"):
        for enforce in (False, True):
            attempt(lambda: Bf3File.bf2_import(io.StringIO(bf2), enforce))
    return done


def bec2_error_paths(rec, seams, orc, r, rcpts, C, n=6):
    """BEC2 error-path histories, judged by Trace_Bec2 like every other bec2.write / bec2.read event:
    (a) a write that is legitimately refused (customer-key block but no customer-key encryptor: KeyError) after other
        blocks were already packed, then the correct write of the SAME object, read back;
    (b) the written file read WITHOUT any decryptor / with decryptors of another file, MAC checking on and off:
        the specification refuses it (no block yields the session key);
    (c) three-block headers [A, undecryptable, B] whose outer blocks carry DIFFERENT session keys."""
    from . import bec2lib as B2, bec2gen as G
    from bec2format import Bec2File, Bf3File
    from bec2format.bec2file import BEC2_FILE_SIG, InitEccAuthBlock
    orders = [["update", "cust"], ["ecc", "cust"], ["update", "ecc", "cust"], ["cust"], ["ecc", "update", "cust"], ["cust", "update"]]
    for j in range(n):
        plan = G.Plan(r, rcpts, orders[j % len(orders)], explicit_key=(j % 2 == 0))
        f = Bec2File(G.gen_content(r), plan.blocks, plan.key)
        for bad_encs in ([], (), [e for e in plan.encs_w if type(e).__name__.startswith("Ecc")]):
            for call in (lambda: f.write_file(io.StringIO(), bad_encs), lambda: f.to_binary(bad_encs)):
                try:
                    call()
                except Exception:                               # noqa: BLE001 -- refused, as expected
                    pass
        seams.take()
        text, ev = G.rec_bec2_write(rec, seams, orc, f, plan.meta, plan.encs_w, C.enc_specs(plan))
        auth = B2.proj_bec2(f)
        B2.rec_bec2_read(rec, text, list(plan.decs.values()), plan.ecc_privs, orc, True, auth=auth)
        other = G.Plan(r, rcpts, ["cust", "update"], explicit_key=True)
        for check in (True, False):
            B2.rec_bec2_read(rec, text, [], plan.ecc_privs, orc, check, label="no-decryptor")
            B2.rec_bec2_read(rec, text, list(other.decs.values()), plan.ecc_privs, orc, check, label="foreign-decryptors")
    for j in range(n):
        ka, kb = r.sample(["cust", "update", "ecc"], 2)
        pa = G.Plan(r, rcpts, [ka], explicit_key=True)
        pb = G.Plan(r, rcpts, [kb], explicit_key=True)
        fa = Bec2File(G.gen_content(r), pa.blocks, pa.key)
        fb = Bec2File(fa.bf3file, pb.blocks, pb.key)
        sa, sb = io.StringIO(), io.StringIO()
        fa.write_file(sa, pa.encs_w)
        fb.write_file(sb, pb.encs_w)
        ba = B2.split_header(B2.to_binary_of_text(sa.getvalue()))[0]
        bb = B2.split_header(B2.to_binary_of_text(sb.getvalue()))[0]
        if j % 2 == 0:
            mid = (r.choice([4, 9, 0x7F]), bytes(r.randrange(256) for _ in range(r.choice([0, 5, 30]))))     # unknown tag
        else:
            sel_free = [s for s in range(4) if s not in pa.ecc_privs and s not in pb.ecc_privs][0]
            mid = (3, InitEccAuthBlock(sel_free).pack(G.key_with_class(r, "generic"), []))                  # ECC block nobody here can open
        seams.take()
        hdr = BEC2_FILE_SIG + b"".join(bytes([t, len(v)]) + v for t, v in (ba, mid, bb)) + b"\x00\x00"
        privs = dict(pa.ecc_privs)
        privs.update(pb.ecc_privs)
        for body_key in (fa.session_key, fb.session_key):
            s = io.StringIO()
            Bf3File.write_bf3_format(s, {}, hdr + fa.bf3file.to_binary(len(hdr), body_key))
            for check in (True, False):
                B2.rec_bec2_read(rec, s.getvalue(), list(pa.decs.values()) + list(pb.decs.values()), privs, orc, check, splice=1,
                                 label="three-blocks-outer-keys-differ")


def run_threads(works, switch=1e-5, timeout=300):
    """runs the given closures in as many threads at once, with a tiny interpreter switch interval; exceptions are returned"""
    import threading, sys as _sys
    errs = [None] * len(works)

    def wrap(i):
        try:
            works[i]()
        except BaseException as e:                             # noqa: BLE001
            errs[i] = e
    old = _sys.getswitchinterval()
    _sys.setswitchinterval(switch)
    try:
        ths = [threading.Thread(target=wrap, args=(i,), daemon=True) for i in range(len(works))]
        [t.start() for t in ths]
        [t.join(timeout) for t in ths]
    finally:
        _sys.setswitchinterval(old)
    return errs, [t.is_alive() for t in ths]


def threaded_reads(rec, r, wd, nthreads=4, size=20000):
    """Several threads read valid files under the SAME session key at the same time (one of them large, so that the reads overlap):
    every read returns the file's content - the library keeps nothing per key or per process that concurrent calls could share"""
    key = L.gen_key(r)
    files = [L.Bf3File({"n": str(j)}, [L.mk_comp({0x10: bytes([j])}, bytes((j + k * 7) % 256 for k in range(size if j == 0 else 300 + j))),
                                      L.mk_comp({0xC3: b"\x03", 0xC2: b"\x02"}, bytes((3 * j + k) % 255 + 1 for k in range(100 + j)), 100 + j, True)])
             for j in range(nthreads)]
    texts, auths = [], []
    for f in files:
        s = io.StringIO()
        f.write_file(s, key)
        texts.append(s.getvalue())
        auths.append(L.proj_file(f))
    recs = [L.Rec() for _ in range(nthreads)]

    def mk(i):
        def work():
            for rep_ in range(3):
                j = (i + rep_) % nthreads
                L.rec_read(recs[i], texts[j], key, True, False, wd, auth=auths[j], threaded=1)
        return work
    run_threads([mk(i) for i in range(nthreads)])
    n = 0
    for rr in recs:
        for ev in rr.events:
            ev.pop("tid", None)
            ev["_cost"] = 1 + len(ev["text"]) // 2000
            rec.add(ev)
            n += 1
    return n


def bf3_huge(rec, r, wd, tier):
    """Thorough tier: containers whose TOTAL length is a multiple of a large power-of-two-ish block (163840 = 4096 lines of 40 bytes,
    262144, 327680) or just below / above it, plain and session-key encrypted (> 256 KiB of ciphertext): written, judged byte by byte,
    read back.  (64 KiB-class sizes are in the quick tier.)"""
    if tier != "thorough":
        return 0
    n = 0
    for total in (163839, 163840, 163841, 262144 + 80, 327680):
        for enc in ((False, True) if total in (163840, 262144 + 80) else (False,)):
            key = L.gen_key(r)
            probe = L.Bf3File({}, [L.mk_comp({0xC3: b"\x03", 0xC2: b"\x02"} if enc else {0x10: b"\x01"}, bytes(16), 16, enc)])
            over = len(L.BF3_FILE_SIG + probe.to_binary(5, key)) - 16
            size = total - over
            if enc:
                size -= size % 16
            blob = bytes((j * 37 + j // 253) % 256 for j in range(size))
            f = L.Bf3File({}, [L.mk_comp({0xC3: b"\x03", 0xC2: b"\x02"} if enc else {0x10: b"\x01"}, blob, size, enc)])
            L.rec_to_binary(rec, f, 5, key, _cost=size // 64)
            text = L.rec_write(rec, f, key, False, wd)
            rec.events[-1]["_cost"] = size // 64
            L.rec_read(rec, text, key, True, False, wd, auth=rec.last_written, _cost=size // 64)
            n += 3
    return n
