"""Error-path histories: a call that legitimately fails (or is refused), followed by correct calls on the same object or in
the same process.  Whatever the failed call left behind must not change the later results; the later calls are recorded as
ordinary events and judged by the specification like any other."""
import io

from .common import B
from . import bf3lib as L


def bf3_failed_then_good(rec, r, wd, n=6, enc=False):
    """Writes refused for an over-long directory entry in component 0 / 1 / 2 (OverflowError), then: the same object repaired
    and written, and an unrelated fresh file written - all read back."""
    for j in range(n):
        comps = [L.gen_plain_comp(r) for _ in range(3)]
        if enc:
            # session-key encrypted components before and after the failing entry: the repaired write must still encrypt them
            for at in (0, 2):
                blob = bytes(r.randrange(1, 256) for _ in range(r.choice([9, 16, 23])))
                comps[at] = L.mk_comp({0xC3: b"\x03", 0xC2: b"\x02"}, blob, len(blob), True)
        bad_at = j % 3
        f = L.Bf3File({"h": "x"}, comps)
        kind = j % 2
        saved = dict(f.components[bad_at].description)
        if kind == 0:
            f.components[bad_at].description[0x77] = bytes(300)             # tag value longer than 255 bytes
        else:
            f.components[bad_at].description = {t: b"" for t in range(120)}   # entry longer than 255 bytes
        key = L.gen_key(r)
        for attempt in (lambda: f.to_binary(5, key), lambda: f.write_file(io.StringIO(), key)):
            try:
                attempt()
                refused = False
            except (OverflowError, ValueError):
                refused = True
            if not refused:
                # the writer accepted an entry that cannot be framed: recorded so that the spec can judge the bytes
                L.rec_to_binary(rec, f, 5, key)
        f.components[bad_at].description = saved                              # repair and retry on the SAME object
        L.rec_to_binary(rec, f, 5, key)
        text = L.rec_write(rec, f, key, False, wd)
        L.rec_read(rec, text, key, True, False, wd, auth=rec.last_written)
        g = L.gen_bf3(r, 2)                                                   # an unrelated object afterwards
        k2 = L.gen_key(r)
        try:
            L.rec_to_binary(rec, g, 5, k2)
            t2 = L.rec_write(rec, g, k2, False, wd)
            L.rec_read(rec, t2, k2, True, False, wd, auth=rec.last_written)
        except OverflowError:
            pass


def container_error_paths(rec, r, rec_wrap, rec_unwrap, B2):
    """One encryptor object: refused / failing calls interleaved with valid ones (cust-key and security-code flavours)."""
    def rand(n):
        return bytes(r.randrange(256) for _ in range(n))
    for flavour in range(4):
        key = L.gen_key(r)
        if flavour % 2 == 0:
            enc, spec = B2.dec_cust(key, rand(10), 2) if flavour == 0 else B2.dec_cust(key)
        else:
            enc, spec = B2.dec_code(rand(8))
        good = rec_wrap(rec, enc, spec, rand(26))
        rec_unwrap(rec, enc, spec, good)
        big = rec_wrap(rec, enc, spec, rand(60))
        failing = [big[:40], big[:33], big + b"\x00", good[:-1], bytes(16), bytes(48),
                   bytes([good[0] ^ 1]) + good[1:], good[:-1] + bytes([good[-1] ^ 1])]
        for bad in failing:
            rec_unwrap(rec, enc, spec, bad)                     # refused (length / marker / CRC) ...
            rec_unwrap(rec, enc, spec, good)                    # ... and the next valid unwrap must still succeed
            p = rand(r.choice([0, 17, 26]))
            rec_unwrap(rec, enc, spec, rec_wrap(rec, enc, spec, p))
        for too_long in (254, 255, 300):
            try:
                enc.encrypt(rand(too_long))                     # payload does not fit the length byte: refused
            except Exception:                                   # noqa: BLE001
                pass
            p = rand(17)
            rec_unwrap(rec, enc, spec, rec_wrap(rec, enc, spec, p))


def bf3_large(rec, r, wd, sizes=(300, 4128), enc=True, read=True):
    """Payloads longer than 256 and 4096 bytes (session-key encrypted and clear): byte-exact layout and read-back."""
    for n in sizes:
        for e in ((True, False) if enc else (False,)):
            blob = bytes(r.randrange(1, 256) for _ in range(n))
            f = L.Bf3File({}, [L.mk_comp({0xC3: b"\x03", 0xC2: b"\x02"} if e else {0x10: b"\x01"}, blob, len(blob), e)])
            key = L.gen_key(r)
            L.rec_to_binary(rec, f, 5, key, _cost=max(1, n // 16))
            if read:
                text = L.rec_write(rec, f, key, False, wd)
                rec.events[-1]["_cost"] = max(1, n // 16)
                L.rec_read(rec, text, key, True, False, wd, auth=rec.last_written, _cost=max(1, n // 8))
