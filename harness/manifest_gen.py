"""Regenerates MANIFEST.json from the table below (kept valid at all times)."""
import json, os
from .common import VERIF

CHECKS = {}   # pid -> dict(text=, note=, technique=, design_ref=)
PENDING_REASON = "check not built yet in this round (build order in DESIGN.md section 8); will be claimed when its TLA+ spec and conformance harness exist"


def claim(pid, text, note, technique, design_ref):
    CHECKS[pid] = dict(text=text, note=note, technique=technique, design_ref=design_ref)


claim("C15",
      "TLC exhausts all 2^24 (state, byte) arguments of the CRC update step: bit-serial definition = table form = the library's three-shift form, result < 2^16 (fold over strings by induction); the real crc8404B is run on all 2^24 one-byte updates against the table TLC exported and on recorded calls (all strings of length <= 2, long strings, default start) that TLC judges against the bit-serial definition.",
      "Trusted: TLC's Bitwise/integer arithmetic; induction over the fold; CPython executing /repo's crc8404B.",
      "TLA+ spec CRC16 + TLC exhaustive check; trace validation of recorded crc8404B calls by TLC", "DESIGN.md section 4 C15")


claim("C01",
      "TLC exhausts Read(Write(f)) = f on a bounded abstract instance of the container (1-cell fields, 2-cell blocks, symbolic MAC/cipher tokens; all contents up to the stated bounds, two keys, MAC check on/off); every content TLC enumerated is concretised and round-tripped through the real writer/reader; recorded write/read events of the real code over random and edge-case files (stream and path I/O, MAC on/off) are validated by TLC against the concrete instance of the same specification (real field widths, AES.tla): text = envelope(signature ++ Serialize), read-back = ReadText;Parse.",
      "Trusted: TLC; AES.tla (FIPS-197 vectors, OpenSSL cross-check in C03/C16); the abstraction of MACs as unforgeable tokens; UTF-8 locale.",
      "TLA+ spec Bf3Layout/Text (+AES) : TLC exhaustive on abstract instance, S->C replay of TLC-enumerated contents, C->S trace validation on the concrete instance", "DESIGN.md section 4 C01")


def main():
    props = [json.loads(l) for l in open(os.path.join(VERIF, "properties.jsonl"))]
    m = {"version": 1,
         "setup_cmd": "bin/setup",
         "hooks": {"guard": "BEC2FORMAT_VERIF", "enable": "no source hooks: checks import /repo's working tree directly and instrument through the library's public registration seams (DESIGN.md 2.2); BEC2FORMAT_VERIF=1 is exported by bin/check but nothing in /repo reads it",
                   "baseline_off_cmd": "cd /repo && /venv/bin/python -m pytest -ra -q -p no:cacheprovider --timeout=900 --continue-on-collection-errors",
                   "source_commits": [], "add_only": True},
         "engines": [{"name": "tlc", "path": "/opt/veriftools/tla/tla2tools.jar", "serves_properties": sorted(CHECKS),
                      "kind_free_text": "TLA+ specifications under /verif/spec checked by TLC (bounded exhaustive model checking, trace validation of events recorded from the real code, generation of cases replayed on the real code)"}],
         "checks": [], "not_applicable": [],
         "notes": "All checks: bin/check <id> --tier quick|thorough. Exit 0 held, 1 VIOLATION, 2 machinery failure. Known findings: known_findings.json."}
    for p in props:
        pid = p["id"]
        if pid in CHECKS:
            c = CHECKS[pid]
            m["checks"].append({"property_id": pid, "quick_cmd": "bin/check %s --tier quick" % pid,
                                "thorough_cmd": "bin/check %s --tier thorough" % pid,
                                "evidence_file": "/verif/evidence/%s.json" % pid,
                                "replay_cmd_template": "bin/check %s --replay {path}" % pid, "engine": "tlc",
                                "level_claimed": {"category": "model_checking", "text": c["text"], "design_ref": c["design_ref"]},
                                "level_note": c["note"], "technique": c["technique"]})
        else:
            m["not_applicable"].append({"property_id": pid, "reason": PENDING_REASON})
    with open(os.path.join(VERIF, "MANIFEST.json"), "w") as f:
        json.dump(m, f, indent=1)


if __name__ == "__main__":
    main()
