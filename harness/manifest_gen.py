"""Regenerates MANIFEST.json from the table below (kept valid at all times)."""
import json, os
from .common import VERIF

CHECKS = {}   # pid -> dict(text=, note=, technique=, design_ref=)
PENDING_REASON = "check not built yet in this round (build order in DESIGN.md section 8); will be claimed when its TLA+ spec and conformance harness exist"


def claim(pid, text, note, technique, design_ref):
    CHECKS[pid] = dict(text=text, note=note, technique=technique, design_ref=design_ref)


claim("C15",
      "TLC exhausts all 2^24 (state, byte) arguments of the CRC update step: bit-serial definition = table form = the library's three-shift form, result < 2^16 (fold over strings by induction); the real crc8404B is run on all 2^24 one-byte updates against the table TLC exported and on recorded calls (all strings of length <= 2, long strings, default start) that TLC judges against the bit-serial definition.",
      "Trusted: TLC's Bitwise/integer arithmetic; induction over the fold; CPython executing /repo's crc8404B.",
      "TLA+ spec CRC16 + TLC exhaustive check; trace validation of recorded crc8404B calls by TLC", "DESIGN.md section 4 C15")


claim("C01",
      "TLC exhausts Read(Write(f)) = f on a bounded abstract instance of the container (1-cell fields, 2-cell blocks, symbolic MAC/cipher tokens; all contents up to the stated bounds, two keys, MAC check on/off); every content TLC enumerated is concretised and round-tripped through the real writer/reader; recorded write/read events of the real code over random and edge-case files (stream and path I/O, MAC on/off) are validated by TLC against the concrete instance of the same specification (real field widths, AES.tla): text = envelope(signature ++ Serialize), read-back = ReadText;Parse.",
      "Trusted: TLC; AES.tla (FIPS-197 vectors, OpenSSL cross-check in C03/C16); the abstraction of MACs as unforgeable tokens; UTF-8 locale.",
      "TLA+ spec Bf3Layout/Text (+AES) : TLC exhaustive on abstract instance, S->C replay of TLC-enumerated contents, C->S trace validation on the concrete instance", "DESIGN.md section 4 C01")


claim("C10",
      "TLC exhausts entry sequences (<= 3 quick / <= 4 thorough entries over 15 boundary content lengths, kinds set / delete-value / delete-key): the merge algorithm of conf_dict_to_tlv refines the declarative validity written from the property (sorted operations, non-empty blocks, <= 117 bytes when every entry fits, Decode = Ops); every explored case is replayed on the real conf_dict_to_tlv / set_config and the REAL bytes are judged by TLC (Trace_ConfigTlv: framing, sizes, Decode = Ops(dict), extra blocks, tags), plus random dictionaries over the full ranges.",
      "Trusted: TLC; 'an entry fits' = its encoding incl. FF terminator <= 117 bytes. Open known findings: contents of 250..254 bytes cannot be framed (OverflowError).",
      "TLA+ spec ConfigTlv (declarative + merge refinement) : TLC exhaustive, S->C replay of every TLC case with the real bytes validated by TLC", "DESIGN.md section 4 C10")
claim("C12",
      "TLC exhausts print/parse round trips and the derivation case analysis on a reduced-width instance of the identifier format; on the real code every numeric range is driven (sampled in quick, exhaustively in thorough: ~2.4e5 identifiers), adversarial names, all 128 subsets of naming values with widths 1..4; TLC judges every recorded str / create_from_str / create_from_*_settings event at character level (Trace_ConfigId).",
      "Trusted: TLC; regex prefix matching modelled as in the code; five Unicode digit blocks. Open known finding: names shaped like a numeric identifier do not round-trip (format ambiguity).",
      "TLA+ spec ConfigId : TLC exhaustive on reduced widths, C->S trace validation of real ConfigId events at real widths", "DESIGN.md section 4 C12")
claim("C20",
      "TLC exhausts the reader-writer lock model (one action per acquire/release of the five underlying locks) for 2R+2W and larger instances: mutual exclusion, reader sharing reachable, deadlock freedom, termination under weak fairness; EVERY edge of TLC's state graph is then walked on the real RWLock running on real threads under a controlled scheduler with the full projected state and the enabled set compared after every step (bisimulation within the bound). The lazy-table / in-place rescaling model (LazyTable) is exhausted by TLC and every line-level (thorough: byte-code-level) preemption point of the real _maybe_precompute / scale is exercised against complete operations of a second thread, the observations validated by Trace_LazyTable. A lock whose internal structure differs from the model is explored as a black box against the abstract lock (RWLockAbs); an inductive invariant of the lock model (any number of steps and passes) is checked with Apalache.",
      "Trusted: TLC; the lock is pre-empted at every lock primitive and, in the black-box exploration, before every source line of the lock module that touches shared state (RWLockFine.tla is the model at that grain); CPython GIL semantics for single attribute assignment. The mapping from the implementation to the model's variables is found by value (the builder's list, the coordinate triple), not by private names; interruptions are not injected at the header line of a with statement or inside a finally body (no real asynchronous exception lands there).",
      "TLA+ specs RWLock + LazyTable : TLC exhaustive, S->C walk of every state-graph edge on the real lock under a controlled scheduler, C->S trace validation of preemption observations", "DESIGN.md section 4 C20")


claim("C13",
      "TLC exhausts the BF2 importer model on bounded layouts (PAGE = 4): platform-filter rendering equivalent to the filter bytes over all assignments; payload unpacking/conversion for blob, BF2-compatible and memory-image formats over all run layouts with gaps, page crossings and non-zero starts (each line used exactly once, gaps rejected); the section state machine over 1..3 sections x tag types x instruction combinations. Real BF2 texts printed from generated layouts (images up to 200 000 bytes, every output byte attributable to its source line) are imported by the real code and the projected components / rejections, plus direct bf2_unpack_payload / bf2_convert_payload / parse_bf2_file calls, are judged by TLC (Trace_Bf2Import).",
      "Trusted: TLC; the generated grammar delimits sections the way the importer can recognise them; byte-level attribution is done by the projection (a mismatch sets a flag the spec rejects).",
      "TLA+ spec Bf2Import : TLC exhaustive on bounded symbolic layouts, C->S trace validation of real imports", "DESIGN.md section 4 C13")


BEC2_NOTE = "Trusted: TLC; AES.tla (FIPS-197 vectors; cross-checked against OpenSSL in C03/C16); CRC16.tla; for ECC blocks the ECDH x-coordinate comes from OpenSSL and SHA-256 from hashlib (oracle relation, counted separately); symbolic cryptography in the abstract model."
claim("C02",
      "TLC exhausts the abstract BEC2 model (block subsets and orders x decryptor sequences x session keys ending in 00 x CRC byte classes): with matching decryptors the file key and every block are recovered, unopened blocks pass through. Real files over every ordered subset of block kinds x key classes (incl. keys ending in 00 and keys/versions whose wrapped payload has a CRC byte 00, found by search) x decryptor subsets are written and read by the real code; TLC validates every written header block by block (AES.tla / OpenSSL ECIES key) and the read-back against ReadBec2 and the authentic content.",
      BEC2_NOTE, "TLA+ specs Bec2Concrete/MC_Bec2 : TLC exhaustive on the abstract model, C->S trace validation of real write/read events", "DESIGN.md section 4 C02")
claim("C03",
      "The specification's Serialize, written from the documented layout with AES.tla as an independent AES, is evaluated by TLC on the content of every recorded call and must equal the real writer's bytes EXACTLY (Bf3File.to_binary at start offsets 0, 1, 5, 2^8, 2^16-1, 2^16 and random; BEC2 bodies behind real headers) and the text envelope exactly; AES.tla is cross-checked against openssl enc on random (key, block) pairs each run; TLC proves the layout lemmas (size field = real size independent of key/offset, absolute contiguous addresses, fields recovered, payloads to EOF) on the bounded abstract instance.",
      BEC2_NOTE, "TLA+ spec Bf3Layout/Text/Bec2Concrete as independent serialiser evaluated by TLC : byte-exact C->S trace validation; TLC exhaustive layout lemmas", "DESIGN.md section 4 C03")
claim("C04",
      "TLC exhausts NoSilentAccept on the bounded abstract instance of the container: every cell of every enumerated file replaced by every replacement class (incl. every other token of the file), every proper prefix, suffixes from a small alphabet, the other session key - the reader with MAC checking either refuses or returns exactly the authentic content (and without MAC checking TLC finds silently accepted damage, so the invariant is not vacuous). On the real code: for a pool of authentic BF3 and BEC2 files (plain, encrypted, zero tails, ENC tag values, a payload > 4 KiB, two decryptable auth blocks, an ECC block read with one decryptor) every byte x {each single-bit flip, 00, FF, +1}, every binary and text prefix, suffixes, all 128 single-bit changes of the key, every byte of the BEC2 header; TLC validates every recorded read against the concrete specification (accepted => content equals the authentic one; a file the specification refuses accepted with another block list is flagged). The sweep is repeated with a toy cipher (8-bit MAC) registered through the plug-in interface and the specification instantiated on the same toy cipher, which exposes lossy MAC comparisons.",
      "Trusted: TLC; AES.tla; MACs as unforgeable tokens in the abstract instance; byte positions of files larger than 600 bytes are sampled in the quick tier.",
      "TLA+ spec Bf3Layout (Damage) : TLC exhaustive on the abstract instance, C->S trace validation of the real reader on every single-byte damage / prefix / suffix / key-bit variant (Trace_Bec2), and once more on a toy-cipher instance (Trace_Bf3Toy)", "DESIGN.md section 4 C04")
claim("C05",
      "TLC exhausts the accept set on the abstract instance: every file description with up to 2 (thorough: 3) structured deviations from a valid file (addresses, lengths, tag lists incl. duplicates and overlong tag lengths, entry/directory sizes, sentinel, entry order, trailing data, MAC variants: wrong index, other key, garbage) with all other MACs recomputed: the nominal file is accepted, every single deviation is rejected, acceptance is canonical. TLC then WRITES the descriptor space at real field widths with AES.tla MACs (Gen_AcceptSet) and every file is fed to the real reader: verdict and returned content must equal the specification's. Random multi-field edits of real files, directories of 255..300 entries (thorough: 2^16 entries), duplicate payload addresses, payloads > 4 KiB with one byte changed, other text layouts and concurrent reads are judged by the concrete Parse (Trace_Bec2).",
      "Trusted: TLC; AES.tla; declared length >= 1 (the object model cannot represent 0); for the 2^16-entry directory the specification judges the deciding last entry (op bf3.bigdir), the other entries are assembled by the loop that also builds the completely parsed 255..300-entry directories.",
      "TLA+ spec Bf3Layout (SerializeRaw/Parse) : TLC exhaustive accept-set model, S->C replay of TLC-written files at real widths on the real reader, C->S trace validation of edited real files", "DESIGN.md section 4 C05")
claim("C06",
      "TLC exhausts CipherOnly and RoundTrip on the abstract instance with encrypted components; on the real code, for every content length mod 16, trailing-zero count and all-zero content (BF3 and BEC2 framing, components from set_config): payload region = AES-128-CBC(key, zero IV, zero-padded content) byte-exact per AES.tla, read-back equals the content up to its declared length, TLC scans the written file for plaintext / session key / security code / customer key needles, and writes with the cipher unregistered, raising, or raising only in encrypt must fail without emitting anything.",
      BEC2_NOTE, "TLA+ spec Bf3Layout (+AES) : TLC exhaustive on the abstract instance, C->S trace validation incl. needle scans", "DESIGN.md section 4 C06")
claim("C07",
      "TLC exhausts the abstract key-management model (file creations with explicit or drawn keys, block lists, repeated writes, reads with decryptor sequences, spliced headers): every block wraps the file key, differing keys are rejected, unopened blocks pass through, nonces and ephemerals are never reused. Histories of real file creations and repeated writes are recorded through the public RNG / key-generator registration seams and validated by the stateful Trace_KeyMgmt (one 16-byte draw = session key iff none given; one fresh ephemeral per ECC block per write; session key unchanged by writes); written headers are validated block by block, spliced headers must be rejected, subset-read + rewrite must keep unopened blocks byte-identical.",
      BEC2_NOTE, "TLA+ specs MC_Bec2 + Trace_KeyMgmt/Trace_Bec2 : TLC exhaustive scenarios, stateful C->S trace validation through registry seams", "DESIGN.md section 4 C07")
claim("C08",
      "TLC checks the container at real scale for every payload length 0..253 with AES.tla (padding arithmetic, exact inverse, marker/CRC/other-key errors, customer-key slot); the real SoftwareCustKeyEncryptor / ConfigSecurityCodeEncryptor are run for every length, payloads covering every value of each CRC byte, zero tails, other keys, bit flips, and every wrap/unwrap is judged by TLC (frame layout, exact bytes, exact inverse, error verdicts).",
      BEC2_NOTE, "TLA+ spec Bec2Concrete (Container) : TLC exhaustive over lengths at real scale, C->S trace validation", "DESIGN.md section 4 C08")
claim("C09",
      "TLC exhausts the abstract ECC-block algebra (symmetric DH; recipient = explicit matching encryptor else the published key of the block's selector; invalid points refused). Real InitEccAuthBlock.pack outputs for OpenSSL-generated recipients (edge scalars 1, 2, n-2, n-1 and random), selectors 0..3 and key classes are opened by an independent ECIES: OpenSSL ECDH + hashlib SHA-256 + AES.tla; TLC checks length, selector, 0x04, ephemeral = the generated key, recipient rule (seen at the DH seam), recovered key = session key; invalid points (off-curve, >= p, zero) must be refused where OpenSSL refuses them.",
      BEC2_NOTE + " The ECDH number itself is OpenSSL's (TLC integers are 32-bit).", "TLA+ specs MC_Bec2/Bec2Concrete : TLC exhaustive algebra, C->S trace validation with OpenSSL as ECDH oracle", "DESIGN.md section 4 C09, section 6")


claim("C16",
      "TLC re-derives all fourteen pyaes lookup tables (dumped from the real module) entry by entry from the GF(2^8) definitions, checks FIPS-197 / SP 800-38A vectors on AES.tla, exhausts every chunking of bounded streams through the mode state machines and the block feeders (abstract cipher) and every interleaving of adapter calls on shared/separate objects; real pyaes blocks, mode objects (incl. CTR carry/wrap), Encrypter/Decrypter with every TLC-enumerated chunking, and adapter histories are judged by TLC with AES.tla; AES.tla and whole streams are cross-checked against openssl enc.",
      "Trusted: TLC; GF(2^8) definitions in GF256.tla/AESDef.tla; OpenSSL for the cross-check; keys/blocks/IVs sampled (tables, chunkings and histories exhaustive).",
      "TLA+ specs GF256/AESDef/AES/AESModes/Feeder/Adapter : TLC exhaustive (tables, chunkings, interleavings), C->S trace validation, OpenSSL oracle relation", "DESIGN.md section 4 C16")
claim("C17",
      "TLC exhausts the group law on whole tiny prime-order curves (closure, associativity, inverse, commutativity, scalar multiplication homomorphism, Jacobian classes, ECDH symmetry, public-point validation set); the library's own CurveFp/PointJacobi/Point are driven on the same curves over every pair of points (incl. infinity, equal, inverse) in many Jacobian scalings through add/double/negate/multiply (table, NAF, affine)/mul_add, every (x, y) as public key, all ECDH pairs, and TLC computes the expected result of every event; on the 17 shipped curves library results are related byte-for-byte to OpenSSL (scalar multiples, ECDH both ways, invalid points).",
      "Trusted: TLC; tiny curves exercise the same formulas and zero-test branches as the shipped ones; on the shipped curves the numbers are OpenSSL's (TLC integers are 32-bit). Open known finding: subgroup check on cofactor > 1 curves (SECP112r2).",
      "TLA+ spec ECGroup : TLC exhaustive on tiny curves, C->S trace validation of real point arithmetic, OpenSSL oracle relation on shipped curves", "DESIGN.md section 4 C17, section 6")
claim("C18",
      "TLC computes the exact accept set of the ECDSA verify equation over all (Q, z, r, s) with r, s in 0..2n on tiny curves and checks sign/verify consistency; the library's Public_key.verifies / Private_key.sign are run on all those inputs and judged by TLC; on the 17 shipped curves x SHA-1..SHA-512 x encodings: library signatures verify in OpenSSL and vice versa, every single-bit change of message / encoded signature and other keys are rejected with documented errors, r, s in {0, n, n+1, 2^k} rejected, deterministic signatures equal an independent RFC 6979 implementation with r taken from OpenSSL.",
      "Trusted: TLC; OpenSSL and an independent hmac/hashlib RFC 6979 for the shipped curves (oracle relation). Open known finding: VerifyingKey.precompute() on loaded keys raises AssertionError.",
      "TLA+ spec ECDSA : TLC exhaustive accept set on tiny curves, C->S trace validation, OpenSSL / RFC 6979 oracle relations", "DESIGN.md section 4 C18, section 6")


claim("C11",
      "TLC exhausts every operation sequence (set configuration x3, derive comments x3, derive auth blocks in both modes, append/insert firmware with/without TYPE tag, write+read back) up to the bound on the object model: at most one configuration component, last and latest after set_config, firmware untouched and in order, derived comments a function of the latest configuration, other comments untouched, blocks derived from empty, one block per kind; TLC's complete state graph is dumped and EVERY PATH is walked on real Bf3File/Bec2File objects with the projected state compared after each operation.",
      "Trusted: TLC; concretisation gamma = what a fresh object gives for each configuration (history independence is the claim); three representative configurations.",
      "TLA+ spec ObjModel : TLC exhaustive over histories, S->C walk of every path of the state graph on the real objects", "DESIGN.md section 4 C11")
claim("C19",
      "TLC exhausts DER on bounded instances (every byte string up to a length over a reduced alphabet; bounded TLV trees with long-form lengths): prefix-freeness, no valid extension, minimal length forms, totality; derives the 27-byte P-256 header from EncodeSPKI; real encodings of all 17 curves x formats are structure-validated / recomputed by TLC, round-tripped, and related byte-for-byte to OpenSSL in both directions; every truncation, extension and (sampled: quick / all positions: thorough) single-byte mutation of valid encodings goes through the six decoders and TLC judges rejection of truncations/extensions and the documented-error rule.",
      "Trusted: TLC; OpenSSL for bytes and on-curve decisions (oracle relation); OIDs and field sizes transcribed from SEC 2 / RFC 5480 / RFC 5639. Open known findings: PKCS#8 version octet; SECP112r2 subgroup check.",
      "TLA+ specs DER/KeyEnc : TLC exhaustive on bounded instances, C->S trace validation of real encoders/decoders, OpenSSL oracle relation", "DESIGN.md section 4 C19, section 6")


claim("C14",
      "TLC shows the reader specification total over ARBITRARY cell strings (all strings up to the bound over an alphabet with integers, huge values, MAC tokens, garbage; arbitrary continuations of every prefix of valid files): outcome = Accept or a named rejection clause reported by the library as format error / ValueError. A seeded fuzz corpus (mutations, deletions, duplications, line reorderings of valid BF3/BEC2/BF2 files, crafted near-valid files aimed at the unguarded sites, random text) goes through every parsing entry point with decryptor sets none / public-only / private / wrong key; TLC judges every recorded call (allowed exception class by MRO, no hang, crypto registry unchanged) and, for BF3/BEC2, the accept/reject verdict of the concrete specification on the same bytes.",
      "Trusted: TLC; time limit per call as 'hangs'; registry identity = the four module globals of bec2format.crypto; termination of the recursive reader definitions is witnessed by TLC evaluating them (no separate liveness formula).",
      "TLA+ spec MC_Parsers (totality over arbitrary strings) : TLC exhaustive; C->S trace validation of a fuzz corpus through all entry points", "DESIGN.md section 4 C14")


def main():
    props = [json.loads(l) for l in open(os.path.join(VERIF, "properties.jsonl"))]
    m = {"version": 1,
         "setup_cmd": "bin/setup",
         "hooks": {"guard": "BEC2FORMAT_VERIF", "enable": "no source hooks: checks import /repo's working tree directly and instrument through the library's public registration seams (DESIGN.md 2.2); BEC2FORMAT_VERIF=1 is exported by bin/check but nothing in /repo reads it",
                   "baseline_off_cmd": "cd /repo && /venv/bin/python -m pytest -ra -q -p no:cacheprovider --timeout=900 --continue-on-collection-errors",
                   "source_commits": [], "add_only": True},
         "engines": [{"name": "tlc", "path": "/opt/veriftools/tla/tla2tools.jar", "serves_properties": sorted(CHECKS),
                      "kind_free_text": "TLA+ specifications under /verif/spec checked by TLC (bounded exhaustive model checking, trace validation of events recorded from the real code, generation of cases replayed on the real code)"},
                     {"name": "apalache", "path": "/opt/veriftools/apalache/bin/apalache-mc", "serves_properties": ["C20"],
                      "kind_free_text": "inductive invariants of the reader-writer lock model (spec/RWLockInd.tla) and of the lazy-table model (spec/LazyTableInd.tla, every table length up to 32 / 128 in one run): Init => IndInv, IndInv /\\ Next => IndInv', IndInv => safety, for fixed numbers of threads and any number of steps / passes; TLC binds the Apalache-typed restatement to the TLC model; in addition to, not instead of, the TLC checks"}],
         "checks": [], "not_applicable": [],
         "notes": "All checks: bin/check <id> --tier quick|thorough. Exit 0 held, 1 VIOLATION, 2 machinery failure. Known findings: known_findings.json. Every check runs twice: normally, and in a child interpreter started with python -O -W error::DeprecationWarning (C10, C12, C15 additionally in the bare C locale); TLC runs that do not depend on the implementation are shared between the passes (VERIF_SECOND_PASS=0 switches the second pass off). Replay files record the interpreter flags. Seeded-change evaluation: tools/eval_mutants.py (DESIGN.md 9.7 - 9.13); behaviour-preserving changes (false-alarm test): tools/eval_benign.py, seeded/benign, seeded/benign2, seeded/benign3 (DESIGN.md 9.14)."}
    for p in props:
        pid = p["id"]
        if pid in CHECKS:
            c = CHECKS[pid]
            m["checks"].append({"property_id": pid, "quick_cmd": "bin/check %s --tier quick" % pid,
                                "thorough_cmd": "bin/check %s --tier thorough" % pid,
                                "evidence_file": "/verif/evidence/%s.json" % pid,
                                "replay_cmd_template": "bin/check %s --replay {path}" % pid, "engine": "tlc",
                                "level_claimed": {"category": "model_checking", "text": c["text"], "design_ref": c["design_ref"]},
                                "level_note": c["note"], "technique": c["technique"]})
        else:
            m["not_applicable"].append({"property_id": pid, "reason": PENDING_REASON})
    with open(os.path.join(VERIF, "MANIFEST.json"), "w") as f:
        json.dump(m, f, indent=1)


if __name__ == "__main__":
    main()
