"""BEC2: builders, seams (logging wrappers registered through the public registry) and recorders."""
import io, os, hashlib, tempfile

from .common import B
from . import bf3lib as L
from .bf3lib import chars, proj_file, exc_info

import bec2format
from bec2format import (Bec2File, SoftwareCustKeyEncryptor, ConfigSecurityCodeEncryptor, EccEncryptor, EccDecryptor)
from bec2format.bec2file import (InitCustKeyAuthBlock, InitEccAuthBlock, UpdateAuthBlock, UnknownAuthBlock, BEC2_FILE_SIG)
from bec2format import crypto as _crypto
import register_crypto_plugin as _plug


class Seams:
    """Delegating wrappers around the registered plug-in classes; the real code does all the work."""

    def __init__(self):
        self.log = []

    def __enter__(self):
        log = self.log
        self._saved = current_backends()
        RealPriv, real_rng = _plug.PrivateEccKeyProxy, _plug.random_bytes

        forced = self.forced = []          # chosen ephemeral scalars (input selection for C09), consumed first

        class LogPriv(RealPriv):
            @classmethod
            def generate(cls):
                if forced:
                    from register_crypto_plugin.ecdsa import SigningKey
                    from .oracle_openssl import sec1_from_scalar
                    k = cls(SigningKey.from_der(sec1_from_scalar(forced.pop(0))))
                else:
                    k = super().generate()
                log.append({"ev": "gen", "pub": bytes(k.public_key.to_raw_bin_fmt())})
                return k

            def compute_dh_secret(self, public_key):
                s = super().compute_dh_secret(public_key)
                log.append({"ev": "dh", "mine": bytes(self.public_key.to_raw_bin_fmt()),
                            "peer_der": bytes(public_key.to_der_fmt()), "secret": bytes(s)})
                return s

        def log_rng(n):
            v = real_rng(n)
            log.append({"ev": "rng", "n": n, "val": bytes(v)})
            return v

        bec2format.register_PrivateEccKey(LogPriv)
        bec2format.register_random_bytes(log_rng)
        return self

    def __exit__(self, *a):
        bec2format.register_AES128(self._saved["AES128"])
        bec2format.register_PublicEccKey(self._saved["PublicEccKey"])
        bec2format.register_PrivateEccKey(self._saved["PrivateEccKey"])
        bec2format.register_random_bytes(self._saved["random_bytes"])

    def take(self):
        out = list(self.log)
        del self.log[:]
        return out


def current_backends():
    """The four registered back ends, found through the public interface where it offers a way (the registry variables are private
    to bec2format.crypto and a refactoring may rename them): the class of a cipher object it creates; for the others the private
    variable when it exists and otherwise what the plug-in registers on import."""
    d = vars(_crypto)
    out = {"AES128": d.get("_" + "_AES128"), "PublicEccKey": d.get("_" + "_PublicEccKey"),
           "PrivateEccKey": d.get("_" + "_PrivateEccKey"), "random_bytes": d.get("_" + "_random_bytes")}
    try:
        out["AES128"] = type(_crypto.create_AES128(bytes(16)))
    except Exception:                                              # noqa
        pass
    for n, default in (("AES128", _plug.AES128Proxy), ("PublicEccKey", _plug.PublicEccKeyProxy),
                       ("PrivateEccKey", _plug.PrivateEccKeyProxy), ("random_bytes", _plug.random_bytes)):
        if out[n] is None:
            out[n] = default
    return out


def _freeze(v, depth=0):
    if isinstance(v, dict):
        return ("d", tuple(sorted(((repr(k), _freeze(x, depth + 1)) for k, x in v.items()))))
    if isinstance(v, (list, tuple)):
        return ("l", tuple(_freeze(x, depth + 1) for x in v))
    if isinstance(v, (set, frozenset)):
        return ("s", tuple(sorted(repr(x) for x in v)))
    if isinstance(v, (bytes, str, int, float, bool, type(None))):
        return v
    return ("o", id(v))


def registry_snapshot():
    """Library-global state: the four registered crypto back ends (identity) and the CONTENT of every module-level or
    class-level mutable container of the bec2format package (tables such as HWCID_MAP / REV_HWCID_MAP / BF2_TAGTYPE_MAP,
    default key tables, class maps, caches somebody might add)."""
    import sys as _sys
    # (the registry is private to bec2format.crypto and may be laid out in any way: whatever private module attribute holds a
    #  class or a function is taken by identity, containers by content below)
    snap = [tuple((a, id(v)) for a, v in sorted(vars(_crypto).items())
                  if a.startswith("_") and not (a.startswith("__") and a.endswith("__")) and (isinstance(v, type) or callable(v)))]
    try:
        snap.append(("aes-backend", id(type(_crypto.create_AES128(bytes(16))))))
    except Exception:                                              # noqa: a back end that refuses the probe key is still a back end
        pass
    for name in sorted(m for m in _sys.modules if m == "bec2format" or m.startswith("bec2format.")):
        mod = _sys.modules[name]
        for attr in sorted(vars(mod)):
            v = vars(mod)[attr]
            if attr.startswith("__") and attr.endswith("__"):
                continue
            if isinstance(v, (dict, list, set)):
                snap.append((name, attr, _freeze(v)))
            elif isinstance(v, type) and getattr(v, "__module__", None) == name:
                for ca, cv in sorted(vars(v).items()):
                    if not (ca.startswith("__") and ca.endswith("__")) and (isinstance(cv, (dict, list, set)) or cv is None or isinstance(cv, (bytes, int, str))):
                        snap.append((name, attr + "." + ca, _freeze(cv)))
    return tuple(snap)


def code_key(code):
    return hashlib.sha256(code).digest()[:16]


# ---- decryptor descriptions: python object + spec record
def dec_cust(key, ck=None, pos=None):
    return (SoftwareCustKeyEncryptor(key, ck, pos),
            {"kind": "cust", "key": B(key), "ck": B(ck or b""), "pos": pos or 0, "code": [], "sel": 0, "priv": 0})


def dec_code(code):
    return (ConfigSecurityCodeEncryptor(code),
            {"kind": "code", "key": B(code_key(code)), "ck": [], "pos": 0, "code": B(code), "sel": 0, "priv": 0})


def dec_ecc(sel, priv_der):
    pk = _plug.PrivateEccKeyProxy.create_from_der_fmt(priv_der)
    return (EccDecryptor(sel, pk), {"kind": "ecc", "key": [], "ck": [], "pos": 0, "code": [], "sel": sel, "priv": 1})


def enc_ecc_pub(sel, pub_raw64=None):
    pub = None if pub_raw64 is None else _plug.PublicEccKeyProxy.create_from_der_fmt(
        bytes.fromhex("3059301306072A8648CE3D020106082A8648CE3D03010703420004") + pub_raw64)
    return (EccEncryptor(sel, pub), {"kind": "ecc", "key": [], "ck": [], "pos": 0, "code": [], "sel": sel, "priv": 0})


def proj_block(b):
    if isinstance(b, UnknownAuthBlock):
        return {"tag": int(b.tag), "sel": 0, "version": 0, "code": [], "raw": B(b.binary_value)}
    if isinstance(b, InitCustKeyAuthBlock):
        return {"tag": 1, "sel": 0, "version": 0, "code": [], "raw": []}
    if isinstance(b, InitEccAuthBlock):
        return {"tag": 3, "sel": int(b.key_selector), "version": 0, "code": [], "raw": []}
    if isinstance(b, UpdateAuthBlock):
        return {"tag": 2, "sel": 0, "version": int(b.version), "code": B(b.config_security_code), "raw": []}
    raise TypeError(type(b))


def proj_bec2(f):
    return {"key": B(f.session_key), "blocks": [proj_block(b) for b in f.auth_blocks.values()],
            "comps": proj_file(f.bf3file)["comps"], "comments": proj_file(f.bf3file)["comments"]}


def split_header(binary):
    """Harness-side TLV walk ONLY to find ECC blocks for the oracle (never used to judge)."""
    out, p = [], 5
    while p + 2 <= len(binary):
        tag, n = binary[p], binary[p + 1]
        if tag == 0 and n == 0:
            break
        out.append((tag, bytes(binary[p + 2:p + 2 + n])))
        p += 2 + n
    return out


def ecc_oracle_keys(binary, ecc_privs, oracle):
    """For every header block: the ECIES AES key computed by OpenSSL+hashlib with the private key
    registered for the block's selector ([] when not an ECC block / no key / OpenSSL refuses the point)."""
    keys = []
    for tag, raw in split_header(binary):
        k = []
        if tag == 3 and len(raw) >= 66 and raw[0] in ecc_privs:
            kk = oracle.ecies_key(ecc_privs[raw[0]], raw[2:66])
            k = B(kk) if kk else []
        keys.append(k)
    return keys


def to_binary_of_text(text):
    from bec2format.bf3file import hex2bin
    pos = 0
    while True:                                   # skip comment lines up to the first blank line
        nl = text.find("\n", pos)
        if nl < 0:
            return b""
        if nl == pos:
            return hex2bin(text[nl + 1:])
        pos = nl + 1


def rec_bec2_read(rec, text, decs, ecc_privs, oracle, check=True, auth=None, **extra):
    objs = [d[0] for d in decs]
    ev = {"op": "bec2.read", "text": chars(text), "decs": [d[1] for d in decs], "check": bool(check), "kind": "ok",
          "key": [], "blocks": [], "comps": [], "comments": [], "has_auth": 0,
          "auth_key": [], "auth_comps": [], "auth_comments": []}
    try:
        ev["ecckeys"] = ecc_oracle_keys(to_binary_of_text(text), ecc_privs, oracle)
    except Exception:
        ev["ecckeys"] = []
    try:
        form = rec.tid % 5
        if rec.tid % 3 == 1:
            check = int(bool(check))                            # an equal value of another type (1 / 0): same behaviour
        if form == 1:
            with tempfile.TemporaryDirectory(prefix="verif_b2r_") as td:
                pth = os.path.join(td, "r.bec2")
                with open(pth, "wb") as fh:
                    fh.write(text.encode("utf-8"))
                g = Bec2File.read_file(pth, objs, check)
        elif form == 2:
            g = Bec2File.read_file(check_cmac=check, ext_encryptors=objs, bf3file=io.StringIO(text))
        elif form == 3 and check is True:
            g = Bec2File.read_file(io.StringIO(text), tuple(objs))            # MAC checking is the documented default
        elif form == 4:
            g = Bec2File.read_file(io.StringIO(text), iter(list(objs)), check)
        else:
            g = Bec2File.read_file(io.StringIO(text), objs, check)
        pj = proj_bec2(g)
        ev.update({"key": pj["key"], "blocks": pj["blocks"], "comps": pj["comps"], "comments": pj["comments"]})
        L.poison(g.bf3file)                                   # (see bf3lib.poison: returned objects are the caller's)
        try:
            g.auth_blocks.clear()
            g.session_key = b"\xEE" * 16
        except Exception:                                     # noqa: BLE001
            pass
    except BaseException as e:                                  # noqa: BLE001
        if isinstance(e, (KeyboardInterrupt, SystemExit)):
            raise
        ev["kind"] = "raise"
        ev["exc"] = exc_info(e)
    if auth is not None:
        ev["has_auth"] = 1
        ev["auth_key"], ev["auth_comps"], ev["auth_comments"] = auth["key"], auth["comps"], auth["comments"]
    ev.update(extra)
    return rec.add(ev)
