"""TLC state graph (-dump dot,actionlabels) -> nodes (spec states) and labelled edges."""
import re, collections

from . import tlaval
from .common import MachineryError

_node = re.compile(r'^(-?\d+) \[label="((?:[^"\\]|\\.)*)"(.*)$')
_edge = re.compile(r'^(-?\d+) -> (-?\d+) \[label="((?:[^"\\]|\\.)*)"')
_unesc = re.compile(r"\\(.)")


def _unescape(s):
    return _unesc.sub(lambda m: "\n" if m.group(1) == "n" else m.group(1), s)


def parse_state(txt):
    st = {}
    for part in re.split(r"(?:^|\n)/\\ ", txt):
        part = part.strip()
        if part:
            name, _, val = part.partition(" = ")
            st[name.strip()] = tlaval.parse(val)
    return st


class Graph:
    def __init__(self, path):
        self.nodes, self.out, self.init = {}, collections.defaultdict(list), None
        with open(path) as f:
            for ln in f:
                m = _edge.match(ln)
                if m:
                    self.out[int(m.group(1))].append((_unescape(m.group(3)), int(m.group(2))))
                    continue
                m = _node.match(ln)
                if m:
                    nid = int(m.group(1))
                    if nid not in self.nodes:
                        self.nodes[nid] = parse_state(_unescape(m.group(2)))
                    if "style = filled" in m.group(3):
                        self.init = nid
        if self.init is None:
            raise MachineryError("state graph dump has no initial state")
        self.n_edges = sum(len(v) for v in self.out.values())
