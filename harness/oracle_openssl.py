"""OpenSSL CLI as the independent oracle for big-integer elliptic-curve results (P-256 here)."""
import os, subprocess, tempfile, hashlib

from .common import MachineryError

P256_N = 0xFFFFFFFF00000000FFFFFFFFFFFFFFFFBCE6FAADA7179E84F3B9CAC2FC632551
P256_P = 0xFFFFFFFF00000001000000000000000000000000FFFFFFFFFFFFFFFFFFFFFFFF
P256_B = 0x5AC635D8AA3A93E7B3EBBD55769886BC651D06B0CC53B0F63BCE3C3E27D2604B
SPKI_HDR = bytes.fromhex("3059301306072A8648CE3D020106082A8648CE3D03010703420004")


def _run(args, inp=None):
    try:
        p = subprocess.run(["openssl"] + args, input=inp, stdout=subprocess.PIPE, stderr=subprocess.PIPE, timeout=60)
    except (OSError, subprocess.TimeoutExpired) as e:
        raise MachineryError("openssl not usable: %s" % e)
    return p


def sec1_from_scalar(d):
    """Minimal SEC1 ECPrivateKey (named curve prime256v1, no public key part)."""
    body = b"\x02\x01\x01" + b"\x04\x20" + d.to_bytes(32, "big") + b"\xa0\x0a\x06\x08\x2a\x86\x48\xce\x3d\x03\x01\x07"
    return b"\x30" + bytes([len(body)]) + body


class Oracle:
    def __init__(self, workdir):
        self.wd = workdir
        self.n = 0

    def _f(self, data, suffix):
        self.n += 1
        p = os.path.join(self.wd, "o%d%s" % (self.n, suffix))
        with open(p, "wb") as f:
            f.write(data)
        return p

    def pub_of(self, priv_der):
        """raw 64-byte X||Y of a SEC1/PKCS8 DER private key, computed by OpenSSL."""
        k = self._f(priv_der, ".der")
        p = _run(["ec", "-inform", "DER", "-in", k, "-pubout", "-outform", "DER"])
        os.unlink(k)
        if p.returncode != 0 or not p.stdout.startswith(SPKI_HDR):
            raise MachineryError("openssl ec -pubout failed: %s" % p.stderr[-300:])
        return p.stdout[len(SPKI_HDR):]

    def gen(self):
        p = _run(["ecparam", "-name", "prime256v1", "-genkey", "-noout", "-outform", "DER"])
        if p.returncode != 0:
            raise MachineryError("openssl ecparam -genkey failed")
        return p.stdout, self.pub_of(p.stdout)

    def pub_valid(self, raw64):
        k = self._f(SPKI_HDR + raw64, ".der")
        p = _run(["pkey", "-pubin", "-inform", "DER", "-in", k, "-pubcheck", "-noout"])
        os.unlink(k)
        return p.returncode == 0

    def derive(self, priv_der, peer_raw64):
        """ECDH shared x-coordinate (32 bytes) or None if OpenSSL refuses the peer point."""
        k = self._f(priv_der, ".der")
        q = self._f(SPKI_HDR + peer_raw64, ".der")
        p = _run(["pkeyutl", "-derive", "-keyform", "DER", "-inkey", k, "-peerform", "DER", "-peerkey", q])
        os.unlink(k)
        os.unlink(q)
        if p.returncode != 0 or len(p.stdout) != 32:
            return None
        return p.stdout

    def ecies_key(self, priv_der, peer_raw64):
        x = self.derive(priv_der, peer_raw64)
        return None if x is None else hashlib.sha256(x).digest()[:16]

    def aes_ecb(self, key, block):
        p = _run(["enc", "-aes-%d-ecb" % (len(key) * 8), "-nopad", "-K", key.hex()], inp=block)
        if p.returncode != 0 or len(p.stdout) != len(block):
            raise MachineryError("openssl enc failed: %s" % p.stderr[-200:])
        return p.stdout
