"""Input generation for C19: structure-aware damage of DER key files.  A valid encoding is split into its TLV tree,
edited (members dropped / duplicated / swapped / inserted, INTEGER / OID / OCTET STRING / BIT STRING contents replaced,
tags changed) and written back with CORRECT lengths - inputs that no truncation or byte substitution produces.
This is a generator only: what the result means is decided by spec/DER.tla / KeyEnc.tla (TLC) and by the decoders."""


def _rdlen(b, i):
    n = b[i]
    if n < 0x80:
        return n, i + 1
    k = n & 0x7F
    return int.from_bytes(b[i + 1:i + 1 + k], "big"), i + 1 + k


def parse(b, i=0, end=None):
    """list of nodes [tag, content bytes | list of nodes]; constructed tags are split recursively"""
    end = len(b) if end is None else end
    out = []
    while i < end:
        tag = b[i]
        ln, j = _rdlen(b, i + 1)
        body = b[j:j + ln]
        if tag & 0x20:
            out.append([tag, parse(body)])
        elif tag == 0x04 and len(body) > 2 and body[0] == 0x30 and _whole(body):
            out.append([tag, parse(body)])                # PKCS#8: OCTET STRING wrapping the ECPrivateKey
        else:
            out.append([tag, bytes(body)])
        i = j + ln
    return out


def _whole(body):
    try:
        ln, j = _rdlen(body, 1)
        return j + ln == len(body)
    except Exception:                                           # noqa: BLE001
        return False


def enclen(n):
    if n < 0x80:
        return bytes([n])
    s = n.to_bytes((n.bit_length() + 7) // 8, "big")
    return bytes([0x80 | len(s)]) + s


def ser(nodes):
    out = b""
    for tag, c in nodes:
        body = ser(c) if isinstance(c, list) else c
        out += bytes([tag]) + enclen(len(body)) + body
    return out


def paths(nodes, pre=()):
    """all node paths (tuples of indices), parents before children"""
    for k, (tag, c) in enumerate(nodes):
        yield pre + (k,)
        if isinstance(c, list):
            for p in paths(c, pre + (k,)):
                yield p


def get(nodes, path):
    lst = nodes
    for k in path[:-1]:
        lst = lst[k][1]
    return lst, path[-1]


def clone(nodes):
    return [[t, clone(c) if isinstance(c, list) else c] for t, c in nodes]


OIDS = {"ecPublicKey": bytes.fromhex("2a8648ce3d0201"), "prime-field": bytes.fromhex("2a8648ce3d0101"), "char2-field": bytes.fromhex("2a8648ce3d0102"),
        "prime256v1": bytes.fromhex("2a8648ce3d030107"), "secp112r1": bytes.fromhex("2b81040006"), "secp384r1": bytes.fromhex("2b81040022"),
        "ecDH": bytes.fromhex("2b8104010c"), "rsaEncryption": bytes.fromhex("2a864886f70d010101"), "Ed25519": bytes.fromhex("2b6570"), "Ed448": bytes.fromhex("2b6571"),
        "unknown": bytes.fromhex("2a0304")}
INTS = {"zero": b"\x00", "one": b"\x01", "two": b"\x02", "minus-one": b"\xff", "negative": b"\x80\x00", "empty": b"", "non-minimal-one": b"\x00\x01",
        "max-positive": b"\x7f" + b"\xff" * 15, "huge": b"\x7f" + b"\xff" * 299, "128": b"\x00\x80"}


def edits_for(nodes, path):
    """[(name, function editing a clone in place)] applicable to the node at path"""
    lst, k = get(nodes, path)
    tag, c = lst[k]
    where = ".".join(map(str, path)) + "(%02x)" % tag
    out = []

    def E(name, fn):
        out.append(("%s %s" % (name, where), path, fn))
    E("drop", lambda l, i: l.pop(i))
    E("duplicate", lambda l, i: l.insert(i, [l[i][0], clone(l[i][1]) if isinstance(l[i][1], list) else l[i][1]]))
    if k + 1 < len(lst):
        E("swap-with-next", lambda l, i: l.__setitem__(slice(i, i + 2), [l[i + 1], l[i]]))
    if tag == 0x02:
        for nm, v in INTS.items():
            if v != c:
                E("int=" + nm, lambda l, i, v=v: l.__setitem__(i, [0x02, v]))
        E("int->octets", lambda l, i: l.__setitem__(i, [0x04, l[i][1]]))
    elif tag == 0x06:
        for nm, v in OIDS.items():
            if v != c:
                E("oid=" + nm, lambda l, i, v=v: l.__setitem__(i, [0x06, v]))
        E("oid=empty", lambda l, i: l.__setitem__(i, [0x06, b""]))
        E("oid->null", lambda l, i: l.__setitem__(i, [0x05, b""]))
    elif tag == 0x04 and not isinstance(c, list):
        E("octets=empty", lambda l, i: l.__setitem__(i, [0x04, b""]))
        E("octets=one-zero", lambda l, i: l.__setitem__(i, [0x04, b"\x00"]))
        E("octets+1", lambda l, i: l.__setitem__(i, [0x04, l[i][1] + b"\x00"]))
        E("octets-1", lambda l, i: l.__setitem__(i, [0x04, l[i][1][:-1]]))
        E("octets->bits", lambda l, i: l.__setitem__(i, [0x03, b"\x00" + l[i][1]]))
        E("seed-after", lambda l, i: l.insert(i + 1, [0x03, b"\x00" + bytes(range(20))]))
    elif tag == 0x03:
        E("bits=empty", lambda l, i: l.__setitem__(i, [0x03, b""]))
        E("bits=only-unused-octet", lambda l, i: l.__setitem__(i, [0x03, b"\x00"]))
        E("bits-unused=1", lambda l, i: l.__setitem__(i, [0x03, b"\x01" + l[i][1][1:]]))
        E("bits-unused=8", lambda l, i: l.__setitem__(i, [0x03, b"\x08" + l[i][1][1:]]))
        E("bits->octets", lambda l, i: l.__setitem__(i, [0x04, l[i][1][1:]]))
    if isinstance(c, list):
        E("empty-constructed", lambda l, i: l.__setitem__(i, [l[i][0], []]))
        E("unwrap", lambda l, i: l.__setitem__(slice(i, i + 1), l[i][1]) if isinstance(l[i][1], list) else None)
        for t2 in (0x30, 0x31, 0xA0, 0xA1, 0xA2):
            if t2 != tag and tag != 0x04:
                E("tag=%02x" % t2, lambda l, i, t2=t2: l.__setitem__(i, [t2, l[i][1]]))
    E("wrap-in-sequence", lambda l, i: l.__setitem__(i, [0x30, [l[i]]]))
    E("null-after", lambda l, i: l.insert(i + 1, [0x05, b""]))
    E("int-after", lambda l, i: l.insert(i + 1, [0x02, b"\x01"]))
    return out


def all_edits(nodes):
    out = []
    for p in paths(nodes):
        out += edits_for(nodes, p)
    return out


def apply(nodes, edit_list):
    """apply edits (deepest / rightmost path first so that earlier paths stay valid); returns bytes"""
    t = clone(nodes)
    for name, path, fn in sorted(edit_list, key=lambda e: e[1], reverse=True):
        try:
            lst, k = get(t, path)
            if k < len(lst):
                fn(lst, k)
        except (IndexError, TypeError):
            pass
    return ser(t) if _wellformed(t) else None


def _wellformed(nodes):
    return isinstance(nodes, list) and all(isinstance(n, list) and len(n) == 2 and isinstance(n[0], int)
                                           and (isinstance(n[1], (bytes, bytearray)) or _wellformed(n[1])) for n in nodes)
