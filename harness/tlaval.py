"""TLA+ value syntax: parser for what TLC prints (PrintT, -dump, error traces)
and a serialiser from Python values to TLA+ literals.

Python <-> TLA+:  int <-> int, bool <-> TRUE/FALSE, str <-> "string",
tuple/list <-> <<..>>, frozenset <-> {..}, dict with str keys <-> record,
Fn(dict) <-> (a :> b @@ ..) function with non-string domain, ModelValue(name).
"""
import re


class Fn(dict):
    def __hash__(self):
        return hash(frozenset(self.items()))


class ModelValue(str):
    pass


_tok = re.compile(r'''\s*(?:(<<|>>|\|->|:>|@@|\[|\]|\{|\}|\(|\)|,)|(-?\d+)|"((?:[^"\\]|\\.)*)"|([A-Za-z_][A-Za-z0-9_!]*))''')


def _tokens(s):
    pos, out, n = 0, [], len(s)
    while pos < n:
        m = _tok.match(s, pos)
        if not m:
            if s[pos:].strip() == "":
                break
            raise ValueError("bad TLA+ value at %r" % s[pos:pos + 40])
        pos = m.end()
        if m.group(1):
            out.append(("p", m.group(1)))
        elif m.group(2):
            out.append(("i", int(m.group(2))))
        elif m.group(3) is not None:
            out.append(("s", m.group(3).encode().decode("unicode_escape")))
        else:
            out.append(("w", m.group(4)))
    return out


def parse(s):
    toks = _tokens(s)
    v, i = _val(toks, 0)
    if i != len(toks):
        raise ValueError("trailing tokens in TLA+ value: %r" % (toks[i:i + 5],))
    return v


def _seq(toks, i, close):
    out = []
    if toks[i] == ("p", close):
        return out, i + 1
    while True:
        v, i = _val(toks, i)
        out.append(v)
        if toks[i] == ("p", ","):
            i += 1
        elif toks[i] == ("p", close):
            return out, i + 1
        else:
            raise ValueError("expected , or %s got %r" % (close, toks[i]))


def _val(toks, i):
    k, t = toks[i]
    if k == "i" or k == "s":
        return t, i + 1
    if k == "w":
        if t == "TRUE":
            return True, i + 1
        if t == "FALSE":
            return False, i + 1
        return ModelValue(t), i + 1
    if t == "<<":
        xs, i = _seq(toks, i + 1, ">>")
        return tuple(xs), i
    if t == "{":
        xs, i = _seq(toks, i + 1, "}")
        return frozenset(xs), i
    if t == "[":
        rec = {}
        i += 1
        if toks[i] == ("p", "]"):
            return rec, i + 1
        while True:
            name = toks[i][1]
            if toks[i + 1] != ("p", "|->"):
                raise ValueError("bad record field: %r" % (toks[i:i + 3],))
            v, i = _val(toks, i + 2)
            rec[name] = v
            if toks[i] == ("p", ","):
                i += 1
            elif toks[i] == ("p", "]"):
                return rec, i + 1
            else:
                raise ValueError("bad record")
    if t == "(":
        fn = Fn()
        i += 1
        while True:
            a, i = _val(toks, i)
            if toks[i] != ("p", ":>"):
                raise ValueError("bad function literal: %r" % (toks[i],))
            b, i = _val(toks, i + 1)
            fn[a] = b
            if toks[i] == ("p", "@@"):
                i += 1
            elif toks[i] == ("p", ")"):
                return fn, i + 1
            else:
                raise ValueError("bad function")
    raise ValueError("unexpected token %r" % (toks[i],))


def to_tla(v):
    if isinstance(v, bool):
        return "TRUE" if v else "FALSE"
    if isinstance(v, ModelValue):
        return str(v)
    if isinstance(v, int):
        return str(v)
    if isinstance(v, str):
        return '"' + v.replace("\\", "\\\\").replace('"', '\\"').replace("\n", "\\n") + '"'
    if isinstance(v, (bytes, bytearray)):
        return "<<" + ",".join(str(b) for b in v) + ">>"
    if isinstance(v, (list, tuple)):
        return "<<" + ",".join(to_tla(x) for x in v) + ">>"
    if isinstance(v, (set, frozenset)):
        return "{" + ",".join(to_tla(x) for x in v) + "}"
    if isinstance(v, Fn):
        if not v:
            return "<<>>"
        return "(" + " @@ ".join("%s :> %s" % (to_tla(a), to_tla(b)) for a, b in v.items()) + ")"
    if isinstance(v, dict):
        if not v:
            raise ValueError("empty record has no TLA+ literal")
        return "[" + ", ".join("%s |-> %s" % (k, to_tla(x)) for k, x in v.items()) + "]"
    raise TypeError(type(v))


def printed_values(stdout):
    """Yield every top-level value TLC printed on stdout via PrintT (values may
    span several lines; they always start in column 0 with <<, [, {, ( or ")."""
    lines = stdout.splitlines()
    i = 0
    while i < len(lines):
        ln = lines[i]
        if ln[:2] == "<<" or ln[:1] in "[{(\"":
            buf = ln
            while True:
                try:
                    yield parse(buf)
                    break
                except (ValueError, IndexError, AssertionError):
                    i += 1
                    if i >= len(lines):
                        return
                    buf += "\n" + lines[i]
        i += 1
