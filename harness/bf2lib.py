"""C13 driver: generator of BF2 layouts (section descriptors -> items with symbolic extents), printer of real BF2
text, attribution of returned payload bytes to their source lines, projection of the results of the real
Bf3File.bf2_import re, / bf2_unpack_payload / bf2_convert_payload to trace events for spec/Trace_Bf2Import.tla.

Nothing here decides what the import should produce: the expected components / rejections are computed by TLC from
the `items` of the event.  The only knowledge used is (1) how a layout is written as text (the concretisation) and
(2) the inverse of the content function payload(line id, offset) (the attribution)."""
import io, os, re, hashlib

from .common import repo_on_path, MachineryError

repo_on_path()
from bec2format import Bf3File                                  # noqa: E402
from bec2format.hwcids import HWCID_MAP, REV_HWCID_MAP          # noqa: E402  (only RECORDED: judged against spec/HwcidNames.tla)

# first tag type -> number of 64 KiB pages its range offers (spec: KnownRanges); used only to size images
PAGES = {0x34: 1, 0x35: 4, 0x39: 4, 0x3D: 2, 0x40: 8, 0x48: 1, 0x70: 4, 0x83: 1, 0x84: 32}
MAPPED = [0x35, 0x39, 0x3D, 0x40, 0x70, 0x83, 0x84]
IGNORED = [0x34, 0x48]
PERIPH = {0x35: 0x9B, 0x39: 0xBE, 0x3D: 0xAD, 0x40: 0xC0}
PROTOCOLS = ["BRP", "BRP-SER", "BRP-CCID", "BRP-TCP", "BRP-OSDP", "ISO7816-4"]
KNOWN_IDS = list(range(0x01, 0xC4))          # listed ids and the holes between them (the generator does not consult the library)


def chars(s):
    return [ord(c) for c in s]


def pinned_ids():
    """ids of the pinned list spec/HwcidNames.tla"""
    txt = open(os.path.join(os.path.dirname(os.path.dirname(os.path.abspath(__file__))), "spec", "HwcidNames.tla")).read()
    return {int(m) for m in re.findall(r"^\s*<<(\d+), <<", txt, re.M)}


_XN = None


def extra_names():
    """names the library has for ids that are NOT in the pinned list (an upstream addition): the specification renders these
    ids with the library's name - the documented ids are judged against the pinned list, additions do not raise an alarm"""
    global _XN
    if _XN is None:
        pin = pinned_ids()
        _XN = [[int(i), chars(n)] for i, n in sorted(REV_HWCID_MAP.items()) if int(i) not in pin]
    return _XN


def run_names(tid):
    """the library's hardware-id tables as an event; the pinned list of the specification is the judge"""
    return {"tid": tid, "op": "names", "kind": "ok", "cls": "", "fwd": [[chars(n), int(i)] for n, i in HWCID_MAP.items()],
            "rev": [[int(i), chars(n)] for i, n in REV_HWCID_MAP.items()]}


# ------------------------------------------------------------------ lines, content, attribution
class Lines:
    """Allocates line ids; payload(id) starts with a prefix-free code of the id and continues with bytes derived from
    (id, offset), so a concatenation of whole line payloads decodes uniquely and every byte is checked."""

    def __init__(self):
        self.n = 0
        self.info = {}          # id -> (ty, offs, payload)
        self.code = {}          # code bytes -> id
        self.c1 = self.c2 = self.c3 = 0
        self.p1 = self.p2 = 0     # short lines planned by the generator (budget of the prefix-free code)

    def plan(self, length):
        """reserve a code for a planned line of `length` bytes; False if no unique short code is left"""
        if length == 1:
            if self.p1 >= 128:
                return False
            self.p1 += 1
        elif length == 2:
            if self.p2 >= 16384:
                return False
            self.p2 += 1
        return True

    def new(self, ty, offs, length):
        self.n += 1
        i = self.n
        if length == 1:
            c = bytes([self.c1]); self.c1 += 1
        elif length == 2:
            c = bytes([0x80 | (self.c2 >> 8), self.c2 & 255]); self.c2 += 1
        else:
            c = bytes([0xC0 | (self.c3 >> 16), (self.c3 >> 8) & 255, self.c3 & 255]); self.c3 += 1
        if self.c1 > 128 or self.c2 > 16384:
            raise MachineryError("generator: too many short lines for a prefix-free attribution")
        fill = b""
        if length > 3:
            h = b"".join(hashlib.blake2b(b"%d/%d" % (i, k), digest_size=64).digest() for k in range((length + 60) // 64))
            fill = h[:length - 3]
        p = (c + fill)[:length]
        self.code[c] = i
        self.info[i] = (ty, offs, p)
        return i

    def run(self, ty, offs, length, n):
        """n lines of `length` bytes from offset offs on; returns the run <<id0, n, ty, offs, len>>"""
        id0 = None
        for j in range(n):
            i = self.new(ty, offs + j * length, length)
            id0 = id0 or i
        return [id0, n, ty, offs, length]

    def raw(self, i, idx, extra):
        ty, offs, p = self.info[i]
        tag = bytes([len(p) + 2, offs >> 8, offs & 255]) + p
        return bytes([idx >> 8, idx & 255, ty, len(tag)]) + tag + extra

    # -- attribution: bytes -> id runs
    def ident(self, data, p):
        b = data[p]
        k = 1 if b < 0x80 else 2 if b < 0xC0 else 3
        return self.code.get(bytes(data[p:p + k]))

    def decode_payload(self, data):
        ids, p, n = [], 0, len(data)
        while p < n:
            i = self.ident(data, p)
            if i is None:
                return idruns(ids), 1
            pl = self.info[i][2]
            if data[p:p + len(pl)] != pl:
                return idruns(ids), 1
            ids.append(i)
            p += len(pl)
        return idruns(ids), 0

    def decode_raw(self, data, rawof):
        """concatenation of raw lines (idx, type, len, tag ...) as printed: rawof[id] = printed bytes"""
        ids, p, n = [], 0, len(data)
        while p < n:
            if p + 8 > n:
                return idruns(ids), 1
            i = self.ident(data, p + 7)
            if i is None or data[p:p + len(rawof[i])] != rawof[i]:
                return idruns(ids), 1
            ids.append(i)
            p += len(rawof[i])
        return idruns(ids), 0

    def decode_mem(self, data):
        blocks, p, n, bad = [], 0, len(data), 0
        while p < n:
            if p + 8 > n:
                return blocks, 1
            adr = int.from_bytes(data[p:p + 4], "big")
            ln = int.from_bytes(data[p + 4:p + 8], "big")
            if p + 8 + ln > n:
                return blocks, 1
            ids, b = self.decode_payload(data[p + 8:p + 8 + ln])
            bad |= b
            blocks.append([adr, ln, ids])
            p += 8 + ln
        return blocks, bad


def idruns(ids):
    out = []
    for i in ids:
        if out and out[-1][0] + out[-1][1] == i:
            out[-1][1] += 1
        else:
            out.append([i, 1])
    return out


# ------------------------------------------------------------------ items
def item(k, name="", s="", text=(), bytes_=(), runs=()):
    return {"k": k, "name": name, "s": s, "text": list(text), "bytes": list(bytes_), "runs": [list(x) for x in runs]}


def cmt(name, value):
    value = value.strip()                                 # the reader strips the value
    return dict(item("cmt", name if name in ("Firmware", "Creator", "Bf3Update", "CRC") else "Other", text=chars(value)),
                _name=name, _value=value)


def ins(name, s="", bytes_=()):
    return item("ins", name, s=s, bytes_=bytes_)


def hexs(b, r=None):
    style = r.choice(["sp", "sp", "cont", "lower"]) if r else "sp"
    if style == "cont":
        return bytes(b).hex().upper()
    if style == "lower":
        return bytes(b).hex(" ")
    return bytes(b).hex(" ").upper()


class Bf2Text:
    """Prints items as BF2 text; remembers the raw bytes of every data line."""

    def __init__(self, lines, r, extra=0):
        self.L, self.r, self.out, self.rawof, self.idx, self.extra = lines, r, [], {}, 0, extra
        self.style = r.choice(["upper", "upper", "upper", "lower", "spaced"])

    def hexline(self, raw):
        if self.style == "lower":
            return ":" + raw.hex() + "\n"
        if self.style == "spaced":
            return ": " + raw.hex(" ").upper() + "\n"
        return ":" + raw.hex().upper() + "\n"

    def marker(self, ty):
        tag = bytes(self.r.randrange(256) for _ in range(self.r.choice([0, 0, 0, 2])))
        self.idx = (self.idx + 1) & 0xFFFF
        return self.hexline(bytes([self.idx >> 8, self.idx & 255, ty, len(tag)]) + tag)

    def add(self, it):
        o = self.out
        if it["k"] == "cmt":
            o.append("##%s: %s\n" % (it["_name"], it["_value"]))
        elif it["k"] == "ins":
            n = it["name"]
            if n == "REBOOT":
                o.append("#>REBOOT\n")
            elif n == "SELECT":
                o.append("#>SELECT FILTER=%s\n" % hexs(it["bytes"], self.r))
            elif n == "CHECK_FWVER":
                o.append("#>CHECK_FWVER VERSIONDESC=%s\n" % ("*" if it["s"] == "*" else hexs(it["bytes"], self.r)))
            elif n == "SELECT_IF":
                o.append("#>SELECT_IF PROTOCOL=%s\n" % it["s"])
            else:
                raise MachineryError("printer: unknown instruction " + n)
        else:
            o.append(self.marker(0xFE))
            for (id0, n, ty, offs, ln) in it["runs"]:
                for i in range(id0, id0 + n):
                    self.idx = (self.idx + 1) & 0xFFFF
                    ex = bytes([sum(self.L.info[i][2]) & 255]) * self.extra
                    raw = self.L.raw(i, self.idx, ex)
                    self.rawof[i] = raw
                    o.append(self.hexline(raw))
            o.append(self.marker(0xFF))
        if self.r.random() < 0.03:
            o.append("\n")

    def text(self):
        return "".join(self.out)


def public(it):
    return {k: v for k, v in it.items() if not k.startswith("_")}


# ------------------------------------------------------------------ payload layouts
MAX_RUNS = 400          # per section: keeps events small and TLC's recursion shallow


def const_image(bt, size, ln):
    """image 0..size-1 cut into lines of constant size ln WITHOUT regard to pages: a line that starts in page n may end in
    page n+1 (flat address = page * 65536 + offset; the next line then has tag type +1 and a non-zero offset)"""
    return [(bt + (a >> 16), a & 0xFFFF, min(ln, size - a)) for a in range(0, size, ln)]


def image_from(bt, start, end, ln):
    """lines of constant size ln covering the flat addresses start..end-1 (type = bt + address // 65536, offset = address % 65536)"""
    return [(bt + (a >> 16), a & 0xFFFF, min(ln, end - a)) for a in range(start, end, ln)]


def gen_image_lines(r, L, bt, size, sizes="mix", straddle=None):
    """contiguous image 0..size-1 from tag type bt on, as a list of single lines (ty, offs, len) in address order.
    Lines come in stretches of equal length (they become one symbolic run).  straddle=False: every line is cut at the end
    of its 64 KiB page (a writer that works page by page); True: lines are cut by size only, so a line may start in one
    page and end in the next; None: either, at random."""
    out, a, nruns = [], 0, 0
    uni = r.randrange(1, 251)
    if straddle is None:
        straddle = r.random() < 0.5
    while a < size:
        if sizes == "uniform" or nruns >= MAX_RUNS:
            ln, rep = (uni if sizes == "uniform" else 250), 1 << 30
        elif sizes == "big":
            ln, rep = r.choice([250, 250, 249, 128, 200, r.randrange(100, 251)]), r.choice([1, 3, 40, 200, 400])
        elif sizes == "small":
            ln, rep = r.choice([1, 1, 2, 3, 3, 4, 5]), r.choice([1, 1, 2, 5, 30])
        else:
            ln = r.choice([1, 2, 3, 4, 16, 32, 64, 100, 128, 200, 249, 250, r.randrange(1, 251)])
            rep = r.choice([1, 1, 1, 2, 3, 10, 60])
        nruns += 1
        while rep > 0 and a < size:
            page, offs = divmod(a, 0x10000)
            room = (1 << 30) if straddle else 0x10000 - offs
            l2 = min(ln, size - a, room)
            if not L.plan(l2):
                l2 = min(3, size - a, room)
                if l2 < 3:                               # no unique short line left: the image ends here
                    return out
            if l2 != ln:
                nruns += 1
            out.append((bt + page, offs, l2))
            a += l2
            rep -= 1
    return out


def damage(r, lines, kind, top=0):
    """remove lines so that gaps / a non-zero start appear; returns the remaining lines (file order kept)"""
    n = len(lines)
    if kind == "none" or n < 2:
        return lines if kind != "nz1" else lines
    if kind == "nz":                                     # non-zero start
        return lines[r.randrange(1, max(2, min(n, 4))):]
    if kind == "gap-before-last":
        return lines[:n - 2] + lines[n - 1:] if n >= 3 else lines
    if kind == "gap-mid":
        k = r.randrange(1, n - 1) if n >= 3 else 1
        return lines[:k] + lines[k + 1:] if n >= 3 else lines
    if kind == "gaps":
        drop = set(r.sample(range(1, n), min(n - 1, r.choice([2, 2, 3, 4]))))
        rest = [l for i, l in enumerate(lines) if i not in drop]
        return rest
    if kind == "two-single-blocks":                      # A, gap, B, gap, C... (on a stretch of at most 60 lines)
        k = r.randrange(0, max(1, n - 60))
        return lines[:k] + [l for i, l in enumerate(lines[k:k + 60]) if i % 2 == 0] + lines[k + 60:]
    if kind in ("page-hole", "page-hole2", "page-back"):
        # the page field and the offset field disagree: from one line on every tag type is raised by one (two), so that the
        # hole is EXACTLY 65536 (131072) bytes and the 16-bit offsets continue as if nothing were missing; page-back: a
        # stretch in the middle is raised by one page, the lines behind it jump back by exactly 65536
        up = 2 if kind == "page-hole2" else 1
        if max(l[0] for l in lines) + up > top:
            return lines
        k = r.randrange(1, n)
        if kind == "page-back" and n >= 3:
            j = r.randrange(k + 1, n + 1)
            return lines[:k] + [(t + 1, o, l) for t, o, l in lines[k:j]] + lines[j:]
        return lines[:k] + [(t + up, o, l) for t, o, l in lines[k:]]
    if kind == "swap":                                   # out of order (sorting of blocks)
        k = r.randrange(1, n)
        return lines[k:] + lines[:k] if lines[k][0] == lines[0][0] else lines
    return lines


def to_runs(L, lines):
    """allocate ids; merge consecutive equally long contiguous lines of one tag type into runs"""
    runs = []
    i = 0
    while i < len(lines):
        ty, offs, ln = lines[i]
        n = 1
        while i + n < len(lines) and lines[i + n] == (ty, offs + n * ln, ln):
            n += 1
        runs.append(L.run(ty, offs, ln, n))
        i += n
    return runs


def split_groups(r, runs, mode):
    """BF2 groups (start marker .. end marker) over the runs of a section"""
    if not runs:
        return []
    if mode == "one":
        return [runs]
    groups, cur = [], [runs[0]]
    for x in runs[1:]:
        newpage = x[2] != cur[-1][2]
        if (mode == "page" and newpage) or (mode == "random" and (r.random() < 0.3 or (newpage and r.random() < 0.7))):
            groups.append(cur)
            cur = []
        cur.append(x)
    groups.append(cur)
    return groups


# ------------------------------------------------------------------ instruction operands
def gen_filter(r, comp_kind):
    """filter bytes.  comp_kind 'periph' prefers the forms a peripheral section accepts"""
    def entry(i, more=False, neg=False):
        return [(0x80 if more else 0) | (0x40 if neg else 0) | (i >> 8), i & 255]

    def anyid():
        return r.choice(KNOWN_IDS) if r.random() < 0.75 else r.choice([0x1234, 0x00F0, 0x3FFF, 0x0100, 0x0002])
    k = r.random()
    if comp_kind == "periph":
        if k < 0.55:
            return [1, 1] + entry(r.choice([0x9B, 0xAD, 0xC0, 0xBE, 0xBD, 0xB6, anyid()]))
        if k < 0.75:
            return r.choice([[1, 1, 0, 0xB6], [1, 2, 0x80, 0xB6, 0, 0xBE], [1, 2, 0x80, 0xBE, 0, 0xB6]])
        if k < 0.82:
            return [1, 1] + entry(anyid(), neg=True)
    if k < 0.05:
        return [1, 0]
    if k < 0.09:                                          # malformed header
        return r.choice([[2, 1, 0, 0x9B], [1, 2, 0, 0x9B], [1], [], [1, 1, 0, 0x9B, 0]])
    n = r.choice([1, 1, 2, 2, 3, 4, 5])
    f = [1, n]
    for j in range(n):
        more = j < n - 1 and r.random() < 0.45
        if j == n - 1 and r.random() < 0.04:
            more = True                                   # dangling continuation bit
        f += entry(anyid(), more, r.random() < 0.3)
    return f


def gen_versiondesc(r, bgm=False):
    k = r.random()
    if k < 0.15:
        return "*", []
    if k < 0.19:
        return "hex", [r.randrange(256) for _ in range(r.choice([0, 1, 2]))]          # too short
    n = r.choice([0, 1, 2, 3, 4, 4, 5, 7, 8])
    if bgm:
        n = r.choice([4, 7, 8, 9])
    # versions of 7+ bytes may be rendered as text (BGM): ASCII, or (rarely) with an FF that no text decoder accepts
    body = [r.randrange(0x30, 0x7B) if (bgm or n >= 7) else r.randrange(256) for _ in range(n)]
    if n >= 7 and not bgm and r.random() < 0.1:
        body[r.randrange(n)] = 0xFF
    dec = n if r.random() < 0.85 else n + r.choice([-1, 1, 3])                          # declared length may differ
    dec = max(0, min(255, dec))
    tail = [r.randrange(256) for _ in range(r.choice([0, 0, 2]))] if dec <= n else []
    if bgm:
        dec, tail = n, []
    return "hex", [r.randrange(256), r.randrange(256), dec] + body + tail


def gen_firmware(r):
    k = r.random()
    fid = "%04d" % r.choice([1100, 1096, 1053, 1, 9999, r.randrange(10000)])
    name = (" " + r.choice(["IDE ZY", "ID-engine", "SHARK M", "X", "BRP gen"]) + " " * 10)[:11]
    if k < 0.6:
        ver = "%d.%02d.%02d" % (r.randrange(10), r.randrange(100), r.randrange(100))
    elif k < 0.9:
        ver = "D-" + "%d.%02d" % (r.randrange(10), r.randrange(100)) + r.choice(["a", " ", "7"])
    elif k < 0.95:
        fid = r.choice(["11X0", "IDE ", "12.3"])
        ver = "1.02.03"
    else:
        ver = r.choice(["1.02.3x", "1.2     ", "300.1.1", "1..2.03"])[:7].ljust(7)
    return fid + name + ver + r.choice(["", " 2019-05-17", " build 77"])


def gen_crc(r):
    n = r.choice([8, 8, 8, 4, 1, 6])
    d = "".join(r.choice("0123456789ABCDEFabcdef") for _ in range(n))
    if r.random() < 0.03:
        d = r.choice(["", "XYZ1", "12G4"])
    return "0x" + d


# ------------------------------------------------------------------ whole files
def gen_file(r, tier="quick", big=None, small=False):
    """one BF2 layout: returns (items, Lines, enforce).  Sections are delimited the way the importer recognises
    them: by REBOOT, by a CHECK_FWVER while one is pending, by the next base-type group (then without instructions
    in between), or by the end of the file."""
    L = Lines()
    items = []
    defect = r.random() < 0.45
    if r.random() < (0.85 if defect else 0.97):
        items.append(cmt("Bf3Update", r.choice(["1", "yes", "BF3 1.0", "supported since 1.23"])))
    if r.random() < 0.75:
        items.append(cmt("Firmware", gen_firmware(r) if defect or r.random() < 0.5 else gen_firmware(r)))
    if r.random() < 0.6:
        items.append(cmt("Creator", r.choice(["fwpack 2.1", "BALTECH ToolSuite", "x"])))
    if r.random() < 0.4:
        items.append(cmt("Date", "2019-05-17"))
    r.shuffle(items)
    nsec = r.choice([1, 1, 2, 2, 3, 3, 4, 5]) if not small else r.choice([1, 1, 2, 3])
    prev_reboot, prev_pending, prev_ign = True, False, False
    for k in range(nsec):
        roll = r.random()
        nonbase = False
        if roll < 0.12:
            bt = r.choice(IGNORED)
        elif defect and roll < 0.17:
            bt = r.choice([0x50, 0x33, 0x3F, 0xA4, 0x74, 0x01])           # unknown tag type
        elif defect and roll < 0.21 and (prev_reboot or k == 0):
            bt = r.choice([0x35, 0x39, 0x40, 0x70, 0x84])
            nonbase = True
        else:
            bt = r.choice(MAPPED)
        ign = bt in IGNORED
        kind = "periph" if bt in PERIPH else "other"
        delimited = prev_reboot or prev_ign or k == 0
        free = delimited or prev_pending                 # may this section carry instructions in front of its data?
        pre, post = [], []
        has_ver = False
        if free and (not delimited or r.random() < 0.6):
            s, b = gen_versiondesc(r, bgm=(bt == 0x39 and r.random() < 0.7))
            if not defect and s == "hex" and len(b) < 3:
                s, b = "*", []
            pre.append(ins("CHECK_FWVER", s, b))
            has_ver = True
        if free:
            more = []
            if r.random() < 0.55:
                f = gen_filter(r, kind)
                if not defect and kind == "periph":
                    f = [1, 1, 0, r.choice([0x9B, 0xAD, 0xC0, 0xBE, 0xB6])]
                more.append(ins("SELECT", bytes_=f))
            if r.random() < (0.9 if bt in (0x70, 0x83) else 0.4):
                p = r.choice(PROTOCOLS + ["*"]) if r.random() < 0.82 else r.choice(["BRP-BLE", "RS485", "brp"])
                more.append(ins("SELECT_IF", p))
            if not ign and r.random() < 0.2:
                more.append(cmt("CRC", gen_crc(r)))
            if r.random() < 0.08:
                more.append(cmt("Firmware", gen_firmware(r)))
            r.shuffle(more)
            pre += more
        # payload
        if big and k == 0 and not ign:
            size, sizes = big
            size = min(size, PAGES.get(bt, 1) * 0x10000)
        else:
            size = r.choice([1, 2, 3, 7, 40, 250, 251, 600, 3000]) if r.random() < 0.8 else r.randrange(1, 9000)
            sizes = r.choice(["mix", "mix", "uniform", "small", "big"])
            if small:
                size, sizes = r.choice([1, 2, 3, 7, 20, 45]), r.choice(["small", "small", "mix"])
            elif PAGES.get(bt, 1) > 1 and r.random() < 0.15:
                size = 0x10000 + r.choice([-300, -1, 0, 1, 2, 251, 900])
                if PAGES.get(bt, 1) > 2 and r.random() < 0.3:
                    size += 0x10000                      # two page boundaries
                sizes = r.choice(["big", "mix"])
        lines = gen_image_lines(r, L, bt + (1 if nonbase else 0), size, sizes)
        if defect and r.random() < 0.45:
            lines = damage(r, lines, r.choice(["nz", "gap-before-last", "gap-before-last", "gap-mid", "gaps", "two-single-blocks", "swap",
                                               "page-hole", "page-hole", "page-hole2", "page-back"]),
                           top=bt + (1 if nonbase else 0) + PAGES.get(bt, 1) - 1 - (1 if nonbase else 0))
        if not lines:                                    # every section of the grammar carries data
            lines = [(bt + (1 if nonbase else 0), 0, 3)]
        runs = to_runs(L, lines)
        for g in split_groups(r, runs, r.choice(["page", "page", "one", "random"])):
            post.append(item("grp", runs=g))
        if not ign and r.random() < 0.25:
            post.append(cmt("CRC", gen_crc(r)))
        reboot = (not ign) and r.random() < 0.6
        if reboot:
            post.append(ins("REBOOT"))
        items += pre + post
        pend_now = has_ver or (prev_ign and prev_pending and not has_ver)
        prev_reboot, prev_ign = reboot, ign
        prev_pending = pend_now and not reboot
    enforce = r.random() < 0.7
    return items, L, enforce


# ------------------------------------------------------------------ running the real code
def exc_fields(e):
    return {"kind": "raise", "cls": type(e).__name__, "mro": [k.__name__ for k in type(e).__mro__]}


def why(e):
    """coarse reading of a rejection, for statistics only (never a verdict)"""
    c, m = type(e).__name__, str(e)
    if c == "UnsupportedLegacyFirmwareError":
        return "legacy-without-bf3update"
    if c == "UnsupportedTagTypeError":
        return "unsupported-tagtype"
    if c == "KeyError":
        return "loader-without-interface"
    if c == "IndexError":
        return "emit-without-data"
    if c == "UnicodeDecodeError":
        return "bgm-version-not-text"
    for pre, w in (("TagType", "unknown-tagtype"), ("Invalid BF2 Instruction", "invalid-instruction"), ("Invalid PlatformID2", "invalid-pfid2"),
                   ("BLOB tagtype", "blob-gap-or-nonzero-start"), ("Invalid PFID2 Filter", "invalid-filter-header")):
        if m.startswith(pre):
            return w
    return ""


def run_import(items, L, enforce, r, tid):
    extra = r.choice([0, 0, 1])
    pr = Bf2Text(L, r, extra)
    for it in items:
        pr.add(it)
    text = pr.text()
    ev = {"tid": tid, "op": "import", "items": [public(it) for it in items], "enforce": 1 if enforce else 0,
          "kind": "ok", "cls": "", "mro": [], "why": "", "comps": [], "comments": [], "bad": 0, "_text": text, "xn": extra_names()}
    try:
        f = Bf3File.bf2_import(io.StringIO(text)) if enforce else Bf3File.bf2_import(io.StringIO(text), False)
    except Exception as e:                                  # noqa: BLE001 -- the class is part of the record
        ev.update(exc_fields(e))
        ev["why"] = why(e)
        return ev
    for c in f.components:
        fmt = c.description.get(0xC1)
        if fmt == b"\x02":
            ids, bad = L.decode_raw(c.blob, pr.rawof)
        else:
            ids, bad = L.decode_payload(c.blob)
        ev["bad"] |= bad
        ev["comps"].append({"desc": [[int(t), list(v)] for t, v in sorted(c.description.items())], "ids": ids})
    ev["comments"] = [[chars(k), chars(v)] for k, v in f.comments.items()]
    ev["_cost"] = 1 + sum(len(it["runs"]) for it in items) // 20
    return ev


def real_lines(L, runs, r):
    """the library's own Bf2BinLine objects for the lines of `runs` (through parse_bf2_file)"""
    pr = Bf2Text(L, r, 0)
    pr.add(item("grp", runs=runs))
    objs = list(Bf3File.parse_bf2_file(io.StringIO(pr.text())))
    if len(objs) != 1 or objs[0][0] != "load":
        raise MachineryError("driver: parse_bf2_file did not deliver the group")
    return objs[0][1], pr


def run_direct(L, runs, r, tid0):
    """bf2_unpack_payload and bf2_convert_payload (three formats) on one section"""
    evs = []
    bl, pr = real_lines(L, runs, r)
    base = {"runs": [list(x) for x in runs], "kind": "ok", "cls": "", "mro": [], "ids": [], "blocks": [], "bad": 0}
    ev = dict(base, tid=tid0, op="unpack")
    try:
        blocks = Bf3File.bf2_unpack_payload(bl)
        for adr, data in sorted(blocks.items()):
            ids, bad = L.decode_payload(data)
            ev["bad"] |= bad
            ev["blocks"].append([adr, len(data), ids])
    except Exception as e:                                  # noqa: BLE001
        ev.update(exc_fields(e))
    evs.append(ev)
    for k, fmt in enumerate((0, 1, 2)):
        ev = dict(base, tid=tid0 + 1 + k, op="convert", fmt=fmt, blocks=[], ids=[])
        try:
            data = Bf3File.bf2_convert_payload(bl, fmt)
            if fmt == 0:
                ev["ids"], ev["bad"] = L.decode_payload(data)
            elif fmt == 2:
                ev["ids"], ev["bad"] = L.decode_raw(data, pr.rawof)
            else:
                ev["blocks"], ev["bad"] = L.decode_mem(data)
        except Exception as e:                              # noqa: BLE001
            ev.update(exc_fields(e))
        evs.append(ev)
    return evs


def gen_direct(r, big=None):
    L = Lines()
    bt = r.choice([0x35, 0x39, 0x40, 0x70, 0x84, 0x84])
    if big:
        size, sizes = big
        size = min(size, PAGES[bt] * 0x10000)
    else:
        size = r.choice([1, 2, 5, 12, 40, 300, 1000, 2500])
        sizes = r.choice(["mix", "uniform", "small", "big"])
        if PAGES[bt] > 1 and r.random() < 0.15:
            size = 0x10000 * r.choice([1, 1, 2]) + r.choice([-1, 0, 1, 300])
            size = min(size, PAGES[bt] * 0x10000)
            sizes = r.choice(["big", "big", "uniform"])
    lines = gen_image_lines(r, L, bt, size, sizes)
    lines = damage(r, lines, r.choice(["none", "nz", "gap-before-last", "gap-mid", "gaps", "gaps", "two-single-blocks", "swap",
                                       "page-hole", "page-hole", "page-hole2", "page-back"]), top=bt + PAGES[bt] - 1)
    return L, to_runs(L, lines)


# ------------------------------------------------------------------ character level: parse_bf2_file on small texts
def print_text(items, L, r):
    pr = Bf2Text(L, r, r.choice([0, 0, 1]))
    for it in items:
        pr.add(it)
    return pr.text()


def mutate_text(r, text):
    """one or two character-level changes (ASCII): the reader must parse the result the way the grammar says or fail"""
    t = list(text)
    for _ in range(r.choice([1, 1, 2])):
        if not t:
            break
        k = r.randrange(len(t))
        op = r.random()
        ch = r.choice(list("0123456789ABCDEFabcdefgXZ :,-./=#>*\t\r\n _"))
        if op < 0.4:
            t[k] = ch
        elif op < 0.65:
            t.insert(k, ch)
        elif op < 0.9:
            del t[k]
        else:
            del t[k:k + r.randrange(1, 12)]
    return "".join(t)


def run_parse(text, tid):
    ev = {"tid": tid, "op": "parse", "text": chars(text), "kind": "ok", "cls": "", "mro": [], "objs": [], "_text": text,
          "_cost": 1 + len(text) // 400}
    try:
        objs = list(Bf3File.parse_bf2_file(io.StringIO(text)))
    except Exception as e:                                  # noqa: BLE001
        ev.update(exc_fields(e))
        return ev
    for name, params in objs:
        if name == "load":
            ev["objs"].append({"k": "load", "name": [], "val": [], "params": [],
                               "lines": [[int(l.fwtagtype), int(l.fwtagndx), list(l.fwtag), list(l.rawdata)] for l in params]})
        elif isinstance(params, dict):
            ev["objs"].append({"k": "ins", "name": chars(name), "val": [], "params": [[chars(k), chars(v)] for k, v in params.items()], "lines": []})
        else:
            ev["objs"].append({"k": "cmt", "name": chars(name), "val": chars(params), "params": [], "lines": []})
    return ev
