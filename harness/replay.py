"""Generic `bin/check Cnn --replay <file>` for checks whose violations are rejected trace events (C01-C09, C14, C15):
the recorded call is RE-EXECUTED on /repo's current working tree where the event carries everything needed (serialise, write,
read, wrap, unwrap, crc), otherwise the recorded event itself is re-validated; the fresh event is judged by TLC with the same
trace specification.  Exit 1 if the violation reproduces, 0 if the event is now accepted."""
import io, json, os

from .common import SPEC, Scratch
from . import tlc, bf3lib as L

BEC2_CFG = ("INIT Init\nNEXT Next\nCONSTANTS SHORT_READ_OK = FALSE\nENC_NEVER_DECRYPTS = FALSE\nDEC_STRIPS_ZEROS = FALSE\nECC_FALLBACK_SEL0 = FALSE\n")


def _file_of(ev):
    comps = [L.mk_comp({t: bytes(v) for t, v in c["desc"]}, bytes(c["blob"]), c["alen"], c["enc"]) for c in ev["comps"]]
    cm = {"".join(map(chr, k)): "".join(map(chr, v)) for k, v in ev.get("comments", [])}
    return L.Bf3File(cm, comps)


def reexecute(ev, wd):
    op = ev.get("op")
    rec = L.Rec()
    try:
        if op == "bf3.to_binary":
            L.rec_to_binary(rec, _file_of(ev), ev["off"], bytes(ev["key"]))
        elif op == "bf3.write":
            L.rec_write(rec, _file_of(ev), bytes(ev["key"]), bool(ev["disk"]), wd)
        elif op == "bf3.read":
            auth = {"comps": ev["auth_comps"], "comments": ev["auth_comments"]} if ev.get("has_auth") else None
            L.rec_read(rec, "".join(map(chr, ev["text"])), bytes(ev["key"]), ev["check"], bool(ev["disk"]), wd, auth=auth)
        elif op in ("c08.wrap", "c08.unwrap"):
            from . import bec2lib as B2
            from .checks.c08 import rec_wrap, rec_unwrap
            enc, spec = B2.dec_cust(bytes(ev["key"]), bytes(ev["ck"]) or None, ev["pos"] if ev["ck"] else None)
            if op == "c08.wrap":
                rec_wrap(rec, enc, spec, bytes(ev["plain"]))
            else:
                rec_unwrap(rec, enc, spec, bytes(ev["c"]))
        elif op in ("crc", "step"):
            from bec2format.bec2file import crc8404B
            if op == "crc":
                rec.add({"op": "crc", "data": ev["data"], "start": ev["start"], "out": crc8404B(bytes(ev["data"]), ev["start"])})
            else:
                rec.add({"op": "step", "start": ev["start"], "b": ev["b"], "out": crc8404B(bytes([ev["b"]]), ev["start"])})
    except Exception as e:                                   # noqa: BLE001
        print("re-execution raised %s: %s (the recorded event is re-validated instead)" % (type(e).__name__, e))
    if rec.events:
        return rec.events[-1], True
    e2 = dict(ev)
    e2["tid"] = 1
    return e2, False


def replay(pid, path):
    d = json.load(open(path))
    ev = d.get("data")
    if not isinstance(ev, dict) or "op" not in ev:
        print("replay file carries no trace event (key %s): %s" % (d.get("key"), d.get("what")))
        return 1
    with Scratch("replay") as wd:
        ev2, fresh = reexecute(ev, wd)
        if ev2.get("op") in ("crc", "step"):
            mod, cfg = "Trace_CRC16.tla", "INIT Init\nNEXT Next\n"
        else:
            mod, cfg = "Trace_Bec2.tla", BEC2_CFG
        rej, _ = tlc.validate_trace(os.path.join(SPEC, mod), cfg, [ev2], wd, shards=1)
    how = "re-executed on the current tree" if fresh else "recorded event re-validated"
    if rej:
        print("VIOLATION property=%s replay=%s" % (pid, path))
        print("  %s (%s): %s still rejected by the specification: %s" % (d.get("key"), how, ev2.get("op"), rej[0][2]))
        return 1
    print("%s (%s): accepted by the specification now" % (d.get("key"), how))
    return 0
