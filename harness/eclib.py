"""Shared by C17 / C18: the tiny curves (constants of ECGroup.tla), builders that instantiate them with the
library's own CurveFp / PointJacobi / Curve, the OpenSSL command-line oracle, small DER helpers used to hand
crafted inputs to OpenSSL, and a runner for several trace validations side by side.

Nothing here computes an expected value for a tiny-curve event (TLC does); for the shipped curves the
expected value is what OpenSSL returns."""
import os, subprocess, shutil, itertools, threading, concurrent.futures as cf

from .common import MachineryError, SPEC
from . import tlc

# name: (p, a, b, gx, gy, n, h)   -- every constant is re-checked by TLC (ASSUMEs of MC_ECGroup)
TINY = {
    "T17": (17, 2, 2, 0, 6, 19, 1),      # p = 1 mod 8 (generic square root), n > p
    "T11": (11, 8, 1, 0, 1, 17, 1),      # a = p - 3, p = 3 mod 4, n > p
    "T13": (13, 0, 7, 7, 5, 7, 1),       # a = 0, p = 5 mod 8, n < p (x mod n matters)
    "T23": (23, 20, 15, 1, 6, 17, 1),    # a = p - 3, n < p
    "TH4": (19, 1, 17, 6, 7, 7, 4),      # cofactor 4, cyclic of order 28: points of order 4, 4n, 2n, 2 outside <G> (n*P of an order-4n point has y != 0)
    "T17L": (17, 2, 15, 0, 7, 19, 1),    # look-alike of T17: same p and a, other b (invalid-curve set-up); used as the FOREIGN curve only
    "T11L": (11, 8, 10, 2, 1, 7, 1),     # look-alike of T11
    "T13r": (13, 7, 6, 1, 1, 11, 1),     # n < p and x = n-1, x = 1 are abscissas of points: ECDSA r = n-1 and r = 1 occur (C18)
    "TH2": (11, 1, 1, 0, 1, 7, 2),       # cofactor 2: has the point (2, 0) of order 2 (public-key validation only)
}


def consts(name):
    return "CONSTANTS P=%d A=%d B=%d GX=%d GY=%d N=%d H=%d\n" % TINY[name]


def tiny_curve(name):
    """(CurveFp, generator PointJacobi(generator=True), Curve) built with the library's own classes"""
    from register_crypto_plugin.ecdsa.ellipticcurve import CurveFp, PointJacobi
    from register_crypto_plugin.ecdsa.curves import Curve
    p, a, b, gx, gy, n, h = TINY[name]
    c = CurveFp(p, a, b, h)
    g = PointJacobi(c, gx, gy, 1, n, generator=True)
    return c, g, Curve(name, c, g, None)


def tiny_points(name):
    """finite points of the tiny curve by the library's own contains_point (input enumeration)"""
    c = tiny_curve(name)[0]
    p = TINY[name][0]
    return [(x, y) for x in range(p) for y in range(p) if c.contains_point(x, y)]


def shipped():
    """the 17 short-Weierstrass curves of the library (Edwards curves excluded)"""
    from register_crypto_plugin.ecdsa import curves
    out = [c for c in curves.curves if not c.name.startswith("Ed")]
    if len(out) != 17:
        raise MachineryError("expected 17 short-Weierstrass curves, found %d" % len(out))
    return out


def mro(e):
    return "|".join(c.__name__ for c in type(e).__mro__ if c not in (BaseException, object))


# ------------------------------------------------------------------ OpenSSL oracle
_seq = itertools.count()


def require_openssl():
    exe = shutil.which("openssl")
    if not exe:
        raise MachineryError("openssl command line tool not found (oracle for the shipped curves)")
    try:
        v = subprocess.run([exe, "version"], capture_output=True, text=True, timeout=20)
        lst = subprocess.run([exe, "ecparam", "-list_curves"], capture_output=True, text=True, timeout=20).stdout
    except (OSError, subprocess.TimeoutExpired) as e:
        raise MachineryError("openssl does not run: %r" % (e,))
    if v.returncode != 0:
        raise MachineryError("openssl version failed")
    known = {l.split(":")[0].strip() for l in lst.splitlines() if ":" in l}
    missing = [c.name for c in shipped() if c.openssl_name not in known]
    if missing:
        raise MachineryError("openssl does not know the curves %s" % missing)
    return v.stdout.strip()


def ossl(args, inp=None, ok_rc=(0,)):
    """run `openssl args`; returns (rc, stdout, stderr).  rc outside ok_rc is NOT an error here (verdicts)."""
    try:
        r = subprocess.run(["openssl"] + list(args), input=inp, capture_output=True, timeout=60)
    except FileNotFoundError:
        raise MachineryError("openssl command line tool not found")
    except subprocess.TimeoutExpired:
        raise MachineryError("openssl timeout: %s" % " ".join(args))
    return r.returncode, r.stdout, r.stderr


def pmap(fn, items, workers=16):
    items = list(items)
    if not items:
        return []
    with cf.ThreadPoolExecutor(max_workers=workers) as ex:
        return list(ex.map(fn, items))


class Files:
    """unique scratch file names inside the check's Scratch directory"""

    def __init__(self, wd):
        self.dir = os.path.join(wd, "ossl")
        os.makedirs(self.dir, exist_ok=True)

    def put(self, data, tag="f"):
        p = os.path.join(self.dir, "%s%d" % (tag, next(_seq)))
        with open(p, "wb") as f:
            f.write(data)
        return p


# --- DER for OpenSSL's input, encoded here (independent of the library's der module, so that a defect there cannot
#     break the oracle); the only library data used is the curve's OID tuple and its order
# OIDs as published (SEC 2, ANSI X9.62, RFC 5639), keyed by OpenSSL's curve name: independent of the library
_OIDS = {
    "secp112r1": (1, 3, 132, 0, 6), "secp112r2": (1, 3, 132, 0, 7), "secp128r1": (1, 3, 132, 0, 28), "secp160r1": (1, 3, 132, 0, 8),
    "prime192v1": (1, 2, 840, 10045, 3, 1, 1), "secp224r1": (1, 3, 132, 0, 33), "prime256v1": (1, 2, 840, 10045, 3, 1, 7),
    "secp384r1": (1, 3, 132, 0, 34), "secp521r1": (1, 3, 132, 0, 35), "secp256k1": (1, 3, 132, 0, 10),
    "brainpoolP160r1": (1, 3, 36, 3, 3, 2, 8, 1, 1, 1), "brainpoolP192r1": (1, 3, 36, 3, 3, 2, 8, 1, 1, 3),
    "brainpoolP224r1": (1, 3, 36, 3, 3, 2, 8, 1, 1, 5), "brainpoolP256r1": (1, 3, 36, 3, 3, 2, 8, 1, 1, 7),
    "brainpoolP320r1": (1, 3, 36, 3, 3, 2, 8, 1, 1, 9), "brainpoolP384r1": (1, 3, 36, 3, 3, 2, 8, 1, 1, 11),
    "brainpoolP512r1": (1, 3, 36, 3, 3, 2, 8, 1, 1, 13),
}


def der_oid(arcs):
    body = bytes([40 * arcs[0] + arcs[1]])
    for a in arcs[2:]:
        chunk = [a & 0x7F]
        a >>= 7
        while a:
            chunk.append(0x80 | (a & 0x7F))
            a >>= 7
        body += bytes(reversed(chunk))
    return b"\x06" + der_len(len(body)) + body


def der_tlv(tag, body):
    return bytes([tag]) + der_len(len(body)) + body


def curve_oid(cv):
    return der_oid(_OIDS[cv.openssl_name])


def priv_der_nopub(cv, d):
    """SEC1 ECPrivateKey WITHOUT the optional public key, so that OpenSSL has to compute d*G itself"""
    L = (int(cv.order).bit_length() + 7) // 8
    return der_tlv(0x30, der_int(1) + der_tlv(0x04, int(d).to_bytes(L, "big")) + der_tlv(0xA0, curve_oid(cv)))


def spki(cv, point_bytes):
    """SubjectPublicKeyInfo (named curve) around arbitrary point bytes"""
    return der_tlv(0x30, der_tlv(0x30, der_oid((1, 2, 840, 10045, 2, 1)) + curve_oid(cv)) + der_tlv(0x03, b"\x00" + bytes(point_bytes)))


def der_int(v):
    """DER INTEGER of a non-negative int (independent of the library's encoder: input crafting for OpenSSL)"""
    b = v.to_bytes(max(1, (v.bit_length() + 8) // 8), "big")      # always a leading sign byte/bit 0
    while len(b) > 1 and b[0] == 0 and b[1] < 0x80:
        b = b[1:]
    return b"\x02" + der_len(len(b)) + b


def der_len(n):
    if n < 0x80:
        return bytes([n])
    s = n.to_bytes((n.bit_length() + 7) // 8, "big")
    return bytes([0x80 | len(s)]) + s


def der_sig(r, s):
    body = der_int(r) + der_int(s)
    return b"\x30" + der_len(len(body)) + body


def ossl_pub_raw(cv, k):
    """x||y of k*G computed by OpenSSL (1 <= k < n): public key of the private scalar k"""
    rc, out, err = ossl(["ec", "-inform", "DER", "-pubout", "-outform", "DER"], priv_der_nopub(cv, k))
    L = 2 * ((int(cv.curve.p()).bit_length() + 7) // 8)
    if rc != 0 or len(out) < L + 1 or out[-L - 1] != 4:
        raise MachineryError("openssl could not derive the public key on %s: %s" % (cv.name, err[-300:]))
    return out[-L:], out


def ossl_pubcheck(cv, point_bytes):
    """'accept' / 'reject': does OpenSSL load and validate SPKI(point_bytes)?"""
    rc, out, err = ossl(["pkey", "-pubin", "-inform", "DER", "-pubcheck", "-noout"], spki(cv, point_bytes))
    if rc == 0 and b"Key is valid" in out + err:
        return "accept"
    if rc != 0:
        return "reject"
    raise MachineryError("openssl pkey -pubcheck: unexpected answer rc=%d %r %r" % (rc, out[-200:], err[-200:]))


def ossl_verify(hname, pub_path, sig, msg, files, maxlen=None):
    """'accept' / 'reject' of `openssl dgst -<h> -verify`.
    `openssl dgst` reads at most EVP_PKEY_size bytes of the signature file (an over-long signature would be judged
    by its prefix) and refuses an empty file before verifying; those two input classes go to
    `openssl pkeyutl -verify`, which reads the whole file, with the digest computed by hashlib."""
    import hashlib
    sp = files.put(sig, "s")
    try:
        if len(sig) == 0 or (maxlen is not None and len(sig) > maxlen):
            rc, out, err = ossl(["pkeyutl", "-verify", "-pubin", "-inkey", pub_path, "-keyform", "DER", "-sigfile", sp],
                                getattr(hashlib, hname)(msg).digest())
            if rc == 0 and out.startswith(b"Signature Verified Successfully"):
                return "accept"
            if b"Signature Verification Failure" in out + err:
                return "reject"
            raise MachineryError("openssl pkeyutl -verify: unexpected answer rc=%d %r %r" % (rc, out[-200:], err[-300:]))
        rc, out, err = ossl(["dgst", "-" + hname, "-verify", pub_path, "-keyform", "DER", "-signature", sp], msg)
    finally:
        os.unlink(sp)
    if rc == 0 and out.startswith(b"Verified OK"):
        return "accept"
    if b"Could not read" in err or b"unable to load" in err or b"Could not find" in err:
        return "key-unreadable"          # the public key file (library output) is not a key for OpenSSL: a rejected event
    if b"Verification failure" in out + err or b"Error verifying data" in out + err or b"Verification Failure" in out + err:
        return "reject"
    raise MachineryError("openssl dgst -verify: unexpected answer rc=%d %r %r" % (rc, out[-200:], err[-300:]))


def ossl_sign(hname, priv_path, msg):
    rc, out, err = ossl(["dgst", "-" + hname, "-sign", priv_path, "-keyform", "DER"], msg)
    if rc != 0 or not out:
        raise MachineryError("openssl dgst -sign failed: %r" % err[-300:])
    return out


def ossl_derive(priv_path, peer_path):
    rc, out, err = ossl(["pkeyutl", "-derive", "-keyform", "DER", "-inkey", priv_path, "-peerform", "DER", "-peerkey", peer_path])
    if rc != 0 or not out:
        raise MachineryError("openssl pkeyutl -derive failed: %r" % err[-300:])
    return out


def pattern_scalars(ms, n=None):
    """scalar value classes with long runs / periodic bit patterns (input generation): 0x5555.., 0xAAAA.., 0x3333..,
    floor(2^m/3), /5, /7, 2^m -+ 2^k, all ones minus one bit, and fractions of the order"""
    out = set()
    for m in ms:
        if m < 3:
            continue
        ones = (1 << m) - 1
        out |= {ones // 3, (ones // 3) << 1, ones // 5, (ones // 5) << 2, (1 << m) // 3, (1 << m) // 5, (1 << m) // 7, (1 << m) // 3 - 1, (1 << m) // 3 + 1,
                ones ^ (1 << (m // 2)), ones ^ (1 << (m - 2)), ones - 1, (1 << m) - (1 << (m // 3)), (1 << m) + (1 << (m // 3)), (1 << m) + 1}
    if n:
        out |= {n // 2, n // 3, (n + 1) // 2, (n - 1) // 2, n // 5, 2 * n // 3, n // 3 + 1, (2 * n) // 3 + 1}
    return sorted(k for k in out if k > 0)


# ------------------------------------------------------------------ deterministic interruption (error-path histories)
class Interrupt(BaseException):
    """private exception raised by the trace function below: stands for KeyboardInterrupt / a time-out raised from a signal
    handler / MemoryError landing in the middle of a library call"""


def interrupted(code, N, fn):
    """Run fn() and raise Interrupt at the N-th 'line' event executed in frames of the code object `code` (N = 0: only
    count).  Deterministic: no signals, no wall clock.  -> (was it interrupted, line events seen, other exception or None)"""
    import sys
    from .sched import cleanup_lines
    cnt = [0]
    due = [False]

    def local(frame, event, arg):
        if event == "line":
            cnt[0] += 1
            if cnt[0] == N:
                due[0] = True
            # (never at the header line of a `with` or inside a `finally:` body - no real asynchronous exception lands between
            #  a clean-up and the statement it belongs to, see sched.cleanup_lines: raised at the next line instead)
            if due[0] and frame.f_lineno not in cleanup_lines(frame.f_code.co_filename):
                due[0] = False
                raise Interrupt()
        return local

    def glob(frame, event, arg):
        if frame.f_code is code:
            return local
        # a private helper of the same module called directly by the traced function is part of it (a construction moved
        # into a helper of its own is still the construction)
        b = frame.f_back
        nm = frame.f_code.co_name
        if (b is not None and b.f_code is code and frame.f_code.co_filename == code.co_filename
                and nm.startswith("_") and not nm.endswith("__")):
            return local
        return None
    old = sys.gettrace()
    sys.settrace(glob)
    try:
        try:
            fn()
        except Interrupt:
            return True, cnt[0], None
        except Exception as e:
            return False, cnt[0], e
        return False, cnt[0], None
    finally:
        sys.settrace(old)


def precompute_code():
    from register_crypto_plugin.ecdsa.ellipticcurve import PointJacobi
    fn = getattr(PointJacobi, "_maybe_precompute", None) or PointJacobi.__mul__     # (the construction has another name: the
    return fn.__code__                                                                #  whole multiplication is the region)


# ------------------------------------------------------------------ jobs in fresh interpreters (histories)
class LibraryFailure(Exception):
    """a history job died of an exception raised inside library code on input the job considers valid: a finding about the
    library (reported as a violation by the check), not a tool failure"""

    def __init__(self, job, cls, site, text):
        Exception.__init__(self, "%s: %s raised in %s" % (job, cls, site))
        self.job, self.cls, self.site, self.text = job, cls, site, text


def _library_failure(job, txt):
    import re
    from .common import REPO
    repo = os.path.realpath(REPO) + os.sep
    frames = re.findall(r'File "([^"]+)", line (\d+), in (\S+)', txt)
    last = [l for l in txt.strip().splitlines() if l and not l.startswith(" ")]
    if frames and last and os.path.realpath(frames[-1][0]).startswith(repo):
        fn, ln, func = frames[-1]
        site = "%s.%s" % (os.path.splitext(os.path.basename(fn))[0], func)
        return LibraryFailure(job, last[-1].split(":")[0].split(".")[-1], site, txt[-3000:])
    return None


def get_or_report(rep, pid, jobs, timeout):
    """results of FreshJobs `jobs`; a job killed by the library becomes a violation and contributes no events"""
    try:
        return list(jobs.get(timeout=timeout))
    except LibraryFailure as e:
        rep.violation("%s:valid-input:%s@%s" % (pid, e.cls, e.site),
                      "a library call on valid input made while recording a history failed (%s), job %s" % (e, e.job), {"traceback": e.text})
        return []


class FreshJobs:
    """Run module-level functions `module.func(arg)` each in a NEW python interpreter (nothing inherited from this process:
    no library state, no locks of other threads), concurrently; results come back pickled.  A job that fails is a
    MachineryError (recorders turn library deviations into events themselves)."""

    def __init__(self, wd, module, func, args_list):
        import sys, pickle, subprocess
        from .common import VERIF
        self.jobs = []
        os.makedirs(wd, exist_ok=True)
        for i, a in enumerate(args_list):
            fin, fout = os.path.join(wd, "job_%s_%d.in" % (func, i)), os.path.join(wd, "job_%s_%d.out" % (func, i))
            with open(fin, "wb") as f:
                pickle.dump(a, f)
            code = ("import sys, pickle; sys.path.insert(0, %r); from harness.common import repo_on_path; repo_on_path(); "
                    "import importlib; m = importlib.import_module(%r); r = getattr(m, %r)(pickle.load(open(%r, 'rb'))); "
                    "pickle.dump(r, open(%r, 'wb'))" % (VERIF, module, func, fin, fout))
            p = subprocess.Popen([sys.executable] + subprocess._args_from_interpreter_flags() + ["-c", code],
                                 stdout=subprocess.PIPE, stderr=subprocess.STDOUT, cwd=VERIF)      # same -O / -W flags as this run
            self.jobs.append((p, fout, "%s.%s[%d]" % (module, func, i)))

    def get(self, timeout=2400):
        import pickle, subprocess
        out = []
        for p, fout, name in self.jobs:
            try:
                txt = p.communicate(timeout=timeout)[0]
            except subprocess.TimeoutExpired:
                p.kill()
                raise MachineryError("history job %s timed out" % name)
            if p.returncode != 0 or not os.path.exists(fout):
                lf = _library_failure(name, txt.decode(errors="replace"))
                if lf is not None:
                    raise lf
                raise MachineryError("history job %s failed:\n%s" % (name, txt.decode(errors="replace")[-3000:]))
            with open(fout, "rb") as f:
                out.append(pickle.load(f))
        return out

    def terminate(self):
        for p, _, _ in self.jobs:
            if p.poll() is None:
                p.kill()


# ------------------------------------------------------------------ several trace validations side by side
def validate_many(jobs, wd, total_shards=16, timeout=1500):
    """jobs: list of (label, module_name, cfg_text, events).  Runs tlc.validate_trace for all jobs concurrently,
    sharing ~total_shards single-worker JVMs in proportion to the event counts.
    Returns {label: (rejections, stats)}."""
    jobs = [j for j in jobs if j[3]]
    cost = lambda evs: sum(e.get("_cost", 1) for e in evs) + 2000          # + JVM start
    tot = sum(cost(j[3]) for j in jobs) or 1
    res = {}

    def one(j):
        label, mod, cfg, evs = j
        sh = max(1, min(total_shards, round(total_shards * cost(evs) / tot)))
        return label, tlc.validate_trace(os.path.join(SPEC, mod + ".tla"), cfg, evs, os.path.join(wd, "tv_" + label),
                                         shards=sh, timeout=timeout)

    with cf.ThreadPoolExecutor(max_workers=max(1, len(jobs))) as ex:
        for label, r in ex.map(one, jobs):
            res[label] = r
    return res
