import sys, os, argparse, importlib, traceback

from .common import MachineryError, repo_on_path


ENV_FLAGS = ["-O", "-W", "error::DeprecationWarning"]
PURE_TEXT = ("C12", "C10", "C15")


def second_pass(pid, tier, cache):
    """The same check once more in ANOTHER INTERPRETER MODE: python -O (assert statements are not compiled: a check that lives in
    an assert is gone) with DeprecationWarnings as errors (a deprecated call on a normal path becomes an exception).  The
    implementation-independent TLC runs (model checking, case generation) are taken from the first pass; everything that
    touches the implementation is recorded and judged again.  Its coverage summary is added to the evidence of the first pass."""
    import subprocess, json, tempfile
    from .common import VERIF
    evdir = tempfile.mkdtemp(prefix="verif_pass2_")
    env = dict(os.environ)
    env.update({"VERIF_ENVPASS": " ".join(ENV_FLAGS), "VERIF_TLC_CACHE": cache, "VERIF_EVIDENCE_FILE": os.path.join(evdir, pid + ".json")})
    if pid in PURE_TEXT:
        # checks that do no file I/O also run their second pass in the bare C locale without UTF-8 mode: text handling must
        # not depend on the process's preferred encoding
        env.update({"LC_ALL": "C", "LANG": "C", "PYTHONUTF8": "0", "PYTHONCOERCECLOCALE": "0", "PYTHONIOENCODING": "utf-8"})
    p = subprocess.run([sys.executable] + ENV_FLAGS + ["-m", "harness.main", pid, "--tier", tier], cwd=VERIF, env=env)
    try:
        outbase = os.environ.get("VERIF_OUT", VERIF)
        evp = os.path.join(outbase, "evidence", pid + ".json")
        ev = json.load(open(evp))
        try:
            ev2 = json.load(open(os.path.join(evdir, pid + ".json")))
            c2 = ev2["coverage"]
            ev["coverage"]["parts"]["second pass: python " + " ".join(ENV_FLAGS)] = {
                "kind": "the whole check repeated in another interpreter mode (TLC runs that do not depend on the implementation re-used)",
                "exit": p.returncode, "violations": ev2.get("violations"), "impl_events": c2.get("traces_validated_against_impl"),
                "states": c2.get("states"), "wall_s": ev2.get("wall_s"), "known_findings_seen": c2.get("known_findings_seen")}
            ev["violations"] = (ev.get("violations") or 0) + (ev2.get("violations") or 0)
        except Exception as e:                               # noqa: BLE001
            ev["coverage"]["parts"]["second pass: python " + " ".join(ENV_FLAGS)] = {"exit": p.returncode, "evidence": "not written: %s" % e}
        with open(evp, "w") as f:
            json.dump(ev, f, indent=1, default=str)
    finally:
        import shutil
        shutil.rmtree(evdir, ignore_errors=True)
    return p.returncode


def main():
    ap = argparse.ArgumentParser()
    ap.add_argument("pid")
    ap.add_argument("--tier", default=os.environ.get("VERIF_TIER", "quick"), choices=["quick", "thorough"])
    ap.add_argument("--replay", default=None)
    a = ap.parse_args()
    repo_on_path()
    mod = importlib.import_module("harness.checks." + a.pid.lower())
    try:
        if a.replay:
            try:
                import json as _json
                fl = _json.load(open(a.replay)).get("python_flags") or ""
            except Exception:                                # noqa: BLE001
                fl = ""
            if fl and os.environ.get("VERIF_ENVPASS") is None:
                # the violation was found in the second pass: replay it in the same interpreter mode
                env = dict(os.environ, VERIF_ENVPASS=fl)
                os.execve(sys.executable, [sys.executable] + fl.split() + ["-m", "harness.main", a.pid, "--tier", a.tier, "--replay", a.replay], env)
            if hasattr(mod, "replay"):
                sys.exit(mod.replay(a.replay))
            from .replay import replay as generic_replay
            sys.exit(generic_replay(a.pid, a.replay))
        # process-wide prelude of legitimately failing library calls (see errpaths.failing_calls): the recorded events
        # are then judged in a process where earlier calls have failed
        from . import errpaths, report as _report
        _report.PRELUDE = errpaths.failing_calls()
        second = os.environ.get("VERIF_ENVPASS") is None and os.environ.get("VERIF_SECOND_PASS", "1") != "0"
        cache = None
        if second:
            import tempfile
            cache = tempfile.mkdtemp(prefix="verif_tlccache_")
            os.environ["VERIF_TLC_CACHE"] = cache
        try:
            rep = mod.run(a.tier)
            rc = rep.finish()
            if second and rc == 0:
                rc = second_pass(a.pid, a.tier, cache)
        finally:
            if cache:
                import shutil
                shutil.rmtree(cache, ignore_errors=True)
        sys.exit(rc)
    except (MachineryError, Exception) as e:
        from . import report
        if not isinstance(e, MachineryError):
            traceback.print_exc()
        print("MACHINERY-ERROR %s: %s" % (a.pid, e if isinstance(e, MachineryError) else "unexpected exception in the harness"), file=sys.stderr)
        # violations already established against the real code are still reported (a later self-test or a harness step
        # may fail BECAUSE the code is broken); without any violation a machinery failure is exit 2, never an alarm
        rep = report.CURRENT[-1] if report.CURRENT else None
        if rep is not None and rep.violations:
            rep.cov.setdefault("parts", {})["machinery_error_after_violations"] = str(e)[:300]
            if rep.finish() == 1:
                sys.exit(1)
        sys.exit(2)


main()
