import sys, os, argparse, importlib, traceback

from .common import MachineryError, repo_on_path


def main():
    ap = argparse.ArgumentParser()
    ap.add_argument("pid")
    ap.add_argument("--tier", default=os.environ.get("VERIF_TIER", "quick"), choices=["quick", "thorough"])
    ap.add_argument("--replay", default=None)
    a = ap.parse_args()
    repo_on_path()
    mod = importlib.import_module("harness.checks." + a.pid.lower())
    try:
        if a.replay:
            if hasattr(mod, "replay"):
                sys.exit(mod.replay(a.replay))
            from .replay import replay as generic_replay
            sys.exit(generic_replay(a.pid, a.replay))
        # process-wide prelude of legitimately failing library calls (see errpaths.failing_calls): the recorded events
        # are then judged in a process where earlier calls have failed
        from . import errpaths, report as _report
        _report.PRELUDE = errpaths.failing_calls()
        rep = mod.run(a.tier)
        sys.exit(rep.finish())
    except (MachineryError, Exception) as e:
        from . import report
        if not isinstance(e, MachineryError):
            traceback.print_exc()
        print("MACHINERY-ERROR %s: %s" % (a.pid, e if isinstance(e, MachineryError) else "unexpected exception in the harness"), file=sys.stderr)
        # violations already established against the real code are still reported (a later self-test or a harness step
        # may fail BECAUSE the code is broken); without any violation a machinery failure is exit 2, never an alarm
        rep = report.CURRENT[-1] if report.CURRENT else None
        if rep is not None and rep.violations:
            rep.cov.setdefault("parts", {})["machinery_error_after_violations"] = str(e)[:300]
            if rep.finish() == 1:
                sys.exit(1)
        sys.exit(2)


main()
