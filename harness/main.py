import sys, os, argparse, importlib, traceback

from .common import MachineryError, repo_on_path


def main():
    ap = argparse.ArgumentParser()
    ap.add_argument("pid")
    ap.add_argument("--tier", default=os.environ.get("VERIF_TIER", "quick"), choices=["quick", "thorough"])
    ap.add_argument("--replay", default=None)
    a = ap.parse_args()
    repo_on_path()
    mod = importlib.import_module("harness.checks." + a.pid.lower())
    try:
        if a.replay:
            sys.exit(mod.replay(a.replay))
        rep = mod.run(a.tier)
        sys.exit(rep.finish())
    except MachineryError as e:
        print("MACHINERY-ERROR %s: %s" % (a.pid, e), file=sys.stderr)
        sys.exit(2)
    except Exception:
        traceback.print_exc()
        print("MACHINERY-ERROR %s: unexpected exception in the harness" % a.pid, file=sys.stderr)
        sys.exit(2)


main()
