import os, sys, json, time, random, shutil, tempfile

VERIF = os.path.dirname(os.path.dirname(os.path.abspath(__file__)))
REPO = os.environ.get("VERIF_REPO", "/repo")
SPEC = os.path.join(VERIF, "spec")
GUARD = "BEC2FORMAT_VERIF"


def repo_on_path():
    """Import the library from /repo's working tree (never a copy)."""
    for p in (os.path.join(REPO, "appnotes"), REPO):
        if p not in sys.path:
            sys.path.insert(0, p)
    sys.dont_write_bytecode = True
    os.environ[GUARD] = "1"


def seed():
    try:
        return int(os.environ.get("VERIF_SEED", "0"))
    except ValueError:
        return 0


def rng(tag=""):
    return random.Random("%d/%s" % (seed(), tag))


class Scratch:
    """Per-run scratch directory, removed on exit (nothing is kept under /tmp)."""

    def __init__(self, tag):
        self.tag = tag

    def __enter__(self):
        self.path = tempfile.mkdtemp(prefix="verif_%s_" % self.tag)
        return self.path

    def __exit__(self, *a):
        if not os.environ.get("VERIF_KEEP"):
            shutil.rmtree(self.path, ignore_errors=True)


def B(x):
    """bytes -> list of ints for JSON/TLA+"""
    return list(x)


class MachineryError(Exception):
    """Tool failure (TLC crash, timeout, missing oracle): exit code 2, never a VIOLATION."""
