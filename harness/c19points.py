"""Input selection for C19: curve points in value classes that no search over scalars reaches, constructed from the curve
equation y^2 = x^3 + a x + b (mod p) with plain integer arithmetic (nothing from the library's point code):

    x = 0 (where b is a square), the smallest x, the largest x (p-1 downwards), the smallest y and p - (smallest y).

Only (p, a, b, n, h) of the curve are read from the library's curve object.  Whether such a point is a valid public key
is confirmed by `openssl pkey -pubcheck` in the check; the expected encodings come from the TLA+ specification."""


def sqrt_mod(a, p):
    """a square root of a modulo the odd prime p, or None (Tonelli-Shanks)"""
    a %= p
    if a == 0:
        return 0
    if pow(a, (p - 1) // 2, p) != 1:
        return None
    if p % 4 == 3:
        return pow(a, (p + 1) // 4, p)
    q, s = p - 1, 0
    while q % 2 == 0:
        q //= 2
        s += 1
    z = 2
    while pow(z, (p - 1) // 2, p) != p - 1:
        z += 1
    m, c, t, r = s, pow(z, q, p), pow(a, q, p), pow(a, (q + 1) // 2, p)
    while t != 1:
        i, t2 = 0, t
        while t2 != 1:
            t2 = t2 * t2 % p
            i += 1
        b = pow(c, 1 << (m - i - 1), p)
        m, c, t, r = i, b * b % p, t * b * b % p, r * b % p
    return r


# ---- polynomials over F_p as coefficient lists, low -> high
def _trim(a, p):
    a = [c % p for c in a]
    while a and a[-1] == 0:
        a.pop()
    return a


def _mod(a, f, p):
    a, f = _trim(a, p), _trim(f, p)
    inv = pow(f[-1], -1, p)
    while len(a) >= len(f):
        c = a[-1] * inv % p
        s = len(a) - len(f)
        for k in range(len(f)):
            a[s + k] = (a[s + k] - c * f[k]) % p
        a = _trim(a, p)
    return a


def _mulmod(a, b, f, p):
    prod = [0] * (len(a) + len(b) - 1) if a and b else []
    for i, ai in enumerate(a):
        for j, bj in enumerate(b):
            prod[i + j] = (prod[i + j] + ai * bj) % p
    return _mod(prod, f, p)


def _powmod(base, e, f, p):
    result = [1]
    base = _mod(base, f, p)
    while e:
        if e & 1:
            result = _mulmod(result, base, f, p)
        base = _mulmod(base, base, f, p)
        e >>= 1
    return result


def _gcd(a, b, p):
    a, b = _trim(a, p), _trim(b, p)
    while b:
        a, b = b, _mod(a, b, p)
    if a:
        inv = pow(a[-1], -1, p)
        a = [c * inv % p for c in a]
    return a


def cubic_roots(f, p):
    """all roots in F_p of the monic cubic f = [f0, f1, f2, 1]"""
    xp = _powmod([0, 1], p, f, p)                         # x^p mod f
    g = _gcd(f, _trim([(xp[0] if xp else 0), (xp[1] if len(xp) > 1 else 0) - 1, (xp[2] if len(xp) > 2 else 0)], p) or f, p)
    roots = []

    def split(h, seed):
        h = _trim(h, p)
        if len(h) <= 1:
            return
        if len(h) == 2:
            roots.append((-h[0]) * pow(h[1], -1, p) % p)
            return
        if len(h) == 3:
            i2a = pow(2 * h[2], -1, p)
            s = sqrt_mod(h[1] * h[1] - 4 * h[2] * h[0], p)
            if s is not None:
                roots.extend(sorted({(-h[1] + s) * i2a % p, (-h[1] - s) * i2a % p}))
            return
        for c in range(seed, seed + 64):                  # three roots: split by (x + c)^((p-1)/2) - 1
            w = _powmod([c, 1], (p - 1) // 2, h, p)
            w = _trim([(w[0] if w else 0) - 1] + list(w[1:]), p)
            d = _gcd(h, w, p) if w else []
            if 1 < len(d) < len(h):
                split(d, c + 1)
                # h / d by long division
                quo = [0] * (len(h) - len(d) + 1)
                inv = pow(d[-1], -1, p)
                q = list(h)
                for k in range(len(quo) - 1, -1, -1):
                    cc = q[k + len(d) - 1] * inv % p
                    quo[k] = cc
                    for j in range(len(d)):
                        q[k + j] = (q[k + j] - cc * d[j]) % p
                split(quo, c + 1)
                return
    split(g, 1)
    return sorted(r for r in set(roots) if (((r + f[2]) * r + f[1]) * r + f[0]) % p == 0)


# ---- affine arithmetic, used only to keep points of the prime-order subgroup on curves with a cofactor
def _add(P, Q, a, p):
    if P is None:
        return Q
    if Q is None:
        return P
    x1, y1 = P
    x2, y2 = Q
    if x1 == x2 and (y1 + y2) % p == 0:
        return None
    lam = (3 * x1 * x1 + a) * pow(2 * y1, -1, p) % p if P == Q else (y2 - y1) * pow(x2 - x1, -1, p) % p
    x3 = (lam * lam - x1 - x2) % p
    return x3, (lam * (x1 - x3) - y1) % p


def _mul(k, P, a, p):
    R = None
    while k:
        if k & 1:
            R = _add(R, P, a, p)
        P = _add(P, P, a, p)
        k >>= 1
    return R


def special_points(p, a, b, n, h):
    """[(class name, x, y)]: both square roots for every x found; for the y classes y and p - y"""
    a %= p
    b %= p

    def in_group(x, y):
        return h == 1 or _mul(n, (x, y), a, p) is None

    def ys(x):
        y = sqrt_mod((x * x * x + a * x + b) % p, p)
        return None if y is None else sorted({y, (p - y) % p})
    out = []
    r = ys(0)
    if r and all(in_group(0, y) for y in r):
        out += [("x-zero/y-%s" % ("even" if y % 2 == 0 else "odd"), 0, y) for y in r]
    for name, xs in (("x-smallest", range(1, 4000)), ("x-largest", range(p - 1, p - 4000, -1))):
        for x in xs:
            r = ys(x)
            if r and all(in_group(x, y) for y in r):
                out += [("%s/y-%s" % (name, "even" if y % 2 == 0 else "odd"), x, y) for y in r]
                break
    for y in range(1, 4000):
        xs = [x for x in cubic_roots([(b - y * y) % p, a, 0, 1], p) if in_group(x, y)]
        if xs:
            out.append(("y-smallest", xs[0], y))
            out.append(("y-largest", xs[0], p - y))
            break
    return out
