"""Projection of library objects to the abstract state used by the specs (one
function, both directions of binding), generators of BF3 contents, and
recorders of the public calls as trace events."""
import io, os

from .common import repo_on_path, B

repo_on_path()
import bec2format                                     # noqa: E402
import register_crypto_plugin                         # noqa: E402,F401  (registers pyaes/ecdsa back ends)
from bec2format import Bf3File, Bf3Component, Bec2File  # noqa: E402
from bec2format.bf3file import BF3_FILE_SIG, DEFAULT_SESSION_KEY  # noqa: E402

ZERO_KEY = bytes(16)          # (value; gen_key hands out the library's own constant OBJECT and equal fresh objects)


def chars(s):
    return [ord(c) for c in s]


def _attrs(c):
    return (tuple((int(t), bytes(v)) for t, v in c.description.items()), bytes(c.blob), c.actual_len, bool(c.encrypt_by_session_key))


def proj_comp(c):
    # a component made by mk_comp and not edited since is projected from the ARGUMENTS of its constructor (the content the
    # caller handed over), not from what the constructor stored: a constructor that alters the content must not vouch for itself
    it = getattr(c, "_verif_intent", None)
    if it is not None and _attrs(c) == it[1]:
        return dict(it[0])
    return {"desc": [[int(t), B(v)] for t, v in c.description.items()], "blob": B(c.blob),
            "alen": int(c.actual_len), "enc": bool(c.encrypt_by_session_key)}


def proj_comments(cm):
    return [[chars(k), chars(v)] for k, v in cm.items()]


def proj_file(f):
    return {"comments": proj_comments(f.comments), "comps": [proj_comp(c) for c in f.components]}


def poison(f):
    """The caller owns what a call returned: after its content has been recorded, the returned object is EDITED IN PLACE (tags
    added and changed, comments changed, blobs replaced) and dropped.  Nothing a later call returns may show these edits - if it
    does, the library handed out an object it still uses (a cached or class-level dict, a memoised result)."""
    try:
        for c in f.components:
            d = c.description
            for t in list(d):
                d[t] = b"\xEE" + bytes(d[t])
            d[0xEE] = b"poisoned"
            d[0xC5] = b"\x00"
            d[0xC2] = b"\x00"
            c.blob = b"\xEE" * (len(c.blob) or 1)
            c.encrypt_by_session_key = not c.encrypt_by_session_key
        f.comments["Poisoned"] = "yes"
        for k in list(f.comments):
            f.comments[k] = "poisoned " + str(f.comments[k])
        f.components.append(mk_comp({0xEE: b"poisoned"}, b"\xEE"))
    except Exception:                                     # noqa: BLE001 -- immutable containers etc.: nothing to poison
        pass


def exc_info(e):
    return {"cls": type(e).__name__, "mro": [k.__name__ for k in type(e).__mro__], "msg": str(e)[:200]}


def mk_comp(desc, blob, alen=None, enc=False):
    c = Bf3Component(dict(desc), bytes(blob), alen, enc)
    intent = {"desc": [[int(t), B(v)] for t, v in desc.items()], "blob": B(blob), "alen": int(alen or len(blob)), "enc": bool(enc)}
    try:
        c._verif_intent = (intent, _attrs(c))
    except Exception:                                     # noqa: BLE001 -- e.g. __slots__: fall back to the stored attributes
        pass
    return c


def reformat(r, text, mode=None):
    """The same file in another legal text layout of the hex part (the reader removes white space and the separators
    , - . / : and accepts both cases): lower / mixed case, other line widths (odd ones too), separators between bytes."""
    idx = 0
    while True:
        nl = text.find("\n", idx)
        if nl < 0:
            return text
        if nl == idx:
            break
        idx = nl + 1
    head, digits = text[:idx + 1], "".join(text[idx + 1:].split())
    mode = mode or r.choice(["lower", "mixed", "width", "seps", "oneline", "crlf"])
    eol = "\n"
    if mode == "lower":
        digits, w = digits.lower(), 80
    elif mode == "mixed":
        digits, w = "".join(ch.lower() if r.random() < 0.5 else ch for ch in digits), 80
    elif mode == "width":
        w = r.choice([1, 2, 7, 64, 75, 81, 160])
    elif mode == "oneline":
        w = max(1, len(digits))
    elif mode == "crlf":
        w, eol = 80, "\r\n"
    else:
        sep = r.choice([" ", ",", "-", ".", "/", ":", "\t", " : "])
        digits = sep.join(digits[i:i + 2] for i in range(0, len(digits), 2))
        w = 16 * (2 + len(sep))
    return head + "".join(digits[i:i + w] + eol for i in range(0, len(digits), w))


# ----------------------------------------------------------------- generators
SAFE_CHARS = [chr(c) for c in range(33, 127) if chr(c) != ":"] + list("äßéЖ€") + [" ", "\t"]


def gen_comment_text(r, key=False):
    n = r.choice([0, 1, 1, 2, 5, 12, 30]) if not key else r.choice([0, 1, 3, 8, 15])
    s = "".join(r.choice(SAFE_CHARS) for _ in range(n))
    if not key:
        s = s.strip()
        if ":" not in s and r.random() < 0.2:
            s = s[:len(s) // 2] + ":" + s[len(s) // 2:]       # values may contain ':'
    return s


def gen_comments(r):
    cm = {}
    for _ in range(r.choice([0, 0, 1, 2, 3, 5])):
        cm[gen_comment_text(r, key=True)] = gen_comment_text(r)
    return cm


def gen_payload(r, n=None):
    if n is None:
        n = r.choice([1, 2, 15, 16, 17, 31, 32, 33, 39, 40, 41, 47, 48, 49, 64, 79, 80, 81, 100, 130]) if r.random() < 0.7 else r.randrange(1, 131)
    kind = r.random()
    if kind < 0.15:
        return bytes(n)
    b = bytearray(r.randrange(256) for _ in range(n))
    if kind < 0.5:
        z = min(n, r.choice([1, 2, 3, 15, 16, 17]))
        b[n - z:] = bytes(z)
    return bytes(b)


def gen_desc(r, budget=210):
    d = {}
    mode = r.random()
    if mode < 0.25:
        return d
    ntags = r.choice([1, 1, 2, 3, 5, 8])
    for _ in range(ntags):
        t = r.randrange(256) if r.random() < 0.7 else r.choice([0, 0xC1, 0xC2, 0xC3, 0xC5, 0xFF])
        if t in d:
            continue
        maxlen = budget - 2
        if maxlen < 0:
            break
        ln = min(maxlen, r.choice([0, 1, 1, 2, 4, 7, 16, 60]) if r.random() < 0.9 else maxlen)
        v = bytes(r.randrange(256) for _ in range(ln))
        if t in (0xC1, 0xC2, 0xC3, 0xC4, 0xC5, 0xC6) and r.random() < 0.7 and maxlen >= 3:
            # tags the library interprets: values that are NUMERICALLY one of its constants but not the one-byte constant
            # (leading / trailing zero bytes), and the constants themselves - to the format these are just tag values
            k = r.choice([0, 1, 2, 3])
            v = r.choice([bytes([k]), b"\x00" + bytes([k]), b"\x00\x00" + bytes([k]), bytes([k]) + b"\x00", b""])
            ln = len(v)
        if t == 0xC2 and v == b"\x02":
            v = b"\x00"                      # plain components only here; encrypted ones are generated explicitly
        d[t] = v
        budget -= 2 + ln
    return d


def gen_plain_comp(r):
    blob = gen_payload(r)
    alen = None if r.random() < 0.5 else r.randrange(1, len(blob) + 1)
    return mk_comp(gen_desc(r), blob, alen)


def gen_key(r):
    k = r.random()
    if k < 0.25:
        # the documented default key: the library's constant object itself, or an equal object made here (b"".join defeats
        # constant folding / interning) - identity must not matter
        return DEFAULT_SESSION_KEY if r.random() < 0.5 else b"".join([bytes(8), bytes(8)])
    b = bytearray(r.randrange(256) for _ in range(16))
    if k < 0.45:
        z = r.choice([1, 2, 3])
        b[16 - z:] = bytes(z)
    return bytes(b)


def gen_bf3(r, max_comps=3):
    n = r.choice([0, 1, 1, 2, 2, 3])
    return Bf3File(gen_comments(r), [gen_plain_comp(r) for _ in range(min(n, max_comps))])


# ----------------------------------------------------------------- recorders
class Rec:
    def __init__(self):
        self.events = []
        self.tid = 0
        self.last_written = None

    def add(self, ev):
        self.tid += 1
        ev["tid"] = self.tid
        self.events.append(ev)
        return ev


def _entry_fits(f):
    return all(45 + sum(2 + len(v) for v in c.description.values()) <= 255 for c in f.components)


def keyform(rec, key):
    """the session key handed over as bytes / bytearray / memoryview in turn (all three are accepted by the library; the
    recorded event carries the VALUE, so the specification demands the same result for each)"""
    return (bytes, bytearray, memoryview)[rec.tid % 3](key)


def rec_to_binary(rec, f, off, key, **extra):
    pj = proj_file(f)["comps"]
    try:
        # call forms: positional, keyword, and - when the value IS the documented default - the argument omitted
        form = rec.tid % 4
        if key == ZERO_KEY and off == 0 and form in (0, 1):
            out = f.to_binary()
        elif key == ZERO_KEY and form in (0, 1):
            out = f.to_binary(off)
        elif form == 2:
            out = f.to_binary(session_key=keyform(rec, key), offset=off)
        else:
            out = f.to_binary(off, keyform(rec, key))
    except Exception as e:                                # noqa: BLE001
        if isinstance(e, OverflowError) and not _entry_fits(f):
            raise                                          # the writer refuses an entry longer than 255 bytes: legitimate
        # the specification defines the bytes of this content: a refusal is recorded as an event with no output (rejected by TLC)
        ev = {"op": "bf3.to_binary", "comps": pj, "off": off, "key": B(key), "out": [], "exc": exc_info(e)}
        ev.update(extra)
        return rec.add(ev), b""
    # the content is projected BEFORE the call: the layout is a function of what the caller handed in (a writer that edits the
    # object while serialising it must not be judged against its own edit)
    ev = {"op": "bf3.to_binary", "comps": pj, "off": off, "key": B(key), "out": B(out)}
    ev.update(extra)
    return rec.add(ev), out


def write_text(f, key, disk, scratch, form=0):
    dflt = bytes(key) == ZERO_KEY and form % 2 == 0          # the documented default session key: argument omitted
    kw = form % 4 == 3
    if disk:
        p = os.path.join(scratch, "w.bf3")
        # the path already holds a LONGER file (an older, bigger version; here with a recognisable marker): writing replaces it
        with open(p, "w") as fh:
            fh.write("Old: file\n\n" + "5A" * 40 + "\n" + ("DEADBEEF" * 10 + "\n") * (40 + form % 7 * 300))
        if dflt:
            f.write_file(p)
        elif kw:
            f.write_file(bf3file=p, session_key=key)
        else:
            f.write_file(p, key)
        with open(p, "rb") as fh:
            return fh.read().decode("utf-8")
    s = io.StringIO()
    if dflt:
        f.write_file(s)
    elif kw:
        f.write_file(bf3file=s, session_key=key)
    else:
        f.write_file(s, key)
    return s.getvalue()


def rec_write(rec, f, key, disk, scratch):
    pj = proj_file(f)
    try:
        text = write_text(f, keyform(rec, key), disk, scratch, rec.tid)
    except Exception as e:                                # noqa: BLE001
        if isinstance(e, OverflowError) and not _entry_fits(f):
            raise
        rec.add({"op": "bf3.write", "comments": pj["comments"], "comps": pj["comps"], "key": B(key), "text": [], "disk": 1 if disk else 0,
                 "exc": exc_info(e)})
        return ""                                         # later reads of the empty text are rejected by code and specification alike
    rec.last_written = pj                                  # (projection taken before the call)
    rec.add({"op": "bf3.write", "comments": pj["comments"], "comps": pj["comps"], "key": B(key),
             "text": chars(text), "disk": 1 if disk else 0})
    return text


def read_text(text, key, check, disk, scratch, form=3):
    src = io.StringIO(text)
    if disk:
        src = os.path.join(scratch, "r.bf3")
        with open(src, "wb") as fh:
            fh.write(text.encode("utf-8"))
    dk, dc = bytes(key) == ZERO_KEY, check is True          # documented defaults: zero key, MAC checking on
    if form % 3 == 1:
        check = int(bool(check))                            # an equal value of another type (1 / 0): same behaviour
    if dk and dc and form % 4 == 0:
        return Bf3File.read_file(src)
    if dk and form % 4 == 1:
        return Bf3File.read_file(src, check)
    if form % 4 == 2:
        return Bf3File.read_file(bf3file=src, session_key=key, check_cmac=check)
    return Bf3File.read_file(src, check, key)


def rec_read(rec, text, key, check, disk, scratch, auth=None, **extra):
    ev = {"op": "bf3.read", "text": chars(text), "key": B(key), "check": bool(check), "disk": 1 if disk else 0,
          "kind": "ok", "comps": [], "comments": [], "has_auth": 0, "auth_comps": [], "auth_comments": []}
    try:
        g = read_text(text, keyform(rec, key), check, disk, scratch, rec.tid)
        pj = proj_file(g)
        ev["comps"], ev["comments"] = pj["comps"], pj["comments"]
        poison(g)
    except BaseException as e:                                  # noqa: BLE001 -- the class is part of the record
        if isinstance(e, (KeyboardInterrupt, SystemExit)):
            raise
        ev["kind"] = "raise"
        ev["exc"] = exc_info(e)
    if auth is not None:
        ev["has_auth"] = 1
        ev["auth_comps"], ev["auth_comments"] = auth["comps"], auth["comments"]
    ev.update(extra)
    return rec.add(ev)
