"""Black-box exploration of the real reader-writer lock (C20), used when the lock's internal structure is not the one
the white-box refinement walk expects (other primitives, other attributes, more or fewer locks, lazily made locks, ...).

Nothing here looks at attribute names.  A private copy of the module is loaded for every run while `import threading`
yields the controlled factory (sched.FakeThreading: Lock, RLock, Condition, Semaphore, Event; also those made when the
module is loaded), R reader and W writer threads run  X_acquire(); <critical section>; X_release()  `passes` times under
the controlled scheduler, and ALL interleavings at primitive-operation granularity are explored (depth-first, replay
from the start, states identified by: every primitive's state, the object graph reachable from the RWLock instance and
its classes, every thread's phase / pending operation / position and simple locals inside the module).

What is recorded is only what a user of the lock can observe: who holds the lock before and after a step in which a
thread enters or leaves its critical section, states in which nobody can run although not everybody is done, exceptions
out of the lock code.  These observations are judged by TLC (spec/Trace_RWLockAbs.tla against spec/RWLockAbs.tla).

Scheduling points are the operations on synchronisation primitives and, with lines=True, also every source line of
the lock module that reads or writes shared state (all controlled threads run under sys.settrace): races on counters
and flags BETWEEN two lock operations (e.g. a test of the light-switch counter after its mutex has been released) are
explored as well.

For code that uses something the scheduler cannot control there is a fallback with real, pre-emptively scheduled threads
and bounded waits (randomised, not exhaustive)."""
import sys, dis, time, random, threading, _thread, itertools

from . import sched
from .common import MachineryError

_SIMPLE = (int, bool, str, float, type(None))
_counter = itertools.count()
_WRITES = {"STORE_ATTR", "STORE_SUBSCR", "STORE_GLOBAL", "DELETE_ATTR", "DELETE_SUBSCR", "DELETE_GLOBAL"}
_PRIM_METHODS = {"acquire", "release", "wait", "wait_for", "notify", "notify_all", "notifyAll", "set", "clear", "is_set", "locked",
                 "Lock", "RLock", "Condition", "Semaphore", "BoundedSemaphore", "Event"}
_line_cache = {}


def shared_lines(code):
    """source lines of `code` that are scheduling points of the line-level exploration: lines that WRITE an attribute /
    item / global, and lines that READ an attribute other than on the way into a call of a synchronisation primitive
    (that call is a scheduling point of its own).  Lines that only work on locals cannot be observed by other threads
    (partial-order reduction)."""
    r = _line_cache.get(code)
    if r is None:
        per, line = {}, None
        for ins in dis.get_instructions(code):
            if ins.starts_line is not None:
                line = ins.starts_line
            per.setdefault(line, []).append(ins)
        r = set()
        for line, ins in per.items():
            if line is None:
                continue
            names = [i.opname for i in ins]
            if _WRITES & set(names):
                r.add(line)
                continue
            attrs = [i.argval for i in ins if i.opname in ("LOAD_ATTR", "LOAD_METHOD")]
            if attrs and not (attrs[-1] in _PRIM_METHODS and not any(n.startswith(("COMPARE", "IS_OP", "CONTAINS", "POP_JUMP")) for n in names)):
                r.add(line)
        _line_cache[code] = r
    return r


class BlackRW:
    _idents = {}
    _pidx = {}

    def __init__(self, path, R, W, passes, lines=False):
        self.R, self.W, self.passes, self.path, self.lines = R, W, passes, path, lines
        self.sched = sched.Scheduler()
        self.ft = sched.FakeThreading(self.sched)
        self.inside = set()
        self.closed = False
        self._locals = []           # threading.local objects reachable from the lock (found after construction)
        self.sched.park_hook = self._thread_local_state
        try:
            self.module = sched.load_under_factory(path, "c20_blackbox_copy_%d" % next(_counter), self.ft)
            self.rw = self.module.RWLock()
            self._locals = find_thread_locals(self.rw, self.module)
            for tid in range(1, R + W + 1):
                self.sched.start(tid, self._reader if tid <= R else self._writer)
        except BaseException:
            self.close()
            raise

    # ---- line-level scheduling inside the lock module (every controlled thread runs under sys.settrace)
    def _tracer(self, frame, event, arg):
        if event == "call" and frame.f_code.co_filename == self.path and shared_lines(frame.f_code):
            return self._line_tracer
        return None

    def _line_tracer(self, frame, event, arg):
        if event == "line" and frame.f_lineno in shared_lines(frame.f_code):
            self.sched.park("line", None)       # (SchedAbort out of here unwinds the thread when the run is abandoned)
        return self._line_tracer

    def _cycle(self, w, acq, rel):
        if self.lines:
            sys.settrace(self._tracer)
        try:
            self._cycle1(w, acq, rel)
        finally:
            if self.lines:
                sys.settrace(None)

    def _cycle1(self, w, acq, rel):
        w.left = self.passes
        while w.left > 0:
            w.phase = "acq"
            acq()
            w.phase = "cs"
            self.inside.add(w.tid)
            self.sched.park("cs", None)
            self.inside.discard(w.tid)
            w.phase = "rel"
            rel()
            w.left -= 1
        w.phase = "done"

    def _reader(self, w):
        self._cycle(w, self.rw.reader_acquire, self.rw.reader_release)

    def _writer(self, w):
        self._cycle(w, self.rw.writer_acquire, self.rw.writer_release)

    # ---- observation
    def _thread_local_state(self, w):
        """runs IN the worker thread at every scheduling point: what this thread sees in the thread-local objects"""
        if not self._locals:
            return None
        return tuple((i, tuple(sorted((k, repr(self._snap(v, frozenset(), 0))) for k, v in vars(o).items())),
                      tuple(sorted((k, repr(getattr(o, k, None))) for k in dir(type(o))
                                   if not k.startswith("__") and not callable(getattr(type(o), k, None)))))
                     for i, o in enumerate(self._locals))

    def holders(self):
        return (tuple(sorted(t for t in self.inside if t <= self.R)), tuple(sorted(t for t in self.inside if t > self.R)))

    def _snap(self, o, seen, depth):
        if isinstance(o, int) and not isinstance(o, bool) and o in self._idents:
            return ("thread", self._idents[o])      # a thread ident stored by the code: differs from run to run
        if isinstance(o, _SIMPLE):
            return o
        if isinstance(o, threading.local):
            return ("thread-local", type(o).__name__)   # its per-thread content is part of each thread's state (below)
        if isinstance(o, sched.CLock):
            return ("prim", self._pidx.get(id(o), -1))
        if id(o) in seen or depth > 8:
            return ("...",)
        seen = seen | {id(o)}
        if isinstance(o, (list, tuple)):
            return tuple(self._snap(x, seen, depth + 1) for x in o)
        if isinstance(o, (set, frozenset)):
            return ("set", tuple(sorted(repr(self._snap(x, seen, depth + 1)) for x in o)))
        if isinstance(o, dict):
            return ("dict", tuple(sorted((repr(self._snap(k, seen, depth + 1)), repr(self._snap(v, seen, depth + 1))) for k, v in o.items())))
        d = getattr(o, "__dict__", None)
        if d is None or callable(o) or isinstance(o, type(sys)):
            return ("obj", type(o).__name__)
        cls = []
        for k in type(o).__mro__:
            if getattr(k, "__module__", None) == self.module.__name__:
                cls += [(n, repr(self._snap(v, seen, depth + 1))) for n, v in vars(k).items()
                        if not n.startswith("__") and not callable(v) and not isinstance(v, (staticmethod, classmethod, property))]
        return ("obj", type(o).__name__, tuple(sorted((n, repr(self._snap(v, seen, depth + 1))) for n, v in d.items())), tuple(sorted(cls)))

    def key(self):
        """identity of the complete state (for the search only; nothing of it is judged)"""
        self._pidx = {id(p): i for i, p in enumerate(self.ft.made)}
        self._idents = {w.thread.ident: t for t, w in self.sched.workers.items()}
        prims = tuple(p.state() for p in self.ft.made)
        frames = sys._current_frames()
        thr = []
        for tid in range(1, self.R + self.W + 1):
            w = self.sched.workers[tid]
            op, pr = w.pending
            pos = []
            f = frames.get(w.thread.ident) if op not in ("done", "crashed", "aborted") else None
            while f is not None:
                if f.f_code.co_filename == self.path:
                    loc = tuple(sorted((k, v if isinstance(v, _SIMPLE) else self._snap(v, frozenset(), 6) if isinstance(v, sched.CLock) else type(v).__name__)
                                       for k, v in f.f_locals.items() if k != "self"))
                    pos.append((f.f_code.co_name, f.f_lineno, loc))
                f = f.f_back
            thr.append((w.phase, w.left, op if op != "crashed" else "crashed:" + str(pr),
                        self._pidx.get(id(pr), -1) if pr is not None and op != "crashed" else -1, tuple(pos), w.local_state))
        mods = tuple(sorted((n, repr(self._snap(v, frozenset(), 0))) for n, v in vars(self.module).items()
                            if not n.startswith("_") and not callable(v) and not isinstance(v, type(sys)) and not isinstance(v, sched.FakeThreading)))
        return (prims, tuple(thr), self._snap(self.rw, frozenset(), 0), mods, self.holders())

    def status(self):
        """("run", runnable) / ("done",) / ("deadlock", blocked threads) / ("exception", text)"""
        crashed = [(t, w.pending[1]) for t, w in self.sched.workers.items() if w.pending[0] == "crashed"]
        if crashed:
            return ("exception", "thread %d: %s" % crashed[0])
        run = self.sched.runnable()
        if run:
            return ("run", sorted(run))
        if all(w.pending[0] == "done" for w in self.sched.workers.values()):
            return ("done",)
        return ("deadlock", [(t, w.phase, w.pending[0]) for t, w in sorted(self.sched.workers.items()) if w.pending[0] != "done"])

    def step(self, tid):
        self.sched.step(tid)

    def close(self):
        if not self.closed:
            self.closed = True
            self.sched.abort_all()


def find_thread_locals(root, module=None, limit=2000):
    """threading.local objects reachable from `root` (instance attributes, class attributes of the module's classes)"""
    out, seen, todo = [], set(), [root]
    while todo and len(seen) < limit:
        o = todo.pop()
        if id(o) in seen or isinstance(o, _SIMPLE) or isinstance(o, sched.CLock):
            continue
        seen.add(id(o))
        if isinstance(o, threading.local):
            out.append(o)
            continue
        if isinstance(o, (list, tuple, set, frozenset)):
            todo += list(o)
        elif isinstance(o, dict):
            todo += list(o.values())
        elif hasattr(o, "__dict__") and not callable(o) and not isinstance(o, type(sys)):
            todo += list(vars(o).values())
            for k in type(o).__mro__:
                if module is None or getattr(k, "__module__", None) == getattr(module, "__name__", None):
                    todo += [v for n, v in vars(k).items() if not n.startswith("__") and not callable(v)]
    return out


def explore(path, R, W, passes=1, max_states=60000, budget_s=600.0, lines=False):
    """all interleavings of R readers and W writers.  Returns a dict:
    steps: {(op, t, readers_before, writers_before, readers_after, writers_after): (count, example schedule)}
    deadlocks / exceptions: [(schedule, detail)], max_readers_together, states, transitions, complete, uncontrolled"""
    res = {"steps": {}, "deadlocks": [], "exceptions": [], "max_readers": 0, "states": 0, "transitions": 0, "runs": 0,
           "complete": True, "uncontrolled": set(), "mix": "%dR+%dW x %d%s" % (R, W, passes, " [line level]" if lines else ""), "R": R, "W": W}
    seen, stack, t0 = set(), [[]], time.time()
    while stack:
        sch = stack.pop()
        run = BlackRW(path, R, W, passes, lines)
        res["runs"] += 1
        try:
            before = run.holders()
            for i, t in enumerate(sch):
                if i == len(sch) - 1:
                    before = run.holders()
                run.step(t)
            fresh_edge = bool(sch)
            while True:
                if fresh_edge:
                    res["transitions"] += 1
                    after = run.holders()
                    t = sch[-1]
                    if after != before:
                        kind = "r" if t <= R else "w"
                        op = ("acquire_" if len(after[0]) + len(after[1]) > len(before[0]) + len(before[1]) else "release_") + kind
                        k = (op, t, before[0], before[1], after[0], after[1])
                        c = res["steps"].get(k)
                        res["steps"][k] = (c[0] + 1, c[1]) if c else (1, list(sch))
                        res["max_readers"] = max(res["max_readers"], len(after[0]))
                key = run.key()
                if key in seen:
                    break
                seen.add(key)
                st = run.status()
                if st[0] == "exception":
                    if len(res["exceptions"]) < 5:
                        res["exceptions"].append((list(sch), st[1]))
                    break
                if st[0] == "deadlock":
                    if len(res["deadlocks"]) < 5:
                        res["deadlocks"].append((list(sch), st[1]))
                    break
                if st[0] == "done":
                    break
                if len(seen) >= max_states or time.time() - t0 > budget_s:
                    res["complete"] = False
                    stack = []
                    break
                nxt = st[1]
                for t in reversed(nxt[1:]):
                    stack.append(sch + [t])
                before = run.holders()
                sch = sch + [nxt[0]]
                run.step(nxt[0])
                fresh_edge = True
            res["uncontrolled"] |= run.ft.uncontrolled
        finally:
            run.close()
    res["states"] = len(seen)
    res["wall_s"] = round(time.time() - t0, 2)
    return res


def real_thread_runs(module, R, W, passes, runs, seed, wait_s=30.0):
    """Fallback for code the scheduler cannot control: the real module, real pre-emptively scheduled threads, random
    delays, bounded waits.  Same observations as explore() (randomised, not exhaustive)."""
    rnd = random.Random(seed)
    res = {"steps": {}, "deadlocks": [], "exceptions": [], "max_readers": 0, "states": 0, "transitions": 0, "runs": 0,
           "complete": False, "uncontrolled": set(), "mix": "%dR+%dW x %d (real threads)" % (R, W, passes), "R": R, "W": W}
    old = sys.getswitchinterval()
    sys.setswitchinterval(1e-5)
    try:
        for n in range(runs):
            rw = module.RWLock()
            guard, inside, errors = _thread.allocate_lock(), set(), []
            delays = {t: [rnd.random() * 0.0004 for _ in range(3 * passes)] for t in range(1, R + W + 1)}

            def body(t):
                try:
                    for p in range(passes):
                        time.sleep(delays[t][3 * p])
                        (rw.reader_acquire if t <= R else rw.writer_acquire)()
                        with guard:
                            b = (tuple(sorted(x for x in inside if x <= R)), tuple(sorted(x for x in inside if x > R)))
                            inside.add(t)
                            a = (tuple(sorted(x for x in inside if x <= R)), tuple(sorted(x for x in inside if x > R)))
                            k = ("acquire_" + ("r" if t <= R else "w"), t, b[0], b[1], a[0], a[1])
                            c = res["steps"].get(k)
                            res["steps"][k] = (c[0] + 1, c[1]) if c else (1, ["run %d" % n])
                            res["max_readers"] = max(res["max_readers"], len(a[0]))
                        time.sleep(delays[t][3 * p + 1])
                        with guard:
                            b = (tuple(sorted(x for x in inside if x <= R)), tuple(sorted(x for x in inside if x > R)))
                            inside.discard(t)
                            a = (tuple(sorted(x for x in inside if x <= R)), tuple(sorted(x for x in inside if x > R)))
                            k = ("release_" + ("r" if t <= R else "w"), t, b[0], b[1], a[0], a[1])
                            c = res["steps"].get(k)
                            res["steps"][k] = (c[0] + 1, c[1]) if c else (1, ["run %d" % n])
                        (rw.reader_release if t <= R else rw.writer_release)()
                except BaseException as e:
                    errors.append("thread %d: %s: %s" % (t, type(e).__name__, e))
            ts = [threading.Thread(target=body, args=(t,), daemon=True) for t in range(1, R + W + 1)]
            for t in ts:
                t.start()
            end = time.time() + wait_s
            for t in ts:
                t.join(max(0.0, end - time.time()))
            res["runs"] += 1
            res["transitions"] += 2 * passes * (R + W)
            if errors:
                res["exceptions"].append((["run %d" % n], errors[0]))
                break
            if any(t.is_alive() for t in ts):
                res["deadlocks"].append((["run %d" % n], "threads still blocked after %.0f s" % wait_s))
                break
    finally:
        sys.setswitchinterval(old)
    return res


def events(res, tid0=0):
    """observations -> events for Trace_RWLockAbs"""
    evs, tid = [], tid0
    base = {"mix": res["mix"], "nr": res["R"], "nw": res["W"]}
    for (op, t, r1, w1, r2, w2), (cnt, sch) in sorted(res["steps"].items()):
        tid += 1
        evs.append(dict(base, tid=tid, op=op, t=t, rd1=list(r1), wr1=list(w1), rd2=list(r2), wr2=list(w2), n=cnt, _schedule=sch))
    for kind, lst in (("deadlock", res["deadlocks"]), ("exception", res["exceptions"])):
        for sch, detail in lst[:3]:
            tid += 1
            evs.append(dict(base, tid=tid, op=kind, t=0, rd1=[], wr1=[], rd2=[], wr2=[], n=len(sch), _schedule=sch, _detail=str(detail)))
    tid += 1
    evs.append(dict(base, tid=tid, op="overlap", t=0, rd1=[], wr1=[], rd2=[], wr2=[], n=res["max_readers"], _schedule=[]))
    return evs
