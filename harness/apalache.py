"""Apalache runner for the inductive-invariant arguments about the two models of check C20:
the reader-writer lock (spec/RWLockInd.tla, RWLockInd.md) and the lazily built table / in-place rescaling
(spec/LazyTableInd.tla, LazyTableInd.md; see check_lazytable_inductive below).

    check_rwlock_inductive(workdir, R, W, timeout) -> {ok, steps: [{name, cmd, rc, seconds, cpu_s, outcome, ...}], refuted_selftest}
    check_lazytable_inductive(workdir, N, timeout, binding) -> same shape
    python -m harness.apalache [--ablate] R W            prints that dict as JSON (exit 0 proved / 1 refuted / 2 machinery)
    python -m harness.apalache [--ablate] lazytable N

What is run (all output, including Apalache's SANY scratch directories, stays inside `workdir`; no network):

  Apalache, constants R, W from a generated cfg
    base       Init => IndInv                           --init=Init     --inv=IndInv --length=0
    step       IndInv /\\ Next => IndInv'                --init=IndInit  --inv=IndInv --length=1
    implies    IndInv => Mutex /\\ ReleaseHeld /\\ NoDeadlock /\\ CountersOK
                                                        --init=IndInit  --inv=Safety --length=0
    self-tests (each MUST be refuted, else the machinery is vacuous)
    selftest-step-noexcl      IndInv is not inductive for BadNextNoExcl (writer skips no_writers)
    selftest-step-noqueuerel  IndInv is not inductive for BadNextNoQueueRel (reader keeps readers_queue)
    selftest-implies          IndInv without its no_writers conjunct does not imply Safety

  TLC, independent of R and W: spec/MC_RWLockIndEq.tla binds RWLockInd.tla (a typed restatement, RWLock.tla
  itself is not typeable by Apalache) to RWLock.tla
    binding-all       the two modules agree on every state of 1 reader + 1 writer that satisfies the
                      local conjunct Roles (955 719 states, reachable or not)
    binding-reach     and on the reachable states of 2 readers + 2 writers x 2 passes
    binding-selftest  a restatement with one action disabled is told apart (must be refuted)

A genuine refutation of base/step/implies is NOT an exception: ok = False and the step carries `counterexample` (path
of Apalache's violation1.tla inside workdir) and `cti` (the states, readable after workdir is gone).  Tool trouble
(timeout, parse or type error, unexpected exit code, binding broken) raises MachineryError.
"""
import os, re, sys, json, time, glob, signal, threading, subprocess, concurrent.futures as cf

from . import tlc
from .common import SPEC, MachineryError

APALACHE = "apalache-mc"
IND = os.path.join(SPEC, "RWLockInd.tla")
EQ = os.path.join(SPEC, "MC_RWLockIndEq.tla")
EQ_INVS = "StepEq NextEq EnabledEq PropEq InitEq"
CONJUNCTS = ["Roles", "OwnQueue", "OwnRMutex", "OwnWMutex", "Counters", "Edges", "GateNW", "GateNR"]

# name, expected outcome, extra arguments
PLAN = [
    ("base", "NoError", ["--init=Init", "--inv=IndInv", "--length=0"]),
    ("step", "NoError", ["--init=IndInit", "--inv=IndInv", "--length=1"]),
    ("implies", "NoError", ["--init=IndInit", "--inv=Safety", "--length=0"]),
    ("selftest-step-noexcl", "Error", ["--init=IndInit", "--next=BadNextNoExcl", "--inv=IndInv", "--length=1"]),
    ("selftest-step-noqueuerel", "Error", ["--init=IndInit", "--next=BadNextNoQueueRel", "--inv=IndInv", "--length=1"]),
    ("selftest-implies", "Error", ["--init=WeakInit", "--inv=Safety", "--length=0"]),
]


def _un(x):
    """ITF JSON value -> python"""
    if isinstance(x, dict):
        if "#bigint" in x:
            return int(x["#bigint"])
        if "#map" in x:
            return {str(_un(k)): _un(v) for k, v in x["#map"]}
        if "#set" in x:
            return sorted(_un(v) for v in x["#set"])
        if "#tup" in x:
            return [_un(v) for v in x["#tup"]]
        return {k: _un(v) for k, v in x.items() if not k.startswith("#")}
    if isinstance(x, list):
        return [_un(v) for v in x]
    return x


def _cti(run_dir):
    """states of Apalache's first counterexample + the violated formula"""
    out = {"states": [], "violated": None}
    p = os.path.join(run_dir, "violation1.itf.json")
    if os.path.exists(p):
        with open(p) as f:
            j = json.load(f)
        vs = list(j.get("params", [])) + list(j.get("vars", []))      # (symbolic constants are part of a counterexample)
        out["states"] = [{v: _un(s[v]) for v in vs if v in s} for s in j.get("states", [])]
    p = os.path.join(run_dir, "violation1.tla")
    if os.path.exists(p):
        with open(p) as f:
            t = f.read()
        m = re.search(r"InvariantViolation ==\n?(.*?)\n\n?====", t, re.S)
        if m:
            out["violated"] = " ".join(m.group(1).split())[:1500]
    return out


def _run_measured(cmd, cwd, env, timeout):
    """-> (exit code, output, wall seconds, cpu seconds of the child incl. its threads) ; None exit code on timeout"""
    log = os.path.join(cwd, "log_%d_%d.txt" % (os.getpid(), threading.get_ident()))
    t0 = time.time()
    with open(log, "w") as f:
        p = subprocess.Popen(cmd, cwd=cwd, env=env, stdout=f, stderr=subprocess.STDOUT, start_new_session=True)
    timed_out = []

    def kill():
        timed_out.append(1)
        try:
            os.killpg(p.pid, signal.SIGKILL)
        except OSError:
            pass
    timer = threading.Timer(timeout, kill)
    timer.start()
    try:
        _, status, ru = os.wait4(p.pid, 0)
    finally:
        timer.cancel()
    p.returncode = os.waitstatus_to_exitcode(status)
    with open(log, errors="replace") as f:
        out = f.read()
    os.unlink(log)
    return (None if timed_out else p.returncode), out, time.time() - t0, ru.ru_utime + ru.ru_stime


def run_apalache(name, spec, cfg, args, workdir, timeout, xmx="4g"):
    """One `apalache-mc check` (cfg: path of a TLC cfg file with the constants, or None).
    -> step dict; outcome in {"NoError", "Error"}; anything else raises MachineryError."""
    out_dir = os.path.join(workdir, "out_" + name)
    tmp = os.path.join(workdir, "tmp")
    os.makedirs(tmp, exist_ok=True)
    cmd = [APALACHE, "check"] + (["--config=" + cfg] if cfg else []) + ["--out-dir=" + out_dir] + list(args) + [spec]
    env = dict(os.environ)
    env.pop("JAVA_TOOL_OPTIONS", None)
    env["JVM_ARGS"] = "-Xmx" + xmx
    env["TMPDIR"] = tmp              # the launcher makes its SANY scratch directory with mktemp -t
    try:
        rc, out, wall, cpu = _run_measured(cmd, workdir, env, timeout)
    except OSError as e:
        raise MachineryError("cannot run %s: %s" % (APALACHE, e))
    if rc is None:
        raise MachineryError("Apalache timeout after %ss in step %s: %s" % (timeout, name, " ".join(cmd)))
    m = re.search(r"The outcome is: (\w+)", out)
    outcome = m.group(1) if m else None
    step = {"name": name, "cmd": "JVM_ARGS=-Xmx%s " % xmx + " ".join(cmd), "rc": rc, "seconds": round(wall, 1), "cpu_s": round(cpu, 1),
            "outcome": outcome}
    if (outcome, rc) == ("NoError", 0):
        return step
    if (outcome, rc) == ("Error", 12):
        runs = sorted(glob.glob(os.path.join(out_dir, "*", "*", "violation1.tla")))
        if not runs:
            raise MachineryError("Apalache step %s reports an error without a counterexample:\n%s" % (name, out[-2000:]))
        step["counterexample"] = runs[-1]
        step["cti"] = _cti(os.path.dirname(runs[-1]))
        return step
    raise MachineryError("Apalache step %s failed (exit %s, outcome %s): %s\n%s" % (name, rc, outcome, " ".join(cmd),
                                                                                    "\n".join(out.splitlines()[-25:])))


def _binding(name, cfg_text, workdir, timeout, workers, expect_violated=None, eq=None, what="RWLockInd.tla is not the same model as RWLock.tla"):
    eq = eq or EQ
    mod = os.path.splitext(os.path.basename(eq))[0]
    wd = os.path.join(workdir, name)
    res = tlc.run(eq, cfg_text, wd, workers=workers, timeout=timeout)
    step = {"name": name, "cmd": "tlc %s [%s]" % (mod, " ".join(cfg_text.split())), "rc": res.rc, "seconds": round(res.wall, 1),
            "states": res.distinct}
    if expect_violated:
        if res.violated != [expect_violated]:
            raise MachineryError("binding self-test: TLC did not refute %s on %s:\n%s" % (expect_violated, mod, res.clean()[-2000:]))
        step["outcome"] = "Error"
    else:
        if not res.ok:
            raise MachineryError("%s (TLC, %s, %s):\n%s" % (what, mod, res.violated or "failure", res.clean()[-3000:]))
        step["outcome"] = "NoError"
    return step


def check_rwlock_inductive(workdir, R, W, timeout=900, binding=True, jobs=4, xmx="4g"):
    """Unbounded-in-steps, unbounded-in-passes safety argument for RWLock.tla with R readers and W writers.
    ok: base, step and implies all came out NoError.  refuted_selftest: every self-test was refuted."""
    if R < 1 or W < 1:
        raise MachineryError("R and W must be >= 1")
    os.makedirs(workdir, exist_ok=True)
    cfg = os.path.join(workdir, "RWLockInd_R%d_W%d.cfg" % (R, W))
    with open(cfg, "w") as f:
        f.write("CONSTANTS\n  R = %d\n  W = %d\nINIT Init\nNEXT Next\n" % (R, W))
    t0 = time.time()
    with cf.ThreadPoolExecutor(max_workers=max(1, jobs)) as ex:
        futs = [ex.submit(run_apalache, n, IND, cfg, a, workdir, timeout, xmx) for (n, _, a) in PLAN]
        bind = []
        if binding:
            w = 8 if (os.cpu_count() or 1) >= 16 else max(1, (os.cpu_count() or 2) // 2)
            bind = [ex.submit(_binding, "binding-all", "CONSTANTS R = 1 W = 1 Passes = 2\nINIT EqSeed\nNEXT EqFan\nINVARIANTS %s\n" % EQ_INVS,
                              workdir, timeout, w),
                    ex.submit(_binding, "binding-reach", "CONSTANTS R = 2 W = 2 Passes = 2\nINIT Init\nNEXT Next\nINVARIANTS %s\n" % EQ_INVS,
                              workdir, timeout, 2),
                    ex.submit(_binding, "binding-selftest", "CONSTANTS R = 1 W = 1 Passes = 2\nINIT EqSeed\nNEXT EqFan\nINVARIANTS WrongEq\n",
                              workdir, timeout, 1, "WrongEq")]
        steps = [f.result() for f in futs + bind]        # MachineryError propagates
    want = {n: o for (n, o, _) in PLAN}
    for s in steps:
        s["expected"] = want.get(s["name"], s["outcome"])
    main = [s for s in steps if s["name"] in ("base", "step", "implies")]
    tests = [s for s in steps if s["name"].startswith("selftest")]
    return {"ok": all(s["outcome"] == "NoError" for s in main),
            "refuted_selftest": all(s["outcome"] == "Error" for s in tests),
            "R": R, "W": W, "passes": "any", "wall_s": round(time.time() - t0, 1),
            "proved": "Init => IndInv; IndInv /\\ Next => IndInv'; IndInv => Mutex /\\ ReleaseHeld /\\ NoDeadlock /\\ CountersOK",
            "steps": steps}


def ablation(workdir, R, W, timeout=900, jobs=8, xmx="4g"):
    """Why each conjunct of IndInv is there: drop it, re-run `step` and `implies`, report what breaks (RWLockInd.md)."""
    os.makedirs(workdir, exist_ok=True)
    cfg = os.path.join(workdir, "ab.cfg")
    with open(cfg, "w") as f:
        f.write("CONSTANTS\n  R = %d\n  W = %d\nINIT Init\nNEXT Next\n" % (R, W))
    with open(IND) as f:
        ind_text = f.read()
    jobs_ = []
    with cf.ThreadPoolExecutor(max_workers=jobs) as ex:
        for c in CONJUNCTS:
            d = os.path.join(workdir, "ab_" + c)
            os.makedirs(d, exist_ok=True)
            with open(os.path.join(d, "RWLockInd.tla"), "w") as f:
                f.write(ind_text)
            with open(os.path.join(d, "Ab.tla"), "w") as f:
                f.write("---- MODULE Ab ----\nEXTENDS RWLockInd\nAbInv == TypeOK /\\ %s\nAbInit == Arbitrary /\\ AbInv\n====\n"
                        % " /\\ ".join(x for x in CONJUNCTS if x != c))
            for n, a in (("step", ["--init=AbInit", "--inv=AbInv", "--length=1"]), ("implies", ["--init=AbInit", "--inv=Safety", "--length=0"])):
                jobs_.append((c, n, ex.submit(run_apalache, n, os.path.join(d, "Ab.tla"), cfg, a, d, timeout, xmx)))
        return [{"without": c, "check": n, "outcome": f.result()["outcome"], "seconds": f.result()["seconds"],
                 "cti": f.result().get("cti")} for (c, n, f) in jobs_]


# ======================================================================================================
# LazyTable
LT_IND = os.path.join(SPEC, "LazyTableInd.tla")
LT_EQ = os.path.join(SPEC, "MC_LazyTableIndEq.tla")
LT_EQ_INVS = "StepEq PropEq ActEq InitEq"
LT_KMAX = 32                                     # the KMax of the committed spec/LazyTableInd.tla
LT_CONJUNCTS = ["Coords", "Lists", "Roles", "Tmp", "Loop", "Shared", "Alone", "Final", "Lock", "Seen"]
LT_PLAN = [
    ("base", "NoError", ["--cinit=CInitFaithful", "--init=Init", "--inv=IndInv,Safety", "--length=0"]),
    ("step", "NoError", ["--cinit=CInitFaithful", "--init=IndInit", "--inv=IndInv,Safety,ActSafety", "--length=1"]),
]
LT_SELFTESTS = [
    ("selftest-step-early-publish", "Error", ["--cinit=CInitEarly", "--init=IndInit", "--inv=IndInv", "--length=1"]),
    ("selftest-step-split-assign", "Error", ["--cinit=CInitSplit", "--init=IndInit", "--inv=IndInv", "--length=1"]),
    ("selftest-step-torn-read", "Error", ["--cinit=CInitTorn", "--init=IndInit", "--inv=IndInv", "--length=1"]),
    ("selftest-step-lock-nofinally", "Error", ["--cinit=CInitNoFinally", "--init=IndInit", "--inv=IndInv", "--length=1"]),
    ("selftest-implies", "Error", ["--cinit=CInitFaithful", "--init=WeakInit", "--inv=Safety", "--length=0"]),
]


def _lt_spec(workdir, K):
    """spec/LazyTableInd.tla as it is for K = 32; else a copy in workdir with KMax = K and the two literal sequences
    regenerated (every run re-checks them: LiteralsOK is part of Safety)."""
    if K == LT_KMAX:
        return LT_IND
    with open(LT_IND) as f:
        s = f.read()
    s, n1 = re.subn(r"KMax == %d\b" % LT_KMAX, "KMax == %d" % K, s)
    s, n2 = re.subn(r"Ramp  == <<.*?>>", "Ramp  == <<%s>>" % ", ".join(str(i) for i in range(1, K + 1)), s, flags=re.S)
    s, n3 = re.subn(r"Zeros == <<.*?>>", "Zeros == <<%s>>" % ", ".join("0" for _ in range(K)), s, flags=re.S)
    if (n1, n2, n3) != (1, 1, 1):
        raise MachineryError("LazyTableInd.tla: KMax/Ramp/Zeros not found where expected")
    d = os.path.join(workdir, "K%d" % K)
    os.makedirs(d, exist_ok=True)
    p = os.path.join(d, "LazyTableInd.tla")
    with open(p, "w") as f:
        f.write(s)
    return p


def _lt_cfg(N, locked="none", sw=None, all_states=False):
    flags = tuple("TRUE" if sw == k else "FALSE" for k in ("EARLY_PUBLISH", "SPLIT_ASSIGN", "TORN_READ"))
    return ('CONSTANTS N = %d  EARLY_PUBLISH = %s  SPLIT_ASSIGN = %s  TORN_READ = %s  LOCKED = "%s"\n' % ((N,) + flags + (locked,))
            + ("INIT EqSeed\nNEXT EqFan\n" if all_states else "INIT Init\nNEXT Next\n"))


def check_lazytable_inductive(workdir, N, timeout=900, binding=True, jobs=8, xmx="4g"):
    """Unbounded-in-steps safety argument for LazyTable.tla, faithful variant (all deviation switches off), BOTH lock
    variants LOCKED = "none" and "finally" and EVERY table length 1..N in one Apalache run (N and LOCKED are symbolic constants;
    the model has one builder thread and atomic reader operations - no thread parameter).
      base  Init => IndInv /\\ Safety ;  step  IndInv /\\ Next => IndInv' /\\ Safety' /\\ StepsAreEffects /\\ TableNeverShrinks.
    Self-tests (run at N = 32, the committed spec): EARLY_PUBLISH, SPLIT_ASSIGN, TORN_READ, LOCKED = "nofinally" each break
    the induction step; IndInv without its list conjuncts does not imply Safety.  binding: TLC, MC_LazyTableIndEq.
    Same result shape and error policy as check_rwlock_inductive."""
    if N < 1:
        raise MachineryError("N must be >= 1")
    os.makedirs(workdir, exist_ok=True)
    spec = _lt_spec(workdir, N)
    t0 = time.time()
    with cf.ThreadPoolExecutor(max_workers=max(1, jobs)) as ex:
        futs = [ex.submit(run_apalache, n, spec, None, a, workdir, timeout, xmx) for (n, _, a) in LT_PLAN]
        futs += [ex.submit(run_apalache, n, LT_IND, None, a, workdir, timeout, xmx) for (n, _, a) in LT_SELFTESTS]
        if binding:
            what = "LazyTableInd.tla is not the same model as LazyTable.tla"
            w = 4 if (os.cpu_count() or 1) >= 16 else 2
            for lck in ("none", "finally"):
                futs.append(ex.submit(_binding, "binding-all-" + lck, _lt_cfg(2, lck, all_states=True) + "INVARIANTS %s\n" % LT_EQ_INVS,
                                      workdir, timeout, w, None, LT_EQ, what))
            for tag, lck, sw in (("none", "none", None), ("finally", "finally", None), ("nofinally", "nofinally", None),
                                 ("early", "none", "EARLY_PUBLISH"), ("split", "none", "SPLIT_ASSIGN"), ("torn", "none", "TORN_READ")):
                futs.append(ex.submit(_binding, "binding-reach-" + tag, _lt_cfg(3, lck, sw) + "INVARIANTS %s\n" % LT_EQ_INVS,
                                      workdir, timeout, 1, None, LT_EQ, what))
            futs.append(ex.submit(_binding, "binding-selftest", _lt_cfg(2, "none", all_states=True) + "INVARIANTS WrongEq\n",
                                  workdir, timeout, 1, "WrongEq", LT_EQ, what))
        steps = [f.result() for f in futs]
    want = {n: o for (n, o, _) in LT_PLAN + LT_SELFTESTS}
    for s in steps:
        s["expected"] = want.get(s["name"], s["outcome"])
    main_ = [s for s in steps if s["name"] in ("base", "step")]
    tests = [s for s in steps if s["name"].startswith("selftest")]
    return {"ok": all(s["outcome"] == "NoError" for s in main_),
            "refuted_selftest": all(s["outcome"] == "Error" for s in tests),
            "N": "every table length 1..%d" % N, "LOCKED": ["none", "finally"], "wall_s": round(time.time() - t0, 1),
            "cpu_s": round(sum(s.get("cpu_s", 0) for s in steps), 1),
            "proved": "Init => IndInv; IndInv /\\ Next => IndInv'; IndInv => ReaderOK /\\ PubEmptyOrComplete /\\ CoordsOldOrNew /\\ AloneOK /\\ "
                      "LocIsPrefix /\\ FinalOK /\\ LockFreeWhenOver; IndInv /\\ Next => StepsAreEffects /\\ TableNeverShrinks",
            "steps": steps}


def ablation_lazytable(workdir, timeout=900, jobs=8, xmx="4g"):
    """Why each conjunct of LazyTableInd!IndInv is there: drop it, re-run the step and the implication (LazyTableInd.md)."""
    os.makedirs(workdir, exist_ok=True)
    with open(LT_IND) as f:
        ind_text = f.read()
    jobs_ = []
    with cf.ThreadPoolExecutor(max_workers=jobs) as ex:
        for c in LT_CONJUNCTS:
            d = os.path.join(workdir, "ab_" + c)
            os.makedirs(d, exist_ok=True)
            with open(os.path.join(d, "LazyTableInd.tla"), "w") as f:
                f.write(ind_text)
            with open(os.path.join(d, "Ab.tla"), "w") as f:
                f.write("---- MODULE Ab ----\nEXTENDS LazyTableInd\nAbInv == TypeOK /\\ %s\nAbInit == Arbitrary /\\ AbInv\n====\n"
                        % " /\\ ".join(x for x in LT_CONJUNCTS if x != c))
            for n, a in (("step", ["--init=AbInit", "--inv=AbInv", "--length=1"]),
                         ("implies", ["--init=AbInit", "--inv=Safety,ActSafety", "--length=1"])):
                jobs_.append((c, n, ex.submit(run_apalache, n, os.path.join(d, "Ab.tla"), None, ["--cinit=CInitFaithful"] + a, d, timeout, xmx)))
        return [{"without": c, "check": n, "outcome": f.result()["outcome"], "seconds": f.result()["seconds"], "cpu_s": f.result()["cpu_s"],
                 "cti": f.result().get("cti")} for (c, n, f) in jobs_]


def main(argv):
    from .common import Scratch
    ab = "--ablate" in argv
    nobind = "--no-binding" in argv
    argv = [a for a in argv if a not in ("--ablate", "--no-binding")]
    tmo = int(os.environ.get("VERIF_APALACHE_TIMEOUT", "900"))
    try:
        if len(argv) == 2 and argv[0] == "lazytable":
            N = int(argv[1])
            with Scratch("apalache_lazytable") as wd:
                res = ablation_lazytable(wd, timeout=tmo) if ab else check_lazytable_inductive(wd, N, timeout=tmo, binding=not nobind)
        elif len(argv) in (2, 3) and argv[-1].isdigit() and argv[-2].isdigit() and argv[0] in ("rwlock", argv[-2]):
            R, W = int(argv[-2]), int(argv[-1])
            with Scratch("apalache_rwlock") as wd:
                res = ablation(wd, R, W, timeout=tmo) if ab else check_rwlock_inductive(wd, R, W, timeout=tmo, binding=not nobind)
        else:
            print("usage: python -m harness.apalache [--ablate] [--no-binding] ([rwlock] R W | lazytable N)", file=sys.stderr)
            return 2
    except MachineryError as e:
        print("MACHINERY: %s" % e, file=sys.stderr)
        return 2
    print(json.dumps(res, indent=1, default=str))
    if ab:
        return 0
    return 0 if res["ok"] and res["refuted_selftest"] else (2 if res["ok"] else 1)


if __name__ == "__main__":
    sys.exit(main(sys.argv[1:]))
