"""Apalache runner for the inductive-invariant argument about the reader-writer lock model
(spec/RWLockInd.tla, spec/RWLockInd.md).

    check_rwlock_inductive(workdir, R, W, timeout) -> {ok, steps: [{name, cmd, rc, seconds, outcome, ...}], refuted_selftest}
    python -m harness.apalache R W        prints that dict as JSON (exit 0 proved / 1 refuted / 2 machinery)

What is run (all output, including Apalache's SANY scratch directories, stays inside `workdir`; no network):

  Apalache, constants R, W from a generated cfg
    base       Init => IndInv                           --init=Init     --inv=IndInv --length=0
    step       IndInv /\\ Next => IndInv'                --init=IndInit  --inv=IndInv --length=1
    implies    IndInv => Mutex /\\ ReleaseHeld /\\ NoDeadlock /\\ CountersOK
                                                        --init=IndInit  --inv=Safety --length=0
    self-tests (each MUST be refuted, else the machinery is vacuous)
    selftest-step-noexcl      IndInv is not inductive for BadNextNoExcl (writer skips no_writers)
    selftest-step-noqueuerel  IndInv is not inductive for BadNextNoQueueRel (reader keeps readers_queue)
    selftest-implies          IndInv without its no_writers conjunct does not imply Safety

  TLC, independent of R and W: spec/MC_RWLockIndEq.tla binds RWLockInd.tla (a typed restatement, RWLock.tla
  itself is not typeable by Apalache) to RWLock.tla
    binding-all       the two modules agree on every state of 1 reader + 1 writer that satisfies the
                      local conjunct Roles (955 719 states, reachable or not)
    binding-reach     and on the reachable states of 2 readers + 2 writers x 2 passes
    binding-selftest  a restatement with one action disabled is told apart (must be refuted)

A genuine refutation of base/step/implies is NOT an exception: ok = False and the step carries `counterexample` (path
of Apalache's violation1.tla inside workdir) and `cti` (the states, readable after workdir is gone).  Tool trouble
(timeout, parse or type error, unexpected exit code, binding broken) raises MachineryError.
"""
import os, re, sys, json, time, glob, subprocess, concurrent.futures as cf

from . import tlc
from .common import SPEC, MachineryError

APALACHE = "apalache-mc"
IND = os.path.join(SPEC, "RWLockInd.tla")
EQ = os.path.join(SPEC, "MC_RWLockIndEq.tla")
EQ_INVS = "StepEq NextEq EnabledEq PropEq InitEq"
CONJUNCTS = ["Roles", "OwnQueue", "OwnRMutex", "OwnWMutex", "Counters", "Edges", "GateNW", "GateNR"]

# name, expected outcome, extra arguments
PLAN = [
    ("base", "NoError", ["--init=Init", "--inv=IndInv", "--length=0"]),
    ("step", "NoError", ["--init=IndInit", "--inv=IndInv", "--length=1"]),
    ("implies", "NoError", ["--init=IndInit", "--inv=Safety", "--length=0"]),
    ("selftest-step-noexcl", "Error", ["--init=IndInit", "--next=BadNextNoExcl", "--inv=IndInv", "--length=1"]),
    ("selftest-step-noqueuerel", "Error", ["--init=IndInit", "--next=BadNextNoQueueRel", "--inv=IndInv", "--length=1"]),
    ("selftest-implies", "Error", ["--init=WeakInit", "--inv=Safety", "--length=0"]),
]


def _un(x):
    """ITF JSON value -> python"""
    if isinstance(x, dict):
        if "#bigint" in x:
            return int(x["#bigint"])
        if "#map" in x:
            return {str(_un(k)): _un(v) for k, v in x["#map"]}
        if "#set" in x:
            return sorted(_un(v) for v in x["#set"])
        if "#tup" in x:
            return [_un(v) for v in x["#tup"]]
        return {k: _un(v) for k, v in x.items() if not k.startswith("#")}
    if isinstance(x, list):
        return [_un(v) for v in x]
    return x


def _cti(run_dir):
    """states of Apalache's first counterexample + the violated formula"""
    out = {"states": [], "violated": None}
    p = os.path.join(run_dir, "violation1.itf.json")
    if os.path.exists(p):
        with open(p) as f:
            j = json.load(f)
        vs = j.get("vars", [])
        out["states"] = [{v: _un(s[v]) for v in vs if v in s} for s in j.get("states", [])]
    p = os.path.join(run_dir, "violation1.tla")
    if os.path.exists(p):
        with open(p) as f:
            t = f.read()
        m = re.search(r"InvariantViolation ==\n?(.*?)\n\n?====", t, re.S)
        if m:
            out["violated"] = " ".join(m.group(1).split())[:1500]
    return out


def run_apalache(name, spec, cfg, args, workdir, timeout, xmx="4g"):
    """One `apalache-mc check`.  -> step dict; outcome in {"NoError", "Error"}; anything else raises MachineryError."""
    out_dir = os.path.join(workdir, "out_" + name)
    tmp = os.path.join(workdir, "tmp")
    os.makedirs(tmp, exist_ok=True)
    cmd = [APALACHE, "check", "--config=" + cfg, "--out-dir=" + out_dir] + list(args) + [spec]
    env = dict(os.environ)
    env.pop("JAVA_TOOL_OPTIONS", None)
    env["JVM_ARGS"] = "-Xmx" + xmx
    env["TMPDIR"] = tmp              # the launcher makes its SANY scratch directory with mktemp -t
    t0 = time.time()
    try:
        p = subprocess.run(cmd, cwd=workdir, env=env, stdout=subprocess.PIPE, stderr=subprocess.STDOUT, timeout=timeout,
                           text=True, errors="replace")
    except subprocess.TimeoutExpired:
        raise MachineryError("Apalache timeout after %ss in step %s: %s" % (timeout, name, " ".join(cmd)))
    except OSError as e:
        raise MachineryError("cannot run %s: %s" % (APALACHE, e))
    secs = round(time.time() - t0, 1)
    m = re.search(r"The outcome is: (\w+)", p.stdout)
    outcome = m.group(1) if m else None
    step = {"name": name, "cmd": "JVM_ARGS=-Xmx%s " % xmx + " ".join(cmd), "rc": p.returncode, "seconds": secs, "outcome": outcome}
    if (outcome, p.returncode) == ("NoError", 0):
        return step
    if (outcome, p.returncode) == ("Error", 12):
        runs = sorted(glob.glob(os.path.join(out_dir, "*", "*", "violation1.tla")))
        if not runs:
            raise MachineryError("Apalache step %s reports an error without a counterexample:\n%s" % (name, p.stdout[-2000:]))
        step["counterexample"] = runs[-1]
        step["cti"] = _cti(os.path.dirname(runs[-1]))
        return step
    raise MachineryError("Apalache step %s failed (exit %s, outcome %s): %s\n%s" % (name, p.returncode, outcome, " ".join(cmd),
                                                                                    "\n".join(p.stdout.splitlines()[-25:])))


def _binding(name, cfg_text, workdir, timeout, workers, expect_violated=None):
    wd = os.path.join(workdir, name)
    res = tlc.run(EQ, cfg_text, wd, workers=workers, timeout=timeout)
    step = {"name": name, "cmd": "tlc MC_RWLockIndEq [%s]" % " ".join(cfg_text.split()), "rc": res.rc, "seconds": round(res.wall, 1),
            "states": res.distinct}
    if expect_violated:
        if res.violated != [expect_violated]:
            raise MachineryError("binding self-test: TLC did not refute %s on MC_RWLockIndEq:\n%s" % (expect_violated, res.clean()[-2000:]))
        step["outcome"] = "Error"
    else:
        if not res.ok:
            raise MachineryError("RWLockInd.tla is not the same model as RWLock.tla (TLC, MC_RWLockIndEq, %s):\n%s"
                                 % (res.violated or "failure", res.clean()[-3000:]))
        step["outcome"] = "NoError"
    return step


def check_rwlock_inductive(workdir, R, W, timeout=900, binding=True, jobs=4, xmx="4g"):
    """Unbounded-in-steps, unbounded-in-passes safety argument for RWLock.tla with R readers and W writers.
    ok: base, step and implies all came out NoError.  refuted_selftest: every self-test was refuted."""
    if R < 1 or W < 1:
        raise MachineryError("R and W must be >= 1")
    os.makedirs(workdir, exist_ok=True)
    cfg = os.path.join(workdir, "RWLockInd_R%d_W%d.cfg" % (R, W))
    with open(cfg, "w") as f:
        f.write("CONSTANTS\n  R = %d\n  W = %d\nINIT Init\nNEXT Next\n" % (R, W))
    t0 = time.time()
    with cf.ThreadPoolExecutor(max_workers=max(1, jobs)) as ex:
        futs = [ex.submit(run_apalache, n, IND, cfg, a, workdir, timeout, xmx) for (n, _, a) in PLAN]
        bind = []
        if binding:
            w = 8 if (os.cpu_count() or 1) >= 16 else max(1, (os.cpu_count() or 2) // 2)
            bind = [ex.submit(_binding, "binding-all", "CONSTANTS R = 1 W = 1 Passes = 2\nINIT EqSeed\nNEXT EqFan\nINVARIANTS %s\n" % EQ_INVS,
                              workdir, timeout, w),
                    ex.submit(_binding, "binding-reach", "CONSTANTS R = 2 W = 2 Passes = 2\nINIT Init\nNEXT Next\nINVARIANTS %s\n" % EQ_INVS,
                              workdir, timeout, 2),
                    ex.submit(_binding, "binding-selftest", "CONSTANTS R = 1 W = 1 Passes = 2\nINIT EqSeed\nNEXT EqFan\nINVARIANTS WrongEq\n",
                              workdir, timeout, 1, "WrongEq")]
        steps = [f.result() for f in futs + bind]        # MachineryError propagates
    want = {n: o for (n, o, _) in PLAN}
    for s in steps:
        s["expected"] = want.get(s["name"], s["outcome"])
    main = [s for s in steps if s["name"] in ("base", "step", "implies")]
    tests = [s for s in steps if s["name"].startswith("selftest")]
    return {"ok": all(s["outcome"] == "NoError" for s in main),
            "refuted_selftest": all(s["outcome"] == "Error" for s in tests),
            "R": R, "W": W, "passes": "any", "wall_s": round(time.time() - t0, 1),
            "proved": "Init => IndInv; IndInv /\\ Next => IndInv'; IndInv => Mutex /\\ ReleaseHeld /\\ NoDeadlock /\\ CountersOK",
            "steps": steps}


def ablation(workdir, R, W, timeout=900, jobs=8, xmx="4g"):
    """Why each conjunct of IndInv is there: drop it, re-run `step` and `implies`, report what breaks (RWLockInd.md)."""
    os.makedirs(workdir, exist_ok=True)
    cfg = os.path.join(workdir, "ab.cfg")
    with open(cfg, "w") as f:
        f.write("CONSTANTS\n  R = %d\n  W = %d\nINIT Init\nNEXT Next\n" % (R, W))
    with open(IND) as f:
        ind_text = f.read()
    jobs_ = []
    with cf.ThreadPoolExecutor(max_workers=jobs) as ex:
        for c in CONJUNCTS:
            d = os.path.join(workdir, "ab_" + c)
            os.makedirs(d, exist_ok=True)
            with open(os.path.join(d, "RWLockInd.tla"), "w") as f:
                f.write(ind_text)
            with open(os.path.join(d, "Ab.tla"), "w") as f:
                f.write("---- MODULE Ab ----\nEXTENDS RWLockInd\nAbInv == TypeOK /\\ %s\nAbInit == Arbitrary /\\ AbInv\n====\n"
                        % " /\\ ".join(x for x in CONJUNCTS if x != c))
            for n, a in (("step", ["--init=AbInit", "--inv=AbInv", "--length=1"]), ("implies", ["--init=AbInit", "--inv=Safety", "--length=0"])):
                jobs_.append((c, n, ex.submit(run_apalache, n, os.path.join(d, "Ab.tla"), cfg, a, d, timeout, xmx)))
        return [{"without": c, "check": n, "outcome": f.result()["outcome"], "seconds": f.result()["seconds"],
                 "cti": f.result().get("cti")} for (c, n, f) in jobs_]


def main(argv):
    from .common import Scratch
    ab = "--ablate" in argv
    argv = [a for a in argv if a != "--ablate"]
    if len(argv) != 2:
        print("usage: python -m harness.apalache [--ablate] R W", file=sys.stderr)
        return 2
    R, W = int(argv[0]), int(argv[1])
    try:
        with Scratch("apalache_rwlock") as wd:
            res = ablation(wd, R, W) if ab else check_rwlock_inductive(wd, R, W, timeout=int(os.environ.get("VERIF_APALACHE_TIMEOUT", "900")))
    except MachineryError as e:
        print("MACHINERY: %s" % e, file=sys.stderr)
        return 2
    print(json.dumps(res, indent=1, default=str))
    if ab:
        return 0
    return 0 if res["ok"] and res["refuted_selftest"] else (2 if res["ok"] else 1)


if __name__ == "__main__":
    sys.exit(main(sys.argv[1:]))
