"""A TOY back end for the library's AES128 plug-in interface (see spec/Trace_Bf3Toy.tla): MAC = sixteen copies of one byte,
"cipher" = position-dependent XOR stream on the zero-padded data.  Stateless per call, like the bundled adapter.  Registered only
inside `registered()`; the previous back end is restored whatever happens."""
import contextlib

import bec2format
from bec2format import crypto as _crypto


class ToyAES128(_crypto.AES128):
    def _stream(self, n):
        k = self._key
        return bytes((k[j % 16] + 17 * (j // 16) + 1) % 256 for j in range(n))

    def encrypt(self, data):
        data = bytes(data)
        if not data:
            raise ValueError("cannot encrypt empty data")
        p = data + bytes(-len(data) % 16)
        return bytes(a ^ b for a, b in zip(p, self._stream(len(p))))

    def decrypt(self, data):
        data = bytes(data)
        if not data or len(data) % 16:
            raise ValueError("ciphertext length has to be a positive multiple of the block size")
        return bytes(a ^ b for a, b in zip(data, self._stream(len(data))))

    def mac(self, data):
        data = bytes(data)
        if not data:
            raise ValueError("cannot authenticate empty data")
        ix = int.from_bytes(self._iv, "big") if self._iv else 0
        b = (sum(self._key) + 29 * ix + len(data) + sum(((j % 251) + 1) * x for j, x in enumerate(data))) % 256
        return bytes([b]) * 16


@contextlib.contextmanager
def registered():
    saved = type(_crypto.create_AES128(bytes(16)))
    bec2format.register_AES128(ToyAES128)
    try:
        yield ToyAES128
    finally:
        bec2format.register_AES128(saved)
