"""Controlled execution of real, unmodified library code (C20).

1. Lock-level scheduler: the `threading` reference of a module (ecdsa._rwlock) is replaced
   by FakeThreading, whose Lock() objects park the calling real thread before every
   acquire()/release() until the scheduler picks it.  Exactly one thread runs at a time,
   pre-emption happens exactly at lock calls.  Each controlled lock wraps a real
   _thread lock, which must agree with the bookkeeping (else MachineryError).

2. TLC state graph (-dump dot,actionlabels) parser and the edge-covering walk that drives
   the real RWLock along every edge of the graph and compares the projected real state
   with the specification state after every step.

3. Line / byte-code level pre-emption of one real thread (sys.settrace) for the lazily
   built multiplication table and in-place rescaling.
"""
import re, sys, _thread, threading, collections

from . import tlaval
from .common import MachineryError

TIMEOUT = 30.0


class SchedAbort(BaseException):
    """raised inside a parked worker thread when the run is abandoned"""


class StructureDiffers(Exception):
    """the lock objects of the real RWLock are not the five distinct per-instance locks of the specification"""


class CLock:
    """threading.Lock stand-in: parks before the operation, then performs it on a real lock.
    The scheduler is looked up through the factory at every call, so that a lock object that
    outlives one run (e.g. one created when the module was loaded) is driven by the current run."""
    kind = "Lock"

    def __init__(self, ft):
        self.ft = ft
        self.real = _thread.allocate_lock()
        self.owner = 0          # tid of the thread that acquired it, 0 = free (observation only)
        self.name = "?"
        ft.made.append(self)
        if ft.sched is not None:
            ft.sched.locks.append(self)

    @property
    def sched(self):
        s = self.ft.sched
        if s is None:
            raise MachineryError("a controlled lock is used while no scheduler is installed")
        return s

    def reset(self):
        self.real = _thread.allocate_lock()
        self.owner = 0

    def free_for(self, tid):
        return self.owner == 0

    def can(self, tid, op):
        """is the pending operation `op` of thread tid enabled?"""
        return op not in ("acquire", "reacquire") or self.free_for(tid)

    def state(self):
        return (self.kind, self.owner)

    def held_by(self, tid):
        return self.owner == tid

    def _drop(self, tid):               # Condition.wait: give the lock up completely
        self.owner = 0
        self.real.release()
        return 1

    def _restore(self, tid, saved):
        self.real.acquire(False)
        self.owner = tid

    def acquire(self, blocking=True, timeout=-1):
        if not blocking or timeout != -1:
            w = self.sched.park("tryacquire", self)
            ok = self.real.acquire(False)
            if ok:
                self.owner = w.tid
            return ok
        w = self.sched.park("acquire", self)
        if not self.real.acquire(False):
            self.sched.broken = "thread %d was scheduled to acquire %s but the real lock is held" % (w.tid, self.name)
            raise RuntimeError(self.sched.broken)
        self.owner = w.tid
        return True

    def release(self):
        self.sched.park("release", self)
        self.real.release()     # RuntimeError if not held, exactly as threading.Lock
        self.owner = 0

    def locked(self):
        return self.real.locked()

    def __enter__(self):
        self.acquire()
        return True

    def __exit__(self, *a):
        self.release()


class CRLock(CLock):
    """threading.RLock stand-in: owned by the acquiring thread, re-entrant for it (count); release() by a thread that
    does not own it raises RuntimeError('cannot release un-acquired lock') exactly like the real one."""
    kind = "RLock"

    def __init__(self, ft):
        CLock.__init__(self, ft)
        self.count = 0

    def reset(self):
        CLock.reset(self)
        self.count = 0

    def free_for(self, tid):
        return self.owner == 0 or self.owner == tid

    def acquire(self, blocking=True, timeout=-1):
        w = self.sched.park("acquire" if blocking and timeout == -1 else "tryacquire", self)
        if self.owner == w.tid:
            self.count += 1
            return True
        if self.owner != 0:
            if not blocking or timeout != -1:
                return False
            self.sched.broken = "thread %d was scheduled to acquire %s but it is owned by thread %d" % (w.tid, self.name, self.owner)
            raise RuntimeError(self.sched.broken)
        self.real.acquire(False)
        self.owner, self.count = w.tid, 1
        return True

    def release(self):
        w = self.sched.park("release", self)
        if self.owner != w.tid:
            raise RuntimeError("cannot release un-acquired lock")
        self.count -= 1
        if self.count == 0:
            self.owner = 0
            self.real.release()

    def locked(self):
        return self.owner != 0

    def state(self):
        return (self.kind, self.owner, self.count)

    def _drop(self, tid):
        saved, self.owner, self.count = self.count, 0, 0
        self.real.release()
        return saved

    def _restore(self, tid, saved):
        self.real.acquire(False)
        self.owner, self.count = tid, saved

    _is_owned = lambda self: True


class CSemaphore(CLock):
    """threading.Semaphore / BoundedSemaphore stand-in"""
    kind = "Semaphore"

    def __init__(self, ft, value=1, bounded=False):
        CLock.__init__(self, ft)
        if value < 0:
            raise ValueError("semaphore initial value must be >= 0")
        self.initial, self.value, self.bounded = value, value, bounded

    def reset(self):
        self.value = self.initial

    def can(self, tid, op):
        return op != "acquire" or self.value > 0

    def state(self):
        return (self.kind, self.value)

    def acquire(self, blocking=True, timeout=None):
        if not blocking or timeout is not None:
            self.sched.park("tryacquire", self)
            if self.value > 0:
                self.value -= 1
                return True
            return False
        self.sched.park("acquire", self)
        if self.value <= 0:
            self.sched.broken = "a thread was scheduled to acquire a semaphore whose value is 0"
            raise RuntimeError(self.sched.broken)
        self.value -= 1
        return True

    def release(self, n=1):
        self.sched.park("release", self)
        if self.bounded and self.value + n > self.initial:
            raise ValueError("Semaphore released too many times")
        self.value += n

    def locked(self):
        return self.value == 0


class CEvent(CLock):
    """threading.Event stand-in"""
    kind = "Event"

    def __init__(self, ft):
        CLock.__init__(self, ft)
        self.flag = False

    def reset(self):
        self.flag = False

    def can(self, tid, op):
        return op != "event-wait" or self.flag

    def state(self):
        return (self.kind, self.flag)

    def is_set(self):
        return self.flag

    def set(self):
        self.sched.park("event-set", self)
        self.flag = True

    def clear(self):
        self.sched.park("event-clear", self)
        self.flag = False

    def wait(self, timeout=None):
        self.sched.park("event-wait" if timeout is None else "event-timedwait", self)
        return self.flag


class CCondition(CLock):
    """threading.Condition stand-in: wait() gives the lock up, sleeps until notified (FIFO), takes the lock again;
    a wait with a timeout may also wake up by itself"""
    kind = "Condition"

    def __init__(self, ft, lock=None):
        CLock.__init__(self, ft)
        self.lock = lock if lock is not None else CRLock(ft)
        self.waiters, self.notified, self.timed = [], set(), set()

    def reset(self):
        self.waiters, self.notified, self.timed = [], set(), set()

    def can(self, tid, op):
        return op != "waiting" or tid in self.notified or tid in self.timed

    def state(self):
        return (self.kind, tuple(self.waiters), tuple(sorted(self.notified)))

    def acquire(self, *a, **kw):
        return self.lock.acquire(*a, **kw)

    def release(self):
        return self.lock.release()

    def wait(self, timeout=None):
        w = self.sched.park("wait", self)
        if not self.lock.held_by(w.tid):
            raise RuntimeError("cannot wait on un-acquired lock")
        saved = self.lock._drop(w.tid)
        self.waiters.append(w.tid)
        if timeout is not None:
            self.timed.add(w.tid)
        self.sched.park("waiting", self)
        woke = w.tid in self.notified
        self.notified.discard(w.tid)
        self.timed.discard(w.tid)
        if w.tid in self.waiters:
            self.waiters.remove(w.tid)
        self.sched.park("reacquire", self.lock)
        self.lock._restore(w.tid, saved)
        return woke

    def wait_for(self, predicate, timeout=None):
        result = predicate()
        while not result:
            if not self.wait(timeout) and timeout is not None:
                return predicate()
            result = predicate()
        return result

    def notify(self, n=1):
        w = self.sched.park("notify", self)
        if not self.lock.held_by(w.tid):
            raise RuntimeError("cannot notify on un-acquired lock")
        for t in self.waiters[:n]:
            self.notified.add(t)
        del self.waiters[:n]

    def notify_all(self):
        self.notify(len(self.waiters) + 1)

    notifyAll = notify_all


PASS_THROUGH = ("get_ident", "get_native_id", "current_thread", "main_thread", "local", "active_count", "enumerate", "TIMEOUT_MAX",
                "ThreadError", "settrace", "setprofile", "stack_size", "excepthook", "ExceptHookArgs")


class FakeThreading:
    """what the module under test sees as `threading`.  Lock() and RLock() are modelled; a lock that is created by a
    controlled thread (not when the RWLock is constructed) is a scheduling point of its own ("create"): the window between
    the decision to create it and its first use can be pre-empted.  Any other primitive is a structural difference between
    the code and the specification (five plain locks), reported as such - not a failure of the tool."""

    def __init__(self, sched=None):
        self.sched = sched
        self.made = []
        self.uncontrolled = set()
        self.used = set()

    def _create(self, cls):
        s = self.sched
        if s is not None and s.by_ident.get(_thread.get_ident()) is not None:
            s.park("create", None)
        return cls(self)

    def Lock(self):
        return self._create(CLock)

    def RLock(self):
        return self._create(CRLock)

    def Condition(self, lock=None):
        return self._create(lambda ft: CCondition(ft, lock))

    def Semaphore(self, value=1):
        return self._create(lambda ft: CSemaphore(ft, value))

    def BoundedSemaphore(self, value=1):
        return self._create(lambda ft: CSemaphore(ft, value, True))

    def Event(self):
        return self._create(CEvent)

    def __getattr__(self, name):
        if name.startswith("__"):
            raise AttributeError(name)
        if name not in PASS_THROUGH:
            self.uncontrolled.add(name)     # something the scheduler cannot control (Thread, Timer, Barrier, ...)
        else:
            self.used.add(name)             # harmless for the scheduler, but e.g. `local` / `get_ident` mean per-thread state
        return getattr(threading, name)


class Worker:
    __slots__ = ("tid", "go", "pending", "thread", "phase", "left", "local_state")

    def __init__(self, tid):
        self.tid = tid
        self.go = _thread.allocate_lock()
        self.go.acquire()
        self.pending = ("start", None)
        self.phase = "start"
        self.left = 0
        self.local_state = None


class Scheduler:
    def __init__(self):
        self.wake = _thread.allocate_lock()
        self.wake.acquire()
        self.workers = {}
        self.by_ident = {}
        self.locks = []
        self.abort = False
        self.broken = None
        self.steps = 0
        self.park_hook = None

    # ---- worker side
    def park(self, op, lock):
        w = self.by_ident.get(_thread.get_ident())
        if w is None:
            raise MachineryError("a controlled lock was used by a thread the scheduler does not know")
        if self.abort:                      # unwinding (e.g. the __exit__ of a `with lock:` while the run is abandoned)
            raise SchedAbort()
        w.pending = (op, lock)
        if self.park_hook is not None:      # observation that only the thread itself can make (thread-local state)
            w.local_state = self.park_hook(w)
        self.wake.release()
        if not w.go.acquire(timeout=TIMEOUT * 4) or self.abort:
            raise SchedAbort()
        return w

    def _main(self, w, body):
        self.by_ident[_thread.get_ident()] = w
        try:
            body(w)
            w.pending = ("done", None)
        except SchedAbort:
            w.pending = ("aborted", None)
            return
        except MachineryError as e:
            self.broken = str(e)
            w.pending = ("crashed", "MachineryError")
        except BaseException as e:
            w.pending = ("crashed", "%s: %s" % (type(e).__name__, e))
            w.phase = "crashed"
        if not self.abort:
            self.wake.release()

    # ---- scheduler side
    def _wait(self):
        if not self.wake.acquire(timeout=TIMEOUT):
            self.abort_all()
            raise MachineryError("controlled thread did not reach its next lock call within %ss" % TIMEOUT)
        if self.broken:
            self.abort_all()
            raise MachineryError(self.broken)

    def start(self, tid, body):
        w = Worker(tid)
        self.workers[tid] = w
        w.thread = threading.Thread(target=self._main, args=(w, body), daemon=True)
        w.thread.start()
        self._wait()                       # runs until its first lock call
        return w

    def runnable(self):
        out = set()
        for tid, w in self.workers.items():
            op, lk = w.pending
            if op in ("done", "crashed", "aborted", "start"):
                continue
            if lk is None or not hasattr(lk, "can") or lk.can(tid, op):
                out.add(tid)
        return out

    def step(self, tid):
        w = self.workers[tid]
        self.steps += 1
        w.go.release()
        self._wait()

    def abort_all(self):
        """abandon the run: every parked thread unwinds with SchedAbort; never leaves threads behind"""
        self.abort = True
        for w in self.workers.values():
            if w.pending[0] not in ("done", "crashed", "aborted"):
                try:
                    w.go.release()
                except RuntimeError:
                    pass
        for w in self.workers.values():
            w.thread.join(TIMEOUT)
            if w.thread.is_alive():
                raise MachineryError("controlled thread %d could not be stopped" % w.tid)

    def finish(self):
        """all workers are done (or crashed): join them"""
        for w in self.workers.values():
            if w.pending[0] not in ("done", "crashed", "aborted"):
                return self.abort_all()
        for w in self.workers.values():
            w.thread.join(TIMEOUT)
            if w.thread.is_alive():
                raise MachineryError("controlled thread %d did not exit" % w.tid)


class patched_threading:
    """with patched_threading(module, sched): the module's `threading` is the controlled factory.
    A module that was loaded under a factory (load_under_factory) keeps it; only its scheduler changes."""

    def __init__(self, module, sched):
        self.module, self.sched = module, sched

    def __enter__(self):
        self.saved = self.module.threading
        if isinstance(self.saved, FakeThreading):
            if self.saved.sched is not None:
                raise MachineryError("module threading reference is already patched")
            self.saved.sched = self.sched
            self.own = False
        else:
            self.module.threading = FakeThreading(self.sched)
            self.own = True
        return self

    def __exit__(self, *a):
        if self.own:
            self.module.threading = self.saved
        else:
            self.saved.sched = None


def load_under_factory(path, name, ft=None):
    """A private copy of a module, executed from its source file while `import threading` yields the
    controlled factory: locks the module creates when it is LOADED (module / class level) are controlled
    locks too.  sys.modules is touched only for the duration of the import and restored."""
    import importlib.util
    ft = ft if ft is not None else FakeThreading(None)
    spec = importlib.util.spec_from_file_location(name, path)
    m = importlib.util.module_from_spec(spec)
    saved = sys.modules.get("threading")
    sys.modules["threading"] = ft
    try:
        spec.loader.exec_module(m)
    finally:
        sys.modules["threading"] = saved
    m.__dict__["_c20_factory"] = ft
    return m


def lock_objects(rw):
    """name -> underlying lock object of a real RWLock instance (MachineryError if the attributes are gone)"""
    out = {}
    for name, path in LOCK_ATTRS:
        o = rw
        for a in path:
            if not hasattr(o, a):
                raise MachineryError("RWLock has no attribute %s (structure changed; the model has to follow)" % a)
            o = getattr(o, a)
        out[name] = o
    return out


def structure_problems(module):
    """Identity of the lock objects of two fresh, unpatched RWLock instances: the specification has five
    distinct locks per RWLock and nothing shared between two RWLocks.  Returns a list of differences."""
    a, b = lock_objects(module.RWLock()), lock_objects(module.RWLock())
    probs = []
    names = list(a)
    is_lock = lambda o: hasattr(o, "acquire") and hasattr(o, "release")
    for i, x in enumerate(names):
        for y in names[i + 1:]:
            if a[x] is a[y] and is_lock(a[x]):
                probs.append("%s and %s of one RWLock are the same lock object" % (x, y))
    for x in names:
        for y in names:
            if a[x] is b[y] and is_lock(a[x]):
                probs.append("%s of one RWLock and %s of another RWLock are the same lock object" % (x, y))
    # (an attribute that holds no lock after construction - allocated later - is not a difference by itself: the walk
    #  schedules the creation and compares the behaviour)
    return probs


# ----------------------------------------------------------------------------------------
# the real RWLock under the scheduler

LOCK_ATTRS = (("rq", ("_RWLock__readers_queue",)), ("nr", ("_RWLock__no_readers",)), ("nw", ("_RWLock__no_writers",)),
              ("rm", ("_RWLock__read_switch", "_LightSwitch__mutex")), ("wm", ("_RWLock__write_switch", "_LightSwitch__mutex")))
LOCK_ORDER = tuple(n for n, _ in LOCK_ATTRS)


class RealRW:
    """R readers (tids 1..R) and W writers (R+1..R+W), each `passes` times
    X_acquire(); critical section (one scheduler step "cs"); X_release()   on ONE real RWLock."""

    def __init__(self, module, R, W, passes):
        self.module, self.R, self.W, self.passes = module, R, W, passes
        self.sched = Scheduler()
        self.inside = set()
        self._patch = patched_threading(module, self.sched)
        self._patch.__enter__()
        try:
            self.rw = module.RWLock()
            for name, o in self._resolve().items():
                if o is not None:
                    o.reset()
            self.rs, self.ws = self.rw._RWLock__read_switch, self.rw._RWLock__write_switch
            for tid in range(1, R + W + 1):
                self.sched.start(tid, self._reader if tid <= R else self._writer)
        except BaseException:
            self.close(abandon=True)
            raise

    def _resolve(self):
        """name -> controlled lock currently behind the attribute (None: no lock there yet); names the locks"""
        named = lock_objects(self.rw)
        for name, o in named.items():
            if o is None or not (hasattr(o, "acquire") and hasattr(o, "release")):
                named[name] = None
            elif not isinstance(o, CLock):
                raise StructureDiffers("RWLock.%s is a lock that was not made through the module's `threading`" % name)
        for o in self.sched.locks:
            o.name = "?"                                                   # (a lock that is behind no attribute any more)
        for o in set(x for x in named.values() if x is not None):
            o.name = "=".join(n for n in LOCK_ORDER if named[n] is o)      # one name unless the object is shared
        return named

    def _cycle(self, w, acq, rel):
        w.left = self.passes
        while w.left > 0:
            w.phase = "acq"
            acq()
            w.phase = "cs"
            self.inside.add(w.tid)
            self.sched.park("cs", None)
            self.inside.discard(w.tid)
            w.phase = "rel"
            rel()
            w.left -= 1
        w.phase = "done"

    def _reader(self, w):
        self._cycle(w, self.rw.reader_acquire, self.rw.reader_release)

    def _writer(self, w):
        self._cycle(w, self.rw.writer_acquire, self.rw.writer_release)

    def project(self):
        """(owner of rq nr nw rm wm, rc, wc, ((phase, op, lock, left) per thread), inside, runnable)"""
        thr = []
        for tid in range(1, self.R + self.W + 1):
            w = self.sched.workers.get(tid)
            if w is None:
                thr.append(("start", "none", "-", 0))
                continue
            op, lk = w.pending
            if op == "done":
                thr.append(("done", "none", "-", w.left))
            elif op == "crashed":
                thr.append(("crashed", str(lk), "-", w.left))
            else:
                thr.append((w.phase, op, lk.name if lk is not None else "-", w.left))
        named = self._resolve()
        return (tuple(named[n].owner if named[n] is not None else 0 for n in LOCK_ORDER),
                self.rs._LightSwitch__counter, self.ws._LightSwitch__counter,
                tuple(thr), frozenset(self.inside), frozenset(self.sched.runnable()))

    def step(self, tid):
        self.sched.step(tid)

    def close(self, abandon=False):
        try:
            if abandon:
                self.sched.abort_all()
            else:
                self.sched.finish()
        finally:
            self._patch.__exit__()


# ----------------------------------------------------------------------------------------
# TLC state graph

_node = re.compile(r'^(-?\d+) \[label="((?:[^"\\]|\\.)*)"(.*)$')
_edge = re.compile(r'^(-?\d+) -> (-?\d+) \[label="((?:[^"\\]|\\.)*)"')
_unesc = re.compile(r"\\(.)")
_act = re.compile(r"^(\w+)\((\d+)\)$")


def _unescape(s):
    return _unesc.sub(lambda m: "\n" if m.group(1) == "n" else m.group(1), s)


def parse_state(txt):
    st = {}
    for part in re.split(r"(?:^|\n)/\\ ", txt):
        part = part.strip()
        if part:
            name, _, val = part.partition(" = ")
            st[name.strip()] = tlaval.parse(val)
    return st


class Graph:
    """nodes: id -> spec state (dict);  out: id -> [(label, mover tid, dst id)];  init: id"""

    def __init__(self, path):
        self.nodes, self.out, self.init = {}, collections.defaultdict(list), None
        self.self_loops = 0
        with open(path) as f:
            for ln in f:
                m = _edge.match(ln)
                if m:
                    src, dst, lab = int(m.group(1)), int(m.group(2)), _unescape(m.group(3))
                    a = _act.match(lab)
                    if a is None:
                        if src == dst:
                            self.self_loops += 1      # Terminated
                            continue
                        raise MachineryError("edge label %r of the state graph names no thread" % lab)
                    self.out[src].append((lab, int(a.group(2)), dst))
                    continue
                m = _node.match(ln)
                if m:
                    nid = int(m.group(1))
                    if nid not in self.nodes:
                        self.nodes[nid] = parse_state(_unescape(m.group(2)))
                    if "style = filled" in m.group(3):
                        if self.init is not None and self.init != nid:
                            raise MachineryError("state graph has two initial states")
                        self.init = nid
        if self.init is None or not self.nodes:
            raise MachineryError("state graph dump could not be read")
        self.edges = [(src, k) for src in self.nodes for k in range(len(self.out.get(src, ())))]
        # BFS tree: shortest schedule from the initial state to every node
        self.parent = {self.init: None}
        q = collections.deque([self.init])
        while q:
            u = q.popleft()
            for k, (_, _, v) in enumerate(self.out.get(u, ())):
                if v not in self.nodes:
                    raise MachineryError("state graph edge leads to an undumped state")
                if v not in self.parent:
                    self.parent[v] = (u, k)
                    q.append(v)
        if len(self.parent) != len(self.nodes):
            raise MachineryError("state graph has states that are unreachable from the initial state")
        self._exp = {}

    def path_to(self, nid):
        p = []
        while self.parent[nid] is not None:
            u, k = self.parent[nid]
            p.append((u, k))
            nid = u
        p.reverse()
        return p

    def expected(self, nid, info):
        """spec state in the shape of RealRW.project(); `info` is RWLock!Info as printed by TLC"""
        e = self._exp.get(nid)
        if e is None:
            s = self.nodes[nid]
            thr, ins = [], set()
            for t, lab in enumerate(s["pc"], 1):
                i = info[lab]
                thr.append((i["ph"], i["op"], i["lk"], s["left"][t - 1]))
                if i["ph"] == "cs":
                    ins.add(t)
            e = (tuple(s["owner"][n] for n in LOCK_ORDER), s["rc"], s["wc"], tuple(thr), frozenset(ins),
                 frozenset(t for _, t, _ in self.out.get(nid, ())))
            self._exp[nid] = e
        return e


PROJ_FIELDS = ("owner(rq,nr,nw,rm,wm)", "read counter", "write counter", "threads(phase,op,lock,left)", "inside", "runnable")


def describe(proj):
    return {k: (sorted(v) if isinstance(v, frozenset) else v) for k, v in zip(PROJ_FIELDS, proj)}


def plan_paths(graph):
    """Edge cover: schedules (lists of (src, k) starting in the initial state) such that every edge
    of the graph lies on at least one of them.
    Pure graph computation; nothing is executed here."""
    eidx = {e: i for i, e in enumerate(graph.edges)}
    todo = set(range(len(graph.edges)))
    paths = []
    for e in range(len(graph.edges)):
        if e not in todo:
            continue
        src, k = graph.edges[e]
        path = graph.path_to(src) + [(src, k)]
        for x in path:
            todo.discard(eidx[x])
        cur = graph.out[src][k][2]
        last_new = len(path)
        while True:
            outs = graph.out.get(cur, ())
            if not outs:
                break
            k = 0
            for kk in range(len(outs)):
                if eidx[(cur, kk)] in todo:
                    k = kk
                    break
            path.append((cur, k))
            if eidx[(cur, k)] in todo:
                todo.discard(eidx[(cur, k)])
                last_new = len(path)
            cur = outs[k][2]
        paths.append(path[:last_new])       # nothing new behind it: the run is abandoned there (threads unwound)
    return paths


def run_paths(graph, info, module, R, W, passes, paths, max_mismatch=3):
    """Step the real RWLock along each schedule and compare the projected real state with the
    spec state after EVERY step.  A run is abandoned at its first mismatch.
    Returns dict(covered=set of (src, k), steps, runs, mismatches=[...])."""
    res = {"steps": 0, "runs": 0, "mismatches": [], "covered": set()}
    for path in paths:
        real = RealRW(module, R, W, passes)
        labels = []
        ok = True
        try:
            cur = graph.init
            got, exp = real.project(), graph.expected(cur, info)
            if got != exp:
                res["mismatches"].append({"schedule": [], "expected": describe(exp), "real": describe(got)})
                ok = False
            for src, k in path:
                if not ok:
                    break
                if src != cur:
                    raise MachineryError("planned schedule is not a path of the state graph")
                lab, tid, dst = graph.out[src][k]
                labels.append(lab)
                real.step(tid)
                res["steps"] += 1
                res["covered"].add((src, k))
                cur = dst
                got, exp = real.project(), graph.expected(cur, info)
                if got != exp:
                    res["mismatches"].append({"schedule": list(labels), "expected": describe(exp), "real": describe(got)})
                    ok = False
        finally:
            real.close(abandon=not ok)
        res["runs"] += 1
        if len(res["mismatches"]) >= max_mismatch:
            break
    return res


def find_deadlock(module, R, W, passes, max_states=20000):
    """Exhaustive search of the REAL lock's own lock-level state space (DFS with replay from the start) for a
    state in which no thread can run although not all are done, or in which a thread has crashed (an exception out of
    the lock code).  Returns (schedule of tids, projected state) or None."""
    seen, stack = set(), [[]]
    while stack:
        sch = stack.pop()
        real = RealRW(module, R, W, passes)
        try:
            for t in sch:
                real.step(t)
            proj = real.project()
        finally:
            real.close(abandon=True)
        if proj in seen:
            continue
        seen.add(proj)
        if len(seen) > max_states:
            return None
        runnable = proj[5]
        if any(th[0] == "crashed" for th in proj[3]) or (not runnable and any(th[0] != "done" for th in proj[3])):
            return sch, proj
        for t in sorted(runnable, reverse=True):
            stack.append(sch + [t])
    return None


# ----------------------------------------------------------------------------------------
# line / byte-code level pre-emption of one real thread

class Interrupt(BaseException):
    """raised by the trace function inside the traced thread: an asynchronous exception (what KeyboardInterrupt does)"""


_CLEANUP_LINES = {}


def cleanup_lines(filename):
    """Source lines of `filename` at which the interpreter runs clean-up code that a real asynchronous exception cannot split
    from the statement it belongs to: the header line of a `with` statement (the call of __enter__ and, on the way out, of
    __exit__ carry this line number) and the body of a `finally:` clause.  CPython delivers KeyboardInterrupt and
    PyThreadState_SetAsyncExc only at its eval-breaker checks, so that `with lock:` and `try: ... finally: lock.release()` do
    release the lock; an exception injected from a trace function at exactly these lines would be stronger than any real one
    and would make correct code (a construction serialised by a lock) look as if it kept the lock.  The injector therefore
    skips these lines and raises at the next event."""
    if filename not in _CLEANUP_LINES:
        lines = set()
        try:
            import ast
            with open(filename, "rb") as f:
                tree = ast.parse(f.read(), filename)
            for node in ast.walk(tree):
                if isinstance(node, (ast.With, ast.AsyncWith)):
                    last = max([node.lineno] + [getattr(i.context_expr, "end_lineno", node.lineno) for i in node.items]
                               + [getattr(i.optional_vars, "end_lineno", node.lineno) for i in node.items if i.optional_vars is not None])
                    lines.update(range(node.lineno, last + 1))
                elif isinstance(node, ast.Try) and node.finalbody:
                    lines.update(range(node.finalbody[0].lineno, (getattr(node.finalbody[-1], "end_lineno", None) or node.finalbody[-1].lineno) + 1))
        except (OSError, SyntaxError, ValueError):
            pass
        _CLEANUP_LINES[filename] = frozenset(lines)
    return _CLEANUP_LINES[filename]


class Preempter:
    """Runs `fn()` in a real thread under sys.settrace; the thread is stopped when the
    `stop_at`-th (0-based) trace event ('line' or 'opcode') is about to execute.  Events are counted
    inside a frame of one of `codes` whose `self` is `shared` (the traced function) and, with
    `deep`, in every frame below it whose code lives under the directory `deep` (the library:
    everything the traced function calls).  stop_at=None: only count the events.
    `frame_locals` are the locals of the innermost frame of one of `watch` (default: `codes`) whose `self` is `shared`,
    active at the stop or, if none is active, completed before it (the function whose local state is observed may be
    a callee of the traced region, e.g. the table construction inside a whole multiplication).
    interrupt=True: instead of being parked the thread gets the exception Interrupt at that event.
    No method of this class blocks for ever or raises because the traced code hangs: run_to_stop / run_to_end
    return after their timeout with `hung` set."""

    def __init__(self, fn, codes, shared, stop_at, opcode=False, deep=None, interrupt=False, watch=None):
        self.fn, self.codes, self.shared, self.stop_at, self.opcode = fn, set(codes), shared, stop_at, opcode
        self.watch = set(watch) if watch is not None else set(codes)
        self.watching = []
        self.deep = deep
        self.interrupt = interrupt
        self.hung = False
        self.count = 0
        self.at_stop = threading.Event()
        self.resume = threading.Event()
        self.finished = threading.Event()
        self.frame_locals = None
        self.stack_lists = []
        self.returned_lists = []
        self.result = None
        self.error = None
        self.stopped = False
        self.lineno = 0
        self.where = ""
        self.targets = []           # stack of active frames of the traced function
        self.prev_locals = {}
        self.thread = threading.Thread(target=self._main, daemon=True)

    def _global(self, frame, event, arg):
        if event != "call":
            return None
        code = frame.f_code
        mine = frame.f_locals.get("self") is self.shared
        if code in self.codes and (mine or any(v is self.shared for v in frame.f_locals.values())):
            self.targets.append(frame)          # the shared object is `self` or an argument (G.mul_add(a, shared, b))
        elif not (self.deep and self.targets and code.co_filename.startswith(self.deep)):
            if code in self.watch and mine:     # outside the region: only remember its locals when it returns
                self.watching.append(frame)
                return self._watch_only
            return None
        if code in self.watch and mine:
            self.watching.append(frame)
        if self.opcode:
            frame.f_trace_opcodes = True
        return self._local

    def _watch_only(self, frame, event, arg):
        if event == "return" and self.watching and frame is self.watching[-1]:
            self.prev_locals.update(frame.f_locals)     # (a later invocation that returns at once does not forget the list)
            self.watching.pop()
        return self._watch_only

    def _local(self, frame, event, arg):
        if event == ("opcode" if self.opcode else "line"):
            if (self.stop_at is not None and self.count >= self.stop_at and not self.stopped
                    and (self.count == self.stop_at or self.interrupt)
                    and not (self.interrupt and frame.f_lineno in cleanup_lines(frame.f_code.co_filename))):
                self.stopped = True
                self.frame_locals = dict(self.watching[-1].f_locals) if self.watching else {}
                for k, v in self.prev_locals.items():       # an earlier, completed invocation of the watched function
                    self.frame_locals.setdefault(k, v)
                # every list held in a local variable of a frame on this thread's stack (file name, variable name, object):
                # the observer looks for the builder's list by VALUE, wherever a rewritten builder keeps it
                self.stack_lists = []
                f = frame
                while f is not None:
                    for k, v in list(f.f_locals.items()):
                        if isinstance(v, list):
                            self.stack_lists.append((f.f_code.co_filename, k, v))
                    f = f.f_back
                for k, v in self.prev_locals.items():
                    if isinstance(v, list):
                        self.stack_lists.append(("", k, v))
                self.stack_lists += [("", "<returned>", v) for v in self.returned_lists]
                self.lineno = frame.f_lineno
                self.where = frame.f_code.co_name
                if self.interrupt:
                    self.targets, self.watching = [], []
                    raise Interrupt()           # (a trace function that raises is unset by the interpreter)
                self.at_stop.set()
                if not self.resume.wait(TIMEOUT * 20):
                    raise SchedAbort()
                sys.settrace(None)
                self.targets, self.watching = [], []
                return None
            self.count += 1
        elif event == "return":
            if isinstance(arg, list):               # a list handed back by a helper (a construction moved into a function of its own)
                self.returned_lists = (self.returned_lists + [arg])[-8:]
            if self.watching and frame is self.watching[-1]:
                self.prev_locals.update(frame.f_locals)     # (a later invocation that returns at once does not forget the list)
                self.watching.pop()
            if self.targets and frame is self.targets[-1]:
                self.targets.pop()
        return self._local

    def _main(self):
        sys.settrace(self._global)
        try:
            self.result = self.fn()
        except BaseException as e:
            self.error = e
        finally:
            sys.settrace(None)
            self.finished.set()
            self.at_stop.set()

    def run_to_stop(self, timeout=TIMEOUT * 4):
        """True: stopped at the pre-emption point (thread parked); False: A finished before it, or (hung = True)
        A neither reached the point nor finished within `timeout`"""
        self.thread.start()
        if not self.at_stop.wait(timeout):
            self.hung = True
            return False
        return self.stopped and not self.finished.is_set()

    def run_to_end(self, timeout=TIMEOUT * 4):
        """resume A; True if it finished within `timeout` (else hung = True; the daemon thread is abandoned)"""
        self.resume.set()
        if not self.finished.wait(timeout):
            self.hung = True
            return False
        self.thread.join(TIMEOUT)
        return True
