\* the check (harness/checks/c20.py) generates its cfgs itself; this one is for manual runs
CONSTANTS N = 4  EARLY_PUBLISH = FALSE  SPLIT_ASSIGN = FALSE  TORN_READ = FALSE  LOCKED = "none"
SPECIFICATION Spec
INVARIANTS TypeOK PubEmptyOrComplete CoordsOldOrNew AloneOK LocIsPrefix ReaderOK FinalOK
PROPERTIES StepsAreEffects BuilderFinishes NeverBlockedForever
CHECK_DEADLOCK TRUE
