---------------------------- MODULE MC_FeedStream ----------------------------
(* Bounded instance of the stream helpers (Feeder!FeedStream) over the tiny cipher: every mode class, direction and
   padding, streams of 0..MaxBlocks blocks + residual, block_size arguments BSizes, and EVERY way an input stream may
   hand the data out: read(block_size) returns 1..block_size cells (never more than are left), an empty result only at
   the end.  Once all data has been handed out:
     StreamOutcome   FeedStream(reads) = FeederSpec(whole stream), error outcomes included.
   SHORT_ENDS = TRUE (a result shorter than block_size ends the stream) must be refuted by TLC. *)
EXTENDS Feeder, TinyCipher, TLC
CONSTANTS MaxBlocks, BSizes, SHORT_ENDS
VARIABLES m, dir, pad, bs, S, rest, reads

PA == <<1,3,0,2,2,1,0,3,3,1,2,0,0,3,1,1,2,3,0,1,3,2>>
PC == <<2,2,1,3,0,1,2,1,0,2,1,2,3,0,2,1,1,0,3,2,2,1>>
MaxLen == MaxBlocks * BLK + BLK - 1
ModeCfgs ==
    {[mode |-> md, k |-> 1, iv |-> IF md = "ecb" THEN <<>> ELSE IF md = "ctr" THEN Fill(BLK, CM - 1) ELSE Take(PC, BLK), seg |-> 0]
        : md \in {"ecb", "cbc", "ofb", "ctr"}}
    \cup {[mode |-> "cfb", k |-> 2, iv |-> Take(PA, BLK), seg |-> s] : s \in 1..BLK}
Streams(mc, d) ==
    {Take(PA, n) : n \in 0..MaxLen} \cup {Zeros(n) : n \in {BLK, 2 * BLK}}
    \cup (IF d = "enc" THEN {} ELSE {FeederSpec(mc, "enc", "default", Take(PC, n)).out : n \in 0..MaxLen})
Init == /\ m \in ModeCfgs /\ dir \in {"enc", "dec"} /\ pad \in {"default", "none"} /\ bs \in BSizes
        /\ S \in Streams(m, dir) /\ rest = S /\ reads = <<>>
Next == /\ rest # <<>>
        /\ \E n \in 1..(IF bs < Len(rest) THEN bs ELSE Len(rest)) : reads' = Append(reads, Take(rest, n)) /\ rest' = Drop(rest, n)
        /\ UNCHANGED <<m, dir, pad, bs, S>>
StreamOutcome ==
    rest = <<>> =>
        LET r == FeedStream(m, dir, pad, reads, bs, SHORT_ENDS)
            w == StreamSpec(m, dir, pad, S)
        IN  r.out = w.out /\ r.err = w.err /\ r.used = Len(reads) /\ Flatten(reads, 1, <<>>) = S
\* an explicit empty result at the end changes nothing; data after an empty result is never read
ASSUME LET mc == CHOOSE x \in ModeCfgs : x.mode = "cbc"  a == Take(PA, 3)  b == Take(PC, 2) IN
         /\ FeedStream(mc, "enc", "default", <<a, b, <<>>>>, 3, FALSE).out = FeedStream(mc, "enc", "default", <<a, b>>, 3, FALSE).out
         /\ FeedStream(mc, "enc", "default", <<a, <<>>, b>>, 3, FALSE).out = FeederSpec(mc, "enc", "default", a).out
=============================================================================
