------------------------------- MODULE Feeder -------------------------------
(* pyaes.blockfeeder: Encrypter / Decrypter around a mode object.

   State machine (one step per feed call), as the code keeps it:
     f = [ms (mode object), dir, pad, buf, fin]
     Feed(f, chunk)  buf := buf | chunk;  while Len(buf) > BLK: consume what the mode can take of
                     Len(buf) - BLK cells (block: one block if at least a block; segment: the
                     largest multiple of seg; stream: everything) - i.e. one block is always kept back
     Final(f)        feed(None): the kept-back cells go through the mode's final step with
                     padding "default" (block modes: PKCS#7 append / strip; segment: zero-extend the
                     last partial segment and truncate the result; stream: as is) or "none"
                     (block: exactly one block must be left; segment: not supported; stream: as is)
     afterwards every feed raises.

   Whole-stream specification FeederSpec(m, dir, pad, S): the SP 800-38A whole-message function applied
   to the whole (padded) stream, or an error.  MC_Feeder: for every chunking the state machine ends
   with exactly FeederSpec.  An error outcome is [out |-> what was emitted before, err |-> "error"].  *)
EXTENDS AESModes

PKCS7(d) == LET p == BLK - (Len(d) % BLK) IN d \o Fill(p, p)
\* standard PKCS#7 removal: the last cell p is in 1..BLK and the last p cells all equal p
ValidPkcs7(d) == /\ Len(d) >= BLK /\ Len(d) % BLK = 0
                 /\ LET p == d[Len(d)] IN p \in 1..BLK /\ \A i \in (Len(d) - p + 1)..Len(d) : d[i] = p
UnpadStrict(d) == IF ValidPkcs7(d) THEN [out |-> Take(d, Len(d) - d[Len(d)]), err |-> ""] ELSE [out |-> <<>>, err |-> "error"]
\* what pyaes.util.strip_PKCS7_padding does: only the last cell is looked at; > BLK raises; 0 yields the
\* empty string (data[:-0]).  Agrees with UnpadStrict on every validly padded input (MC_Feeder checks that).
UnpadLenient(d) ==
    IF Len(d) = 0 \/ Len(d) % BLK # 0 THEN [out |-> <<>>, err |-> "error"]
    ELSE LET p == d[Len(d)] IN
         IF p > BLK THEN [out |-> <<>>, err |-> "error"]
         ELSE [out |-> IF p = 0 THEN <<>> ELSE Take(d, Len(d) - p), err |-> ""]
Unpad(d) == UnpadLenient(d)

(* ------------------------------ state machine ------------------------------ *)
NewFeeder(ms, dir, pad) == [ms |-> ms, dir |-> dir, pad |-> pad, buf |-> <<>>, fin |-> FALSE]

CanConsume(ms, size) ==
    IF Class(ms.mode) = "block" THEN (IF size >= BLK THEN BLK ELSE 0)
    ELSE IF Class(ms.mode) = "segment" THEN ms.seg * (size \div ms.seg)
    ELSE size

RECURSIVE Drain(_, _, _, _)
Drain(ms, dir, buf, out) ==
    IF Len(buf) > BLK THEN
        LET cc == CanConsume(ms, Len(buf) - BLK) IN
        IF cc = 0 THEN [ms |-> ms, buf |-> buf, out |-> out]
        ELSE LET r == Call(ms, dir, Take(buf, cc)) IN Drain(r.st, dir, Drop(buf, cc), out \o r.out)
    ELSE [ms |-> ms, buf |-> buf, out |-> out]

Feed(f, chunk) ==
    IF f.fin THEN [f |-> f, out |-> <<>>, err |-> "error"]             \* 'already finished feeder'
    ELSE LET d == Drain(f.ms, f.dir, f.buf \o chunk, <<>>)
         IN  [f |-> [f EXCEPT !.ms = d.ms, !.buf = d.buf], out |-> d.out, err |-> ""]

\* the mode's final step on the kept-back data: [st, out, err]
FinalCall(ms, dir, pad, data) ==
    LET cls == Class(ms.mode) IN
    IF cls = "block" /\ dir = "enc" THEN
        IF pad = "default" THEN
            LET p == PKCS7(data) IN
            IF Len(p) = 2 * BLK THEN
                LET r1 == Call(ms, "enc", Take(p, BLK))  r2 == Call(r1.st, "enc", Drop(p, BLK))
                IN  [st |-> r2.st, out |-> r1.out \o r2.out, err |-> ""]
            ELSE Call(ms, "enc", p)
        ELSE IF Len(data) # BLK THEN Raise(ms) ELSE Call(ms, "enc", data)
    ELSE IF cls = "block" THEN
        IF pad = "default" THEN
            LET r == Call(ms, "dec", data) IN
            IF r.err # "" THEN r
            ELSE LET u == Unpad(r.out) IN [st |-> r.st, out |-> u.out, err |-> u.err]
        ELSE IF Len(data) # BLK THEN Raise(ms) ELSE Call(ms, "dec", data)
    ELSE IF cls = "segment" THEN
        IF pad # "default" THEN Raise(ms)
        ELSE LET r == Call(ms, dir, data \o Zeros(ms.seg - (Len(data) % ms.seg)))
             IN  [st |-> r.st, out |-> Take(r.out, Len(data)), err |-> r.err]
    ELSE Call(ms, dir, data)

Final(f) ==
    IF f.fin THEN [f |-> f, out |-> <<>>, err |-> "error"]
    ELSE LET r == FinalCall(f.ms, f.dir, f.pad, f.buf) IN
         IF r.err # "" THEN [f |-> [f EXCEPT !.ms = r.st], out |-> <<>>, err |-> "error"]
         ELSE [f |-> [f EXCEPT !.ms = r.st, !.buf = <<>>, !.fin = TRUE], out |-> r.out, err |-> ""]

(* --------------------------- whole-stream specification --------------------------- *)
\* cells passed on by the feed calls before the final step; a function of the length only
Emitted(m, L) ==
    IF L <= BLK THEN 0
    ELSE IF Class(m.mode) = "block" THEN BLK * ((L \div BLK) - 1)
    ELSE IF Class(m.mode) = "segment" THEN m.seg * ((L - BLK) \div m.seg)
    ELSE L - BLK
SpecOk(x)  == [out |-> x, err |-> ""]
SpecErr(x) == [out |-> x, err |-> "error"]
FeederSpec(m, dir, pad, S) ==
    LET L   == Len(S)
        cls == Class(m.mode)
        before == Whole(m, dir, Take(S, Emitted(m, L)))
    IN
    IF cls = "block" /\ dir = "enc" THEN
        IF pad = "default" THEN SpecOk(Whole(m, "enc", PKCS7(S)))
        ELSE IF L > 0 /\ L % BLK = 0 THEN SpecOk(Whole(m, "enc", S)) ELSE SpecErr(before)
    ELSE IF cls = "block" THEN
        IF L = 0 \/ L % BLK # 0 THEN SpecErr(before)
        ELSE IF pad = "none" THEN SpecOk(Whole(m, "dec", S))
        ELSE LET p == Whole(m, "dec", S)
                 u == Unpad(Drop(p, L - BLK))
             IN  IF u.err # "" THEN SpecErr(Take(p, L - BLK)) ELSE SpecOk(Take(p, L - BLK) \o u.out)
    ELSE IF cls = "segment" THEN
        IF pad # "default" THEN SpecErr(before)
        ELSE SpecOk(Take(Whole(m, dir, S \o Zeros(m.seg - (L % m.seg))), L))
    ELSE SpecOk(Whole(m, dir, S))

(* ------------------- blockfeeder._feed_stream / encrypt_stream / decrypt_stream ------------------- *)
(* The helper is a loop over the results of in_stream.read(block_size): every non-empty result is fed, the
   outputs are written in order, and ONLY AN EMPTY result ends the stream (a raw stream, pipe or socket may
   legally return fewer bytes than asked before its end); then feed(None).  reads = the results of the
   successive read calls (a trailing empty result may be present or not).  shortEnds = TRUE is the deviation
   "a result shorter than block_size is taken for the tail of the stream" (refuted in MC_FeedStream).
   Result: [out, err, used] - used = number of read results consumed (incl. the empty one if present). *)
RECURSIVE StreamLoop(_, _, _, _, _, _)
StreamLoop(f, reads, i, out, bs, shortEnds) ==
    IF i > Len(reads) \/ reads[i] = <<>> THEN
        LET r == Final(f) IN [out |-> out \o r.out, err |-> r.err, used |-> IF i > Len(reads) THEN Len(reads) ELSE i]
    ELSE LET r == Feed(f, reads[i]) IN
         IF shortEnds /\ Len(reads[i]) < bs THEN
             LET q == Final(r.f) IN [out |-> (out \o r.out) \o q.out, err |-> q.err, used |-> i]
         ELSE StreamLoop(r.f, reads, i + 1, out \o r.out, bs, shortEnds)
FeedStream(m, dir, pad, reads, bs, shortEnds) == StreamLoop(NewFeeder(NewMode(m), dir, pad), reads, 1, <<>>, bs, shortEnds)
RECURSIVE Flatten(_, _, _)
Flatten(reads, i, acc) == IF i > Len(reads) THEN acc ELSE Flatten(reads, i + 1, acc \o reads[i])
\* specification of the helpers: the whole-stream specification of everything the input stream holds
StreamSpec(m, dir, pad, data) == FeederSpec(m, dir, pad, data)
=============================================================================
