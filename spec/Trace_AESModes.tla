---------------------------- MODULE Trace_AESModes ----------------------------
(* C->S for the pyaes mode objects and the Encrypter / Decrypter feeders: TLC REPLAYS the state machines of
   AESModes / Feeder (concrete instance: 16-byte blocks, E/D = FIPS-197 AES) call by call.  Events are grouped
   (field grp >= 1; a group is one object's life, events in call order):
     m.new   mode, key, iv, seg              new mode object (iv: 16 bytes, the initial counter for ctr, [] for ecb)
     m.call  dir, data, out, err             one encrypt/decrypt call: replay; err = 1 iff the call raised
     m.end   dir, stream, outs               inputs / outputs of the accepted calls concatenated = whole-message function
     m.ossl  dir, stream, ossl               ORACLE: `openssl enc -aes-128-<mode> -nopad` on the whole stream = whole-message function
     f.new   mode, key, iv, seg, dir, pad    new Encrypter (dir enc) / Decrypter (dir dec) on a new mode object
     f.feed  data, fin, out, err             feed(data) (fin = 0) or feed(None) (fin = 1): replay
     f.end   stream, outs, err               whole stream, concatenated outputs, error flag = FeederSpec
     s.run   mode, key, iv, seg, dir, pad, bs, data, reads, out, err
                                             encrypt_stream / decrypt_stream (dir) with block_size bs on an input stream holding
                                             data; reads = what the successive in_stream.read(bs) calls returned (logged by the
                                             stream object); out = bytes written to out_stream, err = 1 iff the helper raised:
                                             (out, err) = FeederSpec(data) - the WHOLE content of the stream, however it was handed
                                             out -, every read result is non-empty except the last, nothing is left unread, and
                                             the loop model FeedStream(reads) gives the same.  One event per run (stateless).
   out / outs of all events are read from the returned objects only after the LAST call of the group (a result must not
   change when the object is used again); alias = 1 iff two results of a group are one and the same mutable object.
   pad is the option VALUE; the harness hands it over as the module constant or as an equal string built at run time.
   After a rejected event the rest of the group is skipped (the hidden state of the object is unknown). *)
EXTENDS AES, Json, IOUtils, TLC
M == INSTANCE Feeder WITH BLK <- 16, CM <- 256, E <- EncBlockRK, D <- DecBlockRK
Trace == ndJsonDeserialize(IOEnv.TRACE_FILE)
VARIABLES i, cur          \* cur = [grp, kind ("m"/"f"/""), cfg, st, bad]

None == [grp |-> 0, kind |-> "", cfg |-> <<>>, st |-> <<>>, bad |-> FALSE]
CfgOf(ev) == [mode |-> ev.mode, k |-> RoundKeys(ev.key), iv |-> ev.iv, seg |-> ev.seg]
NewOk(ev) == /\ ev.mode \in M!Modes /\ Len(ev.key) \in {16, 24, 32}
             /\ (ev.mode = "ecb" \/ Len(ev.iv) = 16) /\ (ev.mode # "cfb" \/ ev.seg \in 1..16)
Flag(e) == IF e = "" THEN 0 ELSE 1

StreamVerdict(ev) ==
    IF ~NewOk(ev) \/ ev.dir \notin {"enc", "dec"} \/ ev.pad \notin {"default", "none"} \/ ev.bs < 1 THEN "bad-event"
    ELSE LET c    == CfgOf(ev)
             want == M!StreamSpec(c, ev.dir, ev.pad, ev.data)
             got  == M!Flatten(ev.reads, 1, <<>>)
             n    == Len(ev.reads)
         IN  IF \E j \in 1..n : Len(ev.reads[j]) > ev.bs THEN "bad-event"
             ELSE IF Flag(want.err) # ev.err THEN (IF ev.err = 1 THEN "stream-helper-raised" ELSE "stream-helper-did-not-raise")
             ELSE IF ev.out # want.out THEN
                  (IF got # ev.data /\ Len(got) < Len(ev.data) THEN "stream-helper-stopped-reading-before-end-of-stream"
                   ELSE "stream-helper-output-differs-from-spec")
             ELSE IF got # ev.data THEN "stream-helper-did-not-read-whole-stream"
             ELSE IF \E j \in 1..(n - 1) : ev.reads[j] = <<>> THEN "stream-helper-read-past-end"
             ELSE LET r == M!FeedStream(c, ev.dir, ev.pad, ev.reads, ev.bs, FALSE) IN
                  IF r.out # ev.out \/ Flag(r.err) # ev.err THEN "stream-helper-differs-from-loop-model" ELSE "ok"

\* Step(ev) = [v |-> verdict, cur |-> next cur]
Step(ev) ==
    IF ev.op = "m.new" THEN
        IF ~NewOk(ev) THEN [v |-> "bad-event", cur |-> [None EXCEPT !.grp = ev.grp, !.bad = TRUE]]
        ELSE LET c == CfgOf(ev) IN [v |-> "ok", cur |-> [grp |-> ev.grp, kind |-> "m", cfg |-> c, st |-> M!NewMode(c), bad |-> FALSE]]
    ELSE IF ev.op = "f.new" THEN
        IF ~NewOk(ev) \/ ev.dir \notin {"enc", "dec"} \/ ev.pad \notin {"default", "none"} THEN [v |-> "bad-event", cur |-> [None EXCEPT !.grp = ev.grp, !.bad = TRUE]]
        ELSE LET c == CfgOf(ev) IN
             [v |-> "ok", cur |-> [grp |-> ev.grp, kind |-> "f", cfg |-> [m |-> c, dir |-> ev.dir, pad |-> ev.pad],
                                   st |-> M!NewFeeder(M!NewMode(c), ev.dir, ev.pad), bad |-> FALSE]]
    ELSE IF ev.op = "s.run" THEN [v |-> StreamVerdict(ev), cur |-> cur]
    ELSE IF cur.grp # ev.grp THEN [v |-> "event-without-object", cur |-> cur]
    ELSE IF cur.bad THEN [v |-> "ok", cur |-> cur]
    ELSE IF ev.op = "m.call" /\ cur.kind = "m" THEN
        LET r == M!Call(cur.st, ev.dir, ev.data)
            v == IF Flag(r.err) # ev.err THEN (IF ev.err = 1 THEN "mode-call-raised" ELSE "mode-call-accepted-bad-size")
                 ELSE IF r.out # ev.out THEN "mode-call-output"
                 ELSE IF ev.alias # 0 THEN "result-object-shared-between-calls"
                 ELSE "ok"
        IN  [v |-> v, cur |-> [cur EXCEPT !.st = r.st, !.bad = (v # "ok")]]
    ELSE IF ev.op = "m.end" /\ cur.kind = "m" THEN
        [v |-> IF ev.outs = M!Whole(cur.cfg, ev.dir, ev.stream) THEN "ok" ELSE "mode-stream-differs-from-sp800-38a", cur |-> cur]
    ELSE IF ev.op = "m.ossl" /\ cur.kind = "m" THEN
        [v |-> IF ev.ossl = M!Whole(cur.cfg, ev.dir, ev.stream) THEN "ok" ELSE "spec-differs-from-openssl", cur |-> cur]
    ELSE IF ev.op = "f.feed" /\ cur.kind = "f" THEN
        LET r == IF ev.fin = 1 THEN M!Final(cur.st) ELSE M!Feed(cur.st, ev.data)
            v == IF Flag(r.err) # ev.err THEN (IF ev.err = 1 THEN "feed-raised" ELSE "feed-did-not-raise")
                 ELSE IF r.out # ev.out THEN "feed-output"
                 ELSE IF ev.alias # 0 THEN "result-object-shared-between-calls"
                 ELSE "ok"
        IN  [v |-> v, cur |-> [cur EXCEPT !.st = r.f, !.bad = (v # "ok")]]
    ELSE IF ev.op = "f.end" /\ cur.kind = "f" THEN
        LET s == M!FeederSpec(cur.cfg.m, cur.cfg.dir, cur.cfg.pad, ev.stream)
        IN  [v |-> IF Flag(s.err) # ev.err THEN "feeder-error-outcome" ELSE IF s.out # ev.outs THEN "feeder-stream-differs-from-spec" ELSE "ok",
             cur |-> cur]
    ELSE [v |-> "unknown-op", cur |-> cur]

Init == i = 1 /\ cur = None
Next == /\ i <= Len(Trace)
        /\ LET s == Step(Trace[i]) IN
             /\ IF s.v = "ok" THEN TRUE ELSE PrintT(<<"REJ", Trace[i].tid, s.v, "">>)
             /\ cur' = s.cur
        /\ i' = i + 1
        /\ IF i = Len(Trace) THEN PrintT(<<"DONE", i>>) ELSE TRUE
=============================================================================
