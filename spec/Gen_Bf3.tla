------------------------------- MODULE Gen_Bf3 -------------------------------
(* S->C: prints every content of the bounded abstract instance once, with the specification's
   expected read-back, for replay on the real code. *)
EXTENDS MC_Bf3
Emit == phase = "build" /\ wkey = 0 =>
          PrintT(<<"CASE", comps, ReadFile(Written, wkey, TRUE).comps>>)
OnlyBuild == phase = "build"
=============================================================================
