--------------------------- MODULE Trace_ConfigId ---------------------------
(* C12, C->S: calls of the real ConfigId recorded by the harness, judged by ConfigId.tla at the real widths
   (5-4-4-2 digits, unknown code 9999).  TLC computes PrintId / ParseId / Derive at character level for every event.
     id      a = constructor arguments, f = fields of the object, ds / bs = is_device_settings / is_baltech_naming_scheme,
             sk, s = str(id) (or sk = "raise", scls, smro), pk, g = fields of create_from_str(str(id)) (or "raise", pcls, pmro;
             "skip" if str raised)
     parse   text; k, f = fields of create_from_str(text) (or cls, mro); rk, r = str of that identifier (or rcls)
     derive  which ("prj" | "dev"), vals = 7 cells [has, b]; k, f (or cls, mro); ck ("set" | "unset" | "raise"), ctext, ccls:
             the Configuration / DeviceSettings comment after Bf3File.derive_comments_from_config
     obj     an identifier object after attribute assignments (see ObjVerdict)
   identifiers in events: [c, p, d, v, hn, name] with None = -1 and hn = 1 iff name is not None. *)
EXTENDS ConfigId, Json, IOUtils, TLC
Trace == ndJsonDeserialize(IOEnv.TRACE_FILE)
VARIABLE i

Of(r) == Id(r.c, r.p, r.d, r.v, IF r.hn = 1 THEN Name(r.name) ELSE NoName)
InSeq(e, s) == \E j \in DOMAIN s : s[j] = e

\* create_from_str(str(id)): what the specification parses from that text; the identifier itself if it is in the domain
ParseOfPrinted(ev, f) ==
    LET sp == ParseId(ev.s) IN
    IF ~sp.ok THEN (IF ev.pk = "raise" /\ InSeq("ConfigIdFormatError", ev.pmro) THEN
                       (IF InDomain(f) THEN "roundtrip-own-text-unparsable" ELSE "ok")
                    ELSE "unparsable-text-not-rejected")
    ELSE IF ev.pk # "ok" THEN "parse-raised"
    ELSE IF Of(ev.g) # sp.id THEN "parse-result"
    ELSE IF InDomain(f) /\ Of(ev.g) # f THEN "roundtrip-differs"
    ELSE "ok"
IdVerdict(ev) ==
    LET a == Of(ev.a)
        f == Of(ev.f)
    IN  IF f # Mk(a.c, a.p, a.d, a.v, a.n) THEN "fields-differ-from-arguments"
        ELSE IF (ev.ds = 1) # IsDevSettings(f) \/ (ev.bs = 1) # IsScheme(f) THEN "form-flags"
        ELSE IF ~Printable(f) THEN "ok"                                   \* outside the domain of the text form: not judged
        ELSE IF ev.sk # "ok" THEN "str-raised"
        ELSE IF ev.s # PrintId(f) THEN "str-text"
        ELSE ParseOfPrinted(ev, f)
\* an identifier OBJECT looked at (again) after the caller assigned its public attributes: f = its CURRENT attribute values
\* (raw: an assigned 9999 stays 9999), ds / bs, s = str, ck / cs = cfgid_str ("ok" text | "none" | "raise"), g = parse of s,
\* eq = 1 iff it equals (==, not !=, same repr) a fresh object carrying the same attribute values
ObjVerdict(ev) ==
    LET f == Of(ev.f) IN
    IF (ev.ds = 1) # IsDevSettings(f) \/ (ev.bs = 1) # IsScheme(f) THEN "form-flags"
    ELSE IF ev.eq # 1 THEN "comparison-or-repr-not-by-current-fields"
    ELSE IF ~Printable(f) THEN "ok"
    ELSE IF ev.sk # "ok" THEN "str-raised"
    ELSE IF ev.s # PrintId(f) THEN "str-text"
    ELSE IF IsScheme(f) /\ (ev.ck # "ok" \/ ev.cs # NumHead(f)) THEN "cfgid-text"
    ELSE IF ~IsScheme(f) /\ ev.ck # "none" THEN "cfgid-text"
    ELSE ParseOfPrinted(ev, f)
ParseVerdict(ev) ==
    LET sp == ParseId(ev.text) IN
    IF ~sp.ok THEN (IF ev.k = "raise" /\ InSeq("ConfigIdFormatError", ev.mro) THEN "ok"
                    ELSE IF ev.k = "raise" THEN "unparsable-wrong-exception" ELSE "unparsable-text-accepted")
    ELSE IF ev.k # "ok" THEN "parse-raised"
    ELSE IF Of(ev.f) # sp.id THEN "parse-result"
    ELSE IF ~Printable(sp.id) THEN "ok"
    ELSE IF ev.rk # "ok" THEN "reprint-raised"
    ELSE IF ev.r # PrintId(sp.id) THEN "reprint-text"
    ELSE IF Canonical(ev.text) /\ ev.r # ev.text THEN "canonical-text-changed"
    ELSE "ok"
\* the user Bf3File.derive_comments_from_config: comment = text of the identifier, removed if there is none
\* (it derives both identifiers: an undecodable name of the OTHER kind may make the whole call fail)
CommentVerdict(ev, sd) ==
    IF sd.err = ErrUtf THEN (IF ev.ck = "set" THEN "comment-from-undecodable-name" ELSE "ok")
    ELSE IF ev.ck = "raise" THEN
         (IF Derive(IF ev.which = "prj" THEN "dev" ELSE "prj", ev.vals).err = ErrUtf THEN "ok" ELSE "comment-raised")
    ELSE IF ~sd.ok THEN (IF ev.ck = "unset" THEN "ok" ELSE "comment-not-removed")
    ELSE IF ~Printable(sd.id) THEN "ok"
    ELSE IF ev.ck # "set" \/ ev.ctext # PrintId(sd.id) THEN "comment-text"
    ELSE "ok"
DeriveVerdict(ev) ==
    LET sd == Derive(ev.which, ev.vals) IN
    IF ~sd.ok THEN (IF ev.k = "raise" /\ (InSeq("ConfigIdFormatError", ev.mro) \/ sd.err = ErrUtf) /\ (InSeq(sd.err, ev.mro) \/ sd.err = ErrUtf)
                    THEN CommentVerdict(ev, sd)
                    ELSE IF ev.k = "raise" THEN "derive-wrong-exception" ELSE "derive-missing-not-reported")
    ELSE IF ev.k # "ok" THEN "derive-raised"
    ELSE IF Of(ev.f) # sd.id THEN "derive-fields"
    ELSE CommentVerdict(ev, sd)
Verdict(ev) == IF ev.op = "id" THEN IdVerdict(ev) ELSE IF ev.op = "parse" THEN ParseVerdict(ev)
               ELSE IF ev.op = "derive" THEN DeriveVerdict(ev) ELSE IF ev.op = "obj" THEN ObjVerdict(ev) ELSE "unknown-op"

Init == i = 1
Next == /\ i <= Len(Trace)
        /\ LET v == Verdict(Trace[i]) IN IF v = "ok" THEN TRUE ELSE PrintT(<<"REJ", Trace[i].tid, v, "">>)
        /\ i' = i + 1
        /\ IF i = Len(Trace) THEN PrintT(<<"DONE", i>>) ELSE TRUE
=============================================================================
